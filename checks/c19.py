"""C19 — strict mode changes only when an invalid expression is reported.

(1) valid generated programs (C01 generator with C04's expression trees): strict=True
    and strict=False must render identically - output and evaluation log - under
    three binding tables each.
(2) programs with ONE invalid expression planted at a random expression slot (alone,
    as first / later pipe alternative, under not:, inside string:, inside ${...}):
      strict=True  -> construction raises ExpressionError whose token/offset are the
                      planted text;
      strict=False -> construction succeeds; rendering raises an ExpressionError with
                      the same message, offset and token IF AND ONLY IF the reference
                      model reaches the planted slot under the binding; otherwise the
                      output and log equal the model's (the slot is dead).
"""
import random

from checks import c01, c04
from vlib import monitors, tmodel
from vlib.tmodel import El, Expr, IText, Not, Pipe, Str

PROP = 'C19'
TITLE = 'strict vs non-strict'
LEVEL = 'exploration'
SHARDS = {'quick': 16, 'thorough': 16}
FLOOR = {'quick': 800, 'thorough': 10000}
REQUIRED_MONITORS = {'valid-pairs-compared': 1000, 'strict-rejections-located': 800, 'deferred-raised': 300, 'deferred-dead': 300, 'same-text-planted-twice': 100, 'empty-expression-sites': 100, 'line-ending-sites': 200, 'location-history-steps': 300, 'load-chain-steps': 400, 'metal-and-handler-sites': 400, 'file-version-uses': 500}
RULE = ('valid layer: a case = (program, binding table), strict and non-strict renderings compared; planted layer: a case = '
        '(program, planted slot, planting form in {alone, first pipe alternative, later pipe alternative, under not:, string: '
        'part, ${} part}, binding table); non-trivial: valid iff >=1 expression, planted always; distinct by (site kind, '
        'planting form, reached or not, what makes it unreachable: false condition / empty repeat / cancelled case / replace '
        '/ omitted tag / earlier failure / earlier alternative succeeded).')
ASSUMPTIONS = ['reach is decided by the reference model vlib/tmodel.py']

BADS = ['bad7 +', '1 +', '(a', 'x[', 'a b']


class PlantedSyntaxError(Exception):
    pass


class Bad(Expr):
    NO_SLOTS = True         # idx is the planting index, not the id of a recording callable

    def __init__(self, text, idx=0):
        self.text, self.idx = text, idx

    def ser(self):
        return '\x02%d\x02' % self.idx        # replaced by the text after serialisation (offsets recorded)

    def ev(self, m):
        m.planted_reached = True
        m.planted_idx = self.idx
        raise PlantedSyntaxError(self.text)


def finish_source(src, texts):
    """Replace the planting markers by their text; returns (source, {idx: offset})."""
    out = []
    offs = {}
    pos = 0
    import re as _re
    for m in _re.finditer('\x02(\\d+)\x02', src):
        out.append(src[pos:m.start()])
        idx = int(m.group(1))
        offs[idx] = sum(len(x) for x in out)
        out.append(texts[idx])
        pos = m.end()
    out.append(src[pos:])
    return ''.join(out), offs


class WholeBad(Expr):
    """Alternate model of the known mechanism: an invalid later alternative makes the WHOLE piped
    expression a deferred error, raised as soon as the expression is reached."""

    def __init__(self, inner, idx=0):
        self.inner = inner
        self.idx = idx          # which planted text the unit's deferred error reports (the first in the unit)

    def ser(self):
        return self.inner.ser()

    def ev(self, m):
        m.planted_reached = True
        m.planted_idx = self.idx
        raise PlantedSyntaxError('whole')


class Gen(c04.Gen):
    def __init__(self, rng, maxdepth, plant_at, plant_second=-1):
        super().__init__(rng, maxdepth)
        self.count = 0
        self.plant_at = plant_at
        self.plant_second = plant_second     # a second slot planted with the SAME invalid text
        self.planted = None      # (form, text, site)
        self.texts = {}

    def rid(self, site):
        self.count += 1
        if self.count == self.plant_second and self.planted is not None:
            r = self.new(site)
            self.sites[r] = 'dead-unused'
            self.texts[1] = self.planted[1]
            return Bad(self.planted[1], 1)
        if self.count != self.plant_at:
            return super().rid(site)
        rng = self.rng
        text = rng.choice(BADS)
        bad = Bad(text, 0)
        self.texts[0] = text
        r = self.new(site)
        base = site.split('-')[0]
        forms = ['alone', 'pipe-first', 'pipe-later', 'not']
        if base in c04.TEXT_SITES and base != 'interp' and site != 'define-pair':
            forms.append('string-part')
        if site in ('define-pair', 'repeat-pair', 'repeat'):
            forms = ['alone', 'pipe-first', 'pipe-later']
        form = rng.choice(forms)
        self.planted = (form, text, site)
        if form == 'alone':
            self.sites[r] = 'dead-unused'
            return bad
        if form == 'pipe-first':
            self.sites[r] = 'dead'
            return Pipe([bad, r])
        if form == 'pipe-later':
            return Pipe([r, bad])
        if form == 'not':
            self.sites[r] = 'dead-unused'
            return Not(bad)
        self.sites[r] = 'strpart'
        return Str(['a ', r, ' b ', bad])


def count_slots(rng_seed, maxdepth):
    g = Gen(random.Random(rng_seed), maxdepth, plant_at=-1)
    g.element(0, False)
    return g.count


def holds(x):
    if isinstance(x, Bad):
        return True
    if isinstance(x, Expr):
        for v in vars(x).values():
            if isinstance(v, Expr) and holds(v):
                return True
            if isinstance(v, (list, tuple)) and any(isinstance(y, Expr) and holds(y) for y in v):
                return True
    return False


def unit_alt(node):
    """Alternate-model transform for the known mechanism: the unit of deferral is the whole statement
    argument / attribute value / text node that contains the invalid text - it raises as soon as the
    unit is reached, before any other expression of the same unit runs."""
    def first_idx(x):
        if isinstance(x, Bad):
            return x.idx
        best = None
        if isinstance(x, Expr):
            for v in vars(x).values():
                for y in (v if isinstance(v, (list, tuple)) else [v]):
                    if isinstance(y, Expr):
                        i = first_idx(y)
                        if i is not None and (best is None or i < best):
                            best = i
        return best

    def fix(x):
        return WholeBad(x, first_idx(x)) if isinstance(x, Expr) and holds(x) else x

    def fix_itext(t):
        idxs = [first_idx(x) for p, x in t.parts if p == 'expr' and holds(x)]
        if idxs:
            return IText([('expr', WholeBad(None, min(idxs)))])
        return t

    def walk(n):
        if isinstance(n, El):
            st = {}
            for k, v in n.stmts.items():
                if k == 'define':
                    st[k] = [(a, b, fix(c)) for a, b, c in v]
                elif k == 'attributes':
                    st[k] = [(a, fix(b)) for a, b in v]
                elif k in ('repeat', 'content', 'replace'):
                    st[k] = (v[0], fix(v[1]))
                elif v is None:
                    st[k] = None
                else:
                    st[k] = fix(v)
            kids = []
            run = []

            def flush():
                if run:
                    idxs = [first_idx(x) for r in run if isinstance(r, IText) for p, x in r.parts if p == 'expr' and holds(x)]
                    if idxs:
                        kids.append(IText([('expr', WholeBad(None, min(idxs)))]))     # adjacent text kids are ONE text node
                    else:
                        kids.extend(run)
                    del run[:]
            for k in n.kids:
                if isinstance(k, El):
                    flush()
                    kids.append(walk(k))
                else:
                    run.append(k)
            flush()
            e = El(n.tag, [(a, (fix_itext(b) if not isinstance(b, str) else b)) for a, b in n.statics], st, kids, n.indent)
            if getattr(n, 'model_omit', False):
                e.model_omit = True
            return e
        if isinstance(n, IText):
            return fix_itext(n)
        return n
    return walk(node)


def element_of_planted(node):
    """The element whose start tag (attributes, interpolated statics, omit-tag) holds the planted text, if any."""
    if isinstance(node, El):
        st = node.stmts
        in_tag = any(holds(x) for _, x in st.get('attributes', ())) or \
            (st.get('omit') is not None and holds(st.get('omit'))) or \
            any(not isinstance(v, str) and any(p == 'expr' and holds(x) for p, x in v.parts) for k, v in node.statics)
        if in_tag:
            return node
        for k in node.kids:
            r = element_of_planted(k)
            if r is not None:
                return r
    return None


def real_run(src, table, extra, strict):
    """-> (result dict like tmodel.run_real, ExpressionError | None at construction, ExpressionError | None at render)"""
    from chameleon import PageTemplate
    from chameleon.exc import ExpressionError
    log = []

    def f(rid):
        log.append(rid)
        r = table[rid]
        if isinstance(r, tuple) and r[0] == 'raise':
            raise tmodel.make_exc(r[1], rid)
        return tmodel.build_value(r, real=True)
    try:
        t = PageTemplate(src, strict=strict)
    except ExpressionError as e:
        return None, e, None
    except Exception as e:
        return {'out': None, 'log': [], 'exc': 'COMPILE %s: %s' % (type(e).__name__, str(e).split('\n')[0][:100])}, None, None
    try:
        out = t(f=f, **extra)
        return {'out': out, 'log': log, 'exc': None}, None, None
    except ExpressionError as e:
        return {'out': None, 'log': log, 'exc': 'ExpressionError'}, None, e
    except Exception as e:
        name = type(e).__name__
        return {'out': None, 'log': log, 'exc': name if name in tmodel.EXC or name == 'UnicodeDecodeError' else
                '%s: %s' % (name, str(e).split('\n')[0][:100])}, None, None


def model_run(root, table, extra):
    m = tmodel.Model(table, extra=extra)
    m.planted_reached = False
    m.planted_idx = None
    try:
        m.render(root)
        res = {'out': '<root>' + ''.join(m.out) + '</root>', 'log': m.log, 'exc': None}
    except PlantedSyntaxError:
        res = {'out': None, 'log': m.log, 'exc': 'ExpressionError'}
    except Exception as e:
        res = {'out': None, 'log': m.log, 'exc': type(e).__name__}
    res['loose_log'] = m.raised_in_attribute_group
    res['planted_idx'] = m.planted_idx
    return res, m.planted_reached


def unit_explains(root, table, shadow, got, groups, offsets, reported):
    """Does the alternate model of the unit mechanism raise exactly where the real engine did?"""
    alt, _ = model_run(unit_alt(root), table, c04.make_extra(shadow))
    if alt['exc'] != 'ExpressionError' or offsets.get(alt.get('planted_idx')) != reported:
        return False
    return tmodel.same(got, alt, groups=groups)


def run(ctx):
    monitors.install(ctx, tokalg=False)
    layer_empty(ctx)
    layer_line_endings(ctx)
    layer_load_chain(ctx, 12 if ctx.quick else 200)
    layer_metal_and_error_handler_sites(ctx, 30 if ctx.quick else 500)
    layer_file_versions(ctx, 15 if ctx.quick else 250)
    layer_location_history(ctx, 6 if ctx.quick else 60)
    rng = ctx.rng
    n = 100 if ctx.quick else 1800
    maxdepth = 1 if ctx.quick else 2
    for i in range(n):
        seed = rng.randrange(1 << 30)
        # ---- (1) valid program: strict == non-strict
        g = Gen(random.Random(seed), maxdepth, plant_at=-1)
        root = g.element(0, False)
        c01.tal_block_fix(root)
        groups = tmodel.attribute_groups(root)
        nslots = g.count
        shadow = rng.random() < .3
        perm = rng.randrange(1 << 30)
        src = '<root>' + tmodel.serialise(root, random.Random(perm)) + '</root>'
        for b in range(3):
            table = g.table(rng)
            a, ea, _ = real_run(src, table, c04.make_extra(shadow), True)
            bb, eb, _ = real_run(src, table, c04.make_extra(shadow), False)
            ctx.mon('valid-pairs-compared')
            ctx.case(key=('valid', c01.stmt_shape(root), b), nontrivial=nslots >= 1)
            if ea is not None or eb is not None or not tmodel.same(a, bb, groups=groups):
                ctx.violation('valid-template-strict-differs',
                              'valid template %r, table %r: strict -> %r / %r, non-strict -> %r / %r' % (
                                  src, table, a, ea, bb, eb), {'kind': 'valid', 'src': src})
        if nslots == 0:
            continue
        # ---- (2) the same program with one slot planted
        first = rng.randint(1, nslots)
        second = rng.randint(first + 1, nslots) if first < nslots and rng.random() < .35 else -1
        g = Gen(random.Random(seed), maxdepth, plant_at=first, plant_second=second)
        root = g.element(0, False)
        c01.tal_block_fix(root)
        if g.planted is None:
            continue
        form, text, site = g.planted
        groups = tmodel.attribute_groups(root)
        src, offsets = finish_source('<root>' + tmodel.serialise(root, random.Random(perm)) + '</root>', g.texts)
        if src.count(text) != len(offsets):
            continue
        off = offsets[0]
        two = len(offsets) == 2
        if two:
            ctx.mon('same-text-planted-twice')
        _, e_strict, _ = real_run(src, {}, {}, True)
        ctx.mon('strict-rejections-located')
        ctx.cover('planting-form', form)
        ctx.cover('planted-site', site)
        if e_strict is None:
            key = 'strict-accepts-invalid-expression'
            holder = element_of_planted(root)
            if holder is not None and (holder.tag.startswith('tal:') or ('omit' in holder.stmts and holder.stmts['omit'] is None)):
                # known mechanism: the start tag of an element whose tag is never rendered is not compiled at all
                key = 'strict-accepts-invalid-expression-in-start-tag-that-is-never-rendered'
            ctx.violation(key, 'strict compilation accepted %r (planted %r at a %s site)' % (src, text, site),
                          {'kind': 'planted', 'src': src, 'text': text})
            continue
        if two and e_strict.offset in offsets.values() and str(e_strict.token) == text.strip():
            pass            # which of two invalid expressions strict compilation meets first is not specified
        elif e_strict.offset != off or str(e_strict.token) != text.strip():
            ctx.violation('strict-error-location', 'strict: planted %r at %d in %r, reported token %r at %d' % (
                text, off, src, str(e_strict.token), e_strict.offset), {'kind': 'planted', 'src': src, 'text': text})
        for b in range(3):
            table = g.table(rng)
            extra = c04.make_extra(shadow)
            want, reached = model_run(root, table, c04.make_extra(shadow))
            got, e_c, e_r = real_run(src, table, extra, False)
            ctx.mon('deferred-raised' if want['exc'] == 'ExpressionError' else 'deferred-dead')
            ctx.case(key=('planted', site, form, want['exc'] == 'ExpressionError', c01.stmt_shape(root)), nontrivial=True,
                     sample={'source': src, 'planted': text, 'form': form, 'table': {str(k): v for k, v in table.items()},
                             'model_reaches': want['exc'] == 'ExpressionError', 'real': got} if i < 2 and b == 0 else None)
            if e_c is not None:
                ctx.violation('non-strict-compilation-fails', 'non-strict compilation of %r raised %s' % (src, e_c),
                              {'kind': 'planted', 'src': src, 'text': text})
                break
            ok = tmodel.same(got, want, groups=groups)
            if not ok and got['exc'] == want['exc'] == 'ExpressionError':
                # both raise at the planted slot; parts of the same statement argument written before the
                # invalid text (string: parts, earlier alternatives) need not have run: prefix is enough
                gl = tmodel.normalise_log(got['log'], groups)
                wl = tmodel.normalise_log(want['log'], groups)
                ok = gl == wl[:len(gl)] and len(wl) - len(gl) <= 2
            if ok and e_r is not None:
                want_off = offsets.get(want.get('planted_idx'), off)
                lo, hi = min(offsets.values()), max(offsets.values())
                # same text node / attribute value, or two attributes of one start tag (their order is unspecified)
                same_unit = two and '<' not in src[lo:hi] and ('"' not in src[lo:hi] or '>' not in src[lo:hi])
                if same_unit and e_r.offset in offsets.values():
                    pass     # two invalid texts inside ONE text node / attribute value: covered by the unit mechanism
                elif e_r.offset != want_off and two and unit_explains(root, table, shadow, got, groups, offsets, e_r.offset):
                    ctx.violation('deferred-error-unit-is-the-whole-argument-or-text-node',
                                  'template %r: deferred error reported at %d, the reached invalid expression stands at %d'
                                  % (src, e_r.offset, want_off), {'kind': 'planted', 'src': src, 'text': text})
                elif e_r.offset != want_off or str(e_r.token) != str(e_strict.token) or e_r.args[0] != e_strict.args[0]:
                    ctx.violation('deferred-error-differs-from-strict-error',
                                  'template %r: the reached invalid expression stands at offset %d (strict error: %r, %r); '
                                  'deferred error (%r, %r, offset %d)' % (
                                      src, want_off, e_strict.args[0], str(e_strict.token), e_r.args[0],
                                      str(e_r.token), e_r.offset), {'kind': 'planted', 'src': src, 'text': text})
            if not ok:
                key = 'raised-iff-reached-violated'
                alt, _ = model_run(unit_alt(root), table, c04.make_extra(shadow))
                if tmodel.same(got, alt, groups=groups):
                    key = 'deferred-error-unit-is-the-whole-argument-or-text-node'
                ctx.violation(key, 'template %r planted %r (%s at %s), table %r\n  real  %r\n  model %r' % (
                    src, text, form, site, table, got, want),
                    {'kind': 'planted', 'src': src, 'text': text, 'table': {str(k): v for k, v in table.items()}})


EMPTY_SITES = ['<p tal:content="">x</p>', '<p tal:replace="">x</p>', '<p tal:condition="">x</p>', '<p tal:define="x 1; a ">x</p>',
               '<p tal:repeat="item ">x</p>', '<p tal:on-error="">${1/0}</p>', '<p tal:replace="structure ">x</p>', '<p tal:switch="">x</p>',
               '<p tal:switch="1"><b tal:case="">x</b></p>', '<p tal:content="python:">x</p>', '<p tal:content="not:">x</p>',
               '<p tal:content="nothing | ">x</p>', '<p tal:omit-tag="not:">x</p>', '<p tal:define="x ">x</p>',
               '<p tal:content="structure python: ">x</p>', '<p tal:attributes="a python:">x</p>', '<p tal:content="exists:">x</p>',
               # an interpolation holding nothing but white space is an expression, and an invalid one
               '<p>a ${ } b</p>', '<p a="${ }">x</p>', '<p>a ${\n} b</p>', '<!-- c ${  } -->', '<![CDATA[${ }]]>',
               '<p tal:content="string:a ${ } b">x</p>', "<p a='x ${\t}'>x</p>"]
EMPTY_WRAPPERS = [('reached', '%s', None), ('reached-after-text', 'before\n  <i>t</i> %s after', None),
                  ('reached-in-repeat', '<ul><li tal:repeat="k (1, 2)">%s</li></ul>', None),
                  ('dead-false-condition', '[<div tal:condition="False">%s</div>]', '[]'),
                  ('dead-empty-repeat', '[<div tal:repeat="k ()">%s</div>]', '[]'),
                  ('dead-replaced', '[<div tal:replace="string:R">%s</div>]', '[R]'),
                  ('dead-case', '[<div tal:switch="1"><b tal:case="2">%s</b></div>]', '[<div></div>]')]


def layer_empty(ctx):
    """EMPTY expressions (zero-length token): strict rejects them at construction; non-strict raises the same
    error (message, token, offset) when and only when the site is reached."""
    from chameleon import PageTemplate
    from chameleon.exc import ExpressionError
    work = [(s, w) for s in EMPTY_SITES for w in EMPTY_WRAPPERS]
    for idx, (site, (wname, wrap, dead_out)) in enumerate(work):
        if idx % ctx.nshards != ctx.shard:
            continue
        src = wrap % site
        replay = {'kind': 'planted', 'src': src, 'text': ''}
        ctx.mon('empty-expression-sites')
        ctx.case(key=('empty', site, wname), nontrivial=True)
        try:
            PageTemplate(src, strict=True)
            ctx.violation('strict-accepts-empty-expression', 'strict compilation accepted %r' % src, replay)
            continue
        except ExpressionError as e:
            strict = (e.args[0], str(e.token), e.offset)
        except Exception as e:
            ctx.violation('strict-empty-expression-other-error', 'strict compilation of %r raised %s: %s' % (src, type(e).__name__, e), replay)
            continue
        try:
            t = PageTemplate(src, strict=False)
        except Exception as e:
            ctx.violation('non-strict-compilation-fails', 'non-strict compilation of %r raised %s: %s' % (
                src, type(e).__name__, str(e).split('\n')[0]), replay)
            continue
        try:
            got = ('out', t())
        except ExpressionError as e:
            got = ('error', (e.args[0], str(e.token), e.offset))
        except Exception as e:
            got = ('other', '%s: %s' % (type(e).__name__, str(e).split('\n')[0][:100]))
        want = ('out', dead_out) if dead_out is not None else ('error', strict)
        if got != want:
            ctx.violation('empty-expression-' + ('raised-iff-reached-violated' if got[0] != want[0] else 'deferred-error-differs-from-strict-error'),
                          'template %r (%s): strict error %r; non-strict rendering gave %r, expected %r' % (src, wname, strict, got, want), replay)


def layer_location_history(ctx, rounds):
    """Histories of templates of EQUAL length but different line structure, rendered one after the other (objects
    dropped in between): each deferred error must be located in its own source, like the strict error is."""
    import gc
    from chameleon import PageTemplate
    from chameleon.exc import ExpressionError
    rng = ctx.rng
    K = 7
    for rnd in range(rounds):
        bad = rng.choice(BADS[:3])
        order = list(range(K))
        rng.shuffle(order)
        for i in order:
            src = '\n' * i + ' ' * (K - i) + '<p>x</p>' + '\n' * (K - i) + ' ' * i + '<b>${%s}</b>' % bad
            off = src.index(bad)
            want = (bad.strip(), off, (src.count('\n', 0, off) + 1, off - (src.rfind('\n', 0, off) + 1)))
            got = []
            for strict in (True, False):
                try:
                    PageTemplate(src, strict=strict)()
                    got.append('no-error')
                except ExpressionError as e:
                    got.append((str(e.token), e.offset, tuple(e.location)))
                    del e
                except Exception as e:
                    got.append('other %s' % type(e).__name__)
                if rng.random() < .3:
                    gc.collect()
            ctx.mon('location-history-steps')
            ctx.case(key=('location-history', i, bad), nontrivial=True)
            if got != [want, want]:
                ctx.violation('location-history-differs', 'template %r (one of %d equally long templates rendered in turn): strict / deferred '
                              'error %r, expected %r' % (src, K, got, want), {'kind': 'planted', 'src': src, 'text': bad})



def layer_load_chain(ctx, n):
    """File templates that pull in another file through load: hand their own strict setting down to it.  Pages with
    different settings live in one directory and are created in every order: for each page the loaded template with
    an invalid expression is rejected when the page is strict (whether or not the expression is reached) and fails in
    the non-strict page exactly when rendering reaches it - whatever other pages were created or rendered before."""
    import os
    import shutil
    import tempfile
    from chameleon import PageTemplateFile
    from chameleon.exc import ExpressionError
    rng = ctx.rng
    tmp = tempfile.mkdtemp(prefix='c19l_')
    try:
        for case in range(n):
            d = os.path.join(tmp, 'k%d' % case)
            os.makedirs(d)
            bad = rng.choice(BADS)
            valid = rng.random() < .25
            site = rng.choice(['<p tal:condition="reach">${%s}</p>', '<p tal:condition="reach" tal:content="%s">x</p>',
                               '<tal:r repeat="r range(reach)"><i tal:attributes="a %s"/></tal:r>'])
            with open(os.path.join(d, 'layout.pt'), 'w') as f:
                f.write('<html>' + site % ('1 + 1' if valid else bad) + '<b metal:define-slot="s">d</b></html>')
            how = rng.choice(['use-macro', 'define'])
            pages = []
            for k in range(rng.randint(2, 4)):
                name = 'page%d.pt' % k
                with open(os.path.join(d, name), 'w') as f:
                    if how == 'use-macro':
                        f.write('<x metal:use-macro="load: layout.pt"><i metal:fill-slot="s">F%d</i></x>' % k)
                    else:
                        f.write('<x tal:define="l load: layout.pt">F%d${structure: l(reach=reach)}</x>' % k)
                pages.append((name, rng.random() < .5))
            ts = [(name, strict, PageTemplateFile(os.path.join(d, name), strict=strict)) for name, strict in pages]
            # what strict compilation of the loaded file itself reports: the deferred error must be the same error -
            # message, token, offset and the FILE it names - through whichever page it surfaces
            ref = None
            if not valid:
                try:
                    PageTemplateFile(os.path.join(d, 'layout.pt'), strict=True).cook_check()
                except ExpressionError as e:
                    ref = (e.args[0], str(e.token), e.offset, os.path.basename(str(e.filename)))
            steps = [(rng.randrange(len(ts)), rng.choice([0, 1])) for _ in range(rng.randint(3, 7))]
            hist = []
            for k, reach in steps:
                name, strict, t = ts[k]
                seen = None
                try:
                    t(reach=reach)
                    got = 'rendered'
                except ExpressionError as e:
                    got = 'ExpressionError'
                    seen = (e.args[0], str(e.token), e.offset, os.path.basename(str(e.filename)))
                    fn_line = [l for l in str(e).splitlines() if l.startswith(' - Filename:')]
                    if fn_line and not fn_line[0].rstrip().endswith('layout.pt'):
                        seen = seen + ('message names ' + fn_line[0].strip(),)
                except Exception as e:
                    got = 'RAISED %s' % type(e).__name__
                want = 'rendered' if valid or (not strict and not reach) else 'ExpressionError'
                if got == want == 'ExpressionError' and ref is not None and seen != ref:
                    ctx.violation('deferred-error-through-another-template-differs-from-strict-error',
                                  'layout.pt %r loaded by %s(strict=%s): the error that surfaced is %r, strict compilation of layout.pt reports %r' % (
                                      site % bad, name, strict, seen, ref), {'kind': 'loadchain'})
                    break
                hist.append('%s(strict=%s).render(reach=%d)' % (name, strict, reach))
                ctx.mon('load-chain-steps')
                if got != want:
                    ctx.violation('strict-setting-not-handed-down-through-load',
                                  'layout.pt with the %s expression %r, pages %r, history %r: last step %s, expected %s' % (
                                      'valid' if valid else 'invalid', site % bad, pages, hist, got, want),
                                  {'kind': 'loadchain'})
                    break
            ctx.case(key=('loadchain', tuple(st for _, st in pages), how, valid, tuple(steps)), nontrivial=len({st for _, st in pages}) > 1)
    finally:
        shutil.rmtree(tmp, ignore_errors=True)



def layer_file_versions(ctx, n):
    """A strict and a non-strict auto_reload file template follow the same file whose versions alternate between texts
    with only valid expressions and texts with an invalid one: on EVERY use of an invalid version the strict template
    fails with the ExpressionError (compilation of the current text never succeeded), the non-strict twin raises the
    same error exactly when the expression is reached; on valid versions both render identically."""
    import os
    import shutil
    import tempfile
    from chameleon import PageTemplateFile
    from chameleon.exc import ExpressionError
    rng = ctx.rng
    tmp = tempfile.mkdtemp(prefix='c19f_')
    try:
        for case in range(n):
            path = os.path.join(tmp, 'f%d.pt' % case)
            mtime = 1_000_000
            ts = None
            hist = []
            ok = True
            for step in range(rng.randint(2, 5)):
                invalid = rng.random() < .55
                expr = rng.choice(BADS) if invalid else rng.choice(['1 + 1', "'v'", 'reach'])
                site = rng.choice(['<p tal:condition="reach">${%s}</p>', '<p tal:condition="reach" tal:content="%s">x</p>'])
                text = rng.choice(['', '\n', 'é ']) + '<html>v%d' % step + site % expr + '</html>'
                with open(path, 'w', encoding='utf-8') as f:
                    f.write(text)
                mtime += rng.choice([1, 5, -3])
                os.utime(path, (mtime, mtime))
                hist.append('write(%s)' % ('invalid' if invalid else 'valid'))
                if ts is None:
                    ts = {True: PageTemplateFile(path, auto_reload=True, strict=True),
                          False: PageTemplateFile(path, auto_reload=True, strict=False)}
                for use in range(rng.randint(1, 3)):
                    reach = rng.choice([0, 1])
                    outs = {}
                    for strict in (True, False):
                        try:
                            outs[strict] = ('rendered', ts[strict](reach=reach))
                        except ExpressionError as e:
                            outs[strict] = ('ExpressionError', (str(e.token), e.offset))
                        except Exception as e:
                            outs[strict] = ('RAISED %s' % type(e).__name__, None)
                    hist.append('render(reach=%d)' % reach)
                    ctx.mon('file-version-uses')
                    off = text.index(expr) if invalid else None
                    if not invalid:
                        good = outs[True][0] == 'rendered' and outs[True] == outs[False] and ('v%d' % step) in outs[True][1]
                    else:
                        loc = (expr.strip(), off)
                        good = outs[True] == ('ExpressionError', loc) and (
                            outs[False] == ('ExpressionError', loc) if reach else outs[False][0] == 'rendered' and ('v%d' % step) in outs[False][1])
                    if not good:
                        ctx.violation('file-version-strict-or-deferred-error-differs',
                                      'history %r, file now %r: strict %r, non-strict %r' % (hist, text, outs[True], outs[False]),
                                      {'kind': 'filever'})
                        ok = False
                        break
                if not ok:
                    break
            ctx.case(key=('filever', tuple(hist)), nontrivial='write(invalid)' in hist)
    finally:
        shutil.rmtree(tmp, ignore_errors=True)



def layer_metal_and_error_handler_sites(ctx, n):
    """Invalid expressions at sites the program generator does not reach: inside macro bodies (rendered in place and
    through use-macro), slot defaults and fillers, and as the tal:on-error expression (reached when the element's body
    fails).  Strict compilation reports the error; the non-strict twin raises the SAME error (message, token, offset)
    exactly when the site is reached."""
    from chameleon import PageTemplate
    from chameleon.exc import ExpressionError
    rng = ctx.rng
    for case in range(n):
        # invalid syntax, or an expression type nobody registered
        bad = rng.choice(BADS + ['nosuchtype: x', 'path: a/b'])
        site = rng.choice(['macro-body', 'macro-body-used', 'slot-default', 'filler', 'on-error', 'on-error-in-macro', 'macro-attribute',
                           'plain-content', 'plain-interpolation', 'later-pipe-alternative', 'superseded-filler', 'filler-of-unknown-slot',
                           'pipe-alternative-after-a-literal', 'exists-operand', 'not-exists-operand', 'exists-in-interpolation'])
        lead = rng.choice(['', '\n', 'é <!-- c -->\n  '])
        B = '${%s}' % bad
        if site == 'macro-body':
            src = '<div metal:define-macro="m%d"><p tal:condition="reach">%s</p>x</div>' % (case, B)
        elif site == 'macro-body-used':
            src = ('<tal:c condition="False"><div metal:define-macro="m%d"><p tal:condition="reach">%s</p>x</div></tal:c>'
                   '<div metal:use-macro="template.macros[\'m%d\']"/>' % (case, B, case))
        elif site == 'slot-default':
            src = '<div metal:define-macro="m%d"><i metal:define-slot="s"><p tal:condition="reach">%s</p></i></div>' % (case, B)
        elif site == 'filler':
            src = ('<tal:c condition="False"><div metal:define-macro="m%d"><i metal:define-slot="s">d</i></div></tal:c>'
                   '<div metal:use-macro="template.macros[\'m%d\']"><u metal:fill-slot="s"><p tal:condition="reach">%s</p></u></div>' % (case, case, B))
        elif site == 'superseded-filler':
            # two fillers of one slot name: the later one is shown, the earlier one is still part of the template
            src = ('<tal:c condition="False"><div metal:define-macro="m%d"><i metal:define-slot="s">d</i></div></tal:c>'
                   '<div metal:use-macro="template.macros[\'m%d\']"><u metal:fill-slot="s">%s</u><u metal:fill-slot="s">ok</u></div>' % (case, case, B))
        elif site == 'filler-of-unknown-slot':
            src = ('<tal:c condition="False"><div metal:define-macro="m%d"><i metal:define-slot="s">d</i></div></tal:c>'
                   '<div metal:use-macro="template.macros[\'m%d\']"><u metal:fill-slot="zz">%s</u></div>' % (case, case, B))
        elif site == 'on-error':
            src = '<div tal:on-error="%s">${1/0 if reach else 1}</div>' % bad
        elif site == 'on-error-in-macro':
            src = '<div metal:define-macro="m%d"><b tal:on-error="%s">${1/0 if reach else 1}</b></div>' % (case, bad)
        elif site == 'plain-content':
            src = '<p tal:condition="reach" tal:content="%s">x</p>' % bad
        elif site == 'plain-interpolation':
            src = '<p tal:condition="reach">${%s}</p>' % bad
        elif site == 'pipe-alternative-after-a-literal':
            # an alternative that can never be reached at run time (a literal stands before it) is still part of the template
            src = '<p tal:condition="reach" tal:content="nosuchname | %s | %s">x</p>' % (rng.choice(['None', "'plain'", '0', '1.5', "''"]), bad)
        elif site == 'exists-operand':
            src = '<p tal:condition="reach" tal:content="exists: %s">x</p>' % bad
        elif site == 'not-exists-operand':
            src = '<p tal:condition="reach"><i tal:condition="not: exists: %s">x</i></p>' % bad
        elif site == 'exists-in-interpolation':
            src = '<p tal:condition="reach">${exists: %s}</p>' % bad
        elif site == 'later-pipe-alternative':
            src = '<p tal:condition="reach" tal:content="nosuchname | %s">x</p>' % bad
        else:
            src = '<div metal:define-macro="m%d"><p tal:condition="reach" tal:attributes="a %s">x</p></div>' % (case, bad)
        src = lead + '<r>' + src + '</r>'
        off = src.index(bad)
        try:
            PageTemplate(src, strict=True)
            strict = None
        except ExpressionError as e:
            strict = (e.args[0], str(e.token), e.offset)
        except Exception as e:
            strict = ('other', type(e).__name__, str(e).split('\n')[0][:80])
        ctx.mon('metal-and-handler-sites')
        ctx.case(key=('metalsite', site, bad, bool(lead)), nontrivial=True)
        replay = {'kind': 'metalsite', 'src': src}
        unknown_type = bad.split(':')[0] in ('nosuchtype', 'path')
        if unknown_type and strict is not None and strict[0] != 'other' and src[strict[2]:strict[2] + len(strict[1])] == strict[1] and \
                off <= strict[2] <= off + len(bad):
            pass        # (which part of 'type: text' the token covers is not specified: it is aligned and lies inside the expression)
        elif strict is None or strict[0] == 'other' or strict[1] != bad.strip() or strict[2] != off + (len(bad) - len(bad.lstrip())):
            ctx.violation('strict-error-missing-or-misplaced:' + site, 'template %r strict: %r (planted %r at %d)' % (src, strict, bad, off), replay)
            continue
        try:
            lax = PageTemplate(src, strict=False)
        except Exception as e:
            ctx.violation('non-strict-compilation-fails:' + site, 'template %r: %s: %s' % (src, type(e).__name__, str(e).split('\n')[0]), replay)
            continue
        for reach in (0, 1):
            try:
                lax(reach=reach)
                got = 'rendered'
            except ExpressionError as e:
                got = (e.args[0], str(e.token), e.offset)
            except Exception as e:
                got = ('other', type(e).__name__, str(e).split('\n')[0][:80])
            want = strict if reach and site not in ('superseded-filler', 'filler-of-unknown-slot') else 'rendered'
            if got != want:
                ctx.violation('deferred-error-differs-from-strict-error:' + site,
                              'template %r reach=%d: non-strict %r, expected %r (strict compilation: %r)' % (src, reach, got, want, strict), replay)
                break


def layer_line_endings(ctx):
    """CRLF / CR / LF sources (HTML mode normalises them, XML mode keeps them): the strict error and the deferred
    error name the same token, offset, line and column, and both are aligned with the text they refer to."""
    from chameleon import PageTemplate
    from chameleon.exc import ExpressionError
    sites = ['<b tal:content="%s">x</b>', '<b>${%s}</b>', '<b title="t ${%s}">x</b>', '<b tal:define="a 1; b %s">x</b>',
             '<b tal:attributes="a 1; b %s">x</b>']
    work = [(nl, xml, site, bad, lines) for nl in ('\r\n', '\r', '\n', '\n\r\n') for xml in (False, True) for site in sites
            for bad in BADS[:3] for lines in (1, 3)]
    for idx, (nl, xml, site, bad, lines) in enumerate(work):
        if idx % ctx.nshards != ctx.shard:
            continue
        src = ('<?xml version="1.0"?>' + nl if xml else '') + '<div>' + ('line' + nl) * lines + '  ' + site % bad + nl + '</div>' + nl
        replay = {'kind': 'planted', 'src': src, 'text': bad}
        ctx.mon('line-ending-sites')
        ctx.case(key=('line-endings', repr(nl), xml, site[:12], bad, lines), nontrivial=True)
        got = []
        for strict in (True, False):
            try:
                t = PageTemplate(src, strict=strict)
                t()
                got.append(('no-error', None))
            except ExpressionError as e:
                problem = monitors.check_template_error(e)
                got.append(((str(e.token), e.offset, tuple(e.location)), problem))
            except Exception as e:
                got.append(('other %s: %s' % (type(e).__name__, str(e).split('\n')[0][:80]), None))
        (a, pa), (b, pb) = got
        if pa or pb:
            ctx.violation('line-endings-error-misaligned', 'template %r: strict error %r (%s), deferred error %r (%s)' % (src, a, pa, b, pb), replay)
        elif a != b or not isinstance(a, tuple):
            ctx.violation('line-endings-strict-and-deferred-error-differ', 'template %r: strict error %r, deferred error %r' % (src, a, b), replay)


def replay(data):
    from chameleon import PageTemplate
    res = []
    for strict in (True, False):
        try:
            PageTemplate(data['src'], strict=strict)
            res.append('strict=%s: compiled' % strict)
        except Exception as e:
            res.append('strict=%s: %s: %s' % (strict, type(e).__name__, str(e).split('\n')[0]))
    return True, 'template %r\n%s' % (data['src'], '\n'.join(res))
