import sys, codecs, itertools, re, os, tempfile
sys.path.insert(0, '/repo/src')
from chameleon import PageTemplate, PageTemplateFile
BOMS = {'utf-8': codecs.BOM_UTF8, 'utf-16-le': codecs.BOM_UTF16_LE, 'utf-16-be': codecs.BOM_UTF16_BE, 'utf-32-le': codecs.BOM_UTF32_LE, 'utf-32-be': codecs.BOM_UTF32_BE}
def sniff(b, default='utf-8'):
    """independent oracle: returns (encoding, is_xml, text)"""
    for enc in ('utf-32-le', 'utf-32-be', 'utf-8', 'utf-16-le', 'utf-16-be'):   # utf-32-le BOM starts with utf-16-le BOM: test 32 first
        if b.startswith(BOMS[enc]):
            text = b[len(BOMS[enc]):].decode(enc)
            return enc, text.startswith('<?xml'), text
    for enc in ('utf-32-le', 'utf-32-be', 'utf-16-le', 'utf-16-be'):
        if b.startswith('<?xml'.encode(enc)):
            return enc, True, b.decode(enc)
    if b.startswith(b'<?xml'):
        head = b.split(b'?>', 1)[0]
        m = re.search(rb'encoding\s*=\s*["\']([\w\-]+)["\']', head)
        enc = m.group(1).decode('ascii') if m else default
        return enc, True, b.decode(enc)
    # meta content-type
    a = b.decode('ascii', 'ignore')
    for m in re.finditer(r'<meta\b([^>]*)>', a, re.I):
        attrs = dict((k.lower(), v) for k, v in re.findall(r'([\w\-]+)\s*=\s*["\']?([^"\'>]*)["\']?', m.group(1)))
        if attrs.get('http-equiv', '').lower() == 'content-type' and 'charset=' in attrs.get('content', '').lower():
            enc = attrs['content'].lower().split('charset=')[1].strip().rstrip('/ ').strip()
            return enc, False, b.decode(enc)
    return default, False, b.decode(default)
BODY = '<p class="é">ü€Тест <input checked="${1}"/>\r\n</p>'
decls = [None, '<?xml version="1.0"?>', '<?xml version="1.0" encoding="%s"?>', "<?xml version='1.0'  encoding = '%s' ?>", '<?xml version="1.0" encoding="%s" standalone="yes"?>']
metas = [None, '<meta http-equiv="Content-Type" content="text/html; charset=%s">', "<meta http-equiv='content-type' content='text/html;charset=%s' />", '<META HTTP-EQUIV="Content-Type" CONTENT="text/html; charset=%s">', '<meta content="text/html; charset=%s" http-equiv="Content-Type">', '<meta  http-equiv=Content-Type  content="text/html; charset=%s">']
encs = ['utf-8', 'utf-16-le', 'utf-16-be', 'utf-32-le', 'utf-32-be', 'latin-1', 'cp1251', 'shift_jis', 'utf-16', 'cp1252', 'koi8-r']
def encodable(text, enc):
    try: text.encode(enc); return True
    except Exception: return False
from collections import Counter
stats = Counter(); shown = Counter()
tmpd = tempfile.mkdtemp()
for enc, bom, decl, meta in itertools.product(encs, [False, True], decls, metas):
    body = BODY if encodable(BODY, enc) else ('<p class="e">plain <input checked="${1}"/>\r\n</p>' if enc != 'latin-1' and enc != 'cp1252' else '<p class="é">ü <input checked="${1}"/>\r\n</p>')
    if not encodable(body, enc): body = '<p>plain <input checked="${1}"/>\r\n</p>'
    if bom and enc not in BOMS: continue
    if enc == 'utf-16' : 
        if bom: continue
    doc = ''
    if decl: doc += (decl % enc if '%s' in decl else decl)
    if meta: doc += '<html><head>' + (meta % enc) + '</head>' + body + '</html>'
    else: doc += body
    raw = doc.encode(enc)
    if enc == 'utf-16': raw = raw  # python adds BOM itself
    if bom: raw = BOMS[enc] + raw
    cell = (enc, bom, decls.index(decl), metas.index(meta))
    # is the encoding determinable per the property's order? (BOM, decl encoding, meta, default utf-8)
    try:
        oenc, oxml, otext = sniff(raw)
    except Exception as e:
        stats['oracle-cannot-decode'] += 1; continue
    if otext != doc and otext.lstrip('﻿') != doc:
        stats['oracle-undeterminable'] += 1; continue   # e.g. latin-1 without any declaration: nothing says latin-1
    for kind in ('str', 'file'):
        try:
            if kind == 'str': t = PageTemplate(raw)
            else:
                fn = os.path.join(tmpd, 't.pt'); open(fn, 'wb').write(raw); t = PageTemplateFile(fn)
                t.cook_check()
            got = t(); ct = t.content_type; ce = t.content_encoding
            want_t = PageTemplate(doc)
            want = want_t()
            problems = []
            if got != want: problems.append('render')
            if '﻿' in got: problems.append('bom-in-output')
            if ct != ('text/xml' if oxml else 'text/html'): problems.append('content_type=%s' % ct)
            try:
                if codecs.lookup(ce).name != codecs.lookup(oenc).name and not (codecs.lookup(ce).name.replace('-sig','') == codecs.lookup(oenc).name):
                    if not ({codecs.lookup(ce).name, codecs.lookup(oenc).name} <= {'utf-16', 'utf-16-le'} or {codecs.lookup(ce).name, codecs.lookup(oenc).name} <= {'utf-32', 'utf-32-le'}):
                        problems.append('encoding=%s want %s' % (ce, oenc))
            except LookupError: problems.append('encoding-unknown=%s' % ce)
        except Exception as e:
            problems = ['EXC %s' % type(e).__name__]
        if problems:
            key = tuple(problems)
            stats['BAD ' + ','.join(problems)] += 1
            if shown[key] < 2:
                shown[key] += 1; print(kind, cell, problems, repr(raw[:70]))
        else: stats['ok'] += 1
print(dict(stats))
import shutil; shutil.rmtree(tmpd)
