"""Throw-away: METAL use-macro vs hand-inlined equivalent, static content + simple probes."""
import random, sys
sys.path.insert(0, '/repo/src')
from chameleon import PageTemplate
rng = random.Random(int(sys.argv[1]))
SLOTS = ['s1', 's2', 's3']
def gen_macro(name, depth, others):
    """returns (source_of_define, fn(fillers) -> inlined source). Body: text, slots (maybe repeated name), maybe nested use of another macro."""
    items = []
    for _ in range(rng.randint(1, 4)):
        k = rng.random()
        if k < 0.5:
            sl = rng.choice(SLOTS); items.append(('slot', sl, '%s-default-%s' % (name, sl)))
        elif k < 0.7 and others:
            o = rng.choice(others)
            fills = {sl: '%s-fills-%s-of-%s' % (name, sl, o[0]) for sl in SLOTS if rng.random() < 0.3}
            items.append(('use', o, fills))
        else:
            items.append(('text', '%s-text%d' % (name, len(items))))
    src = '<div metal:define-macro="%s">M:%s[' % (name, name)
    for it in items:
        if it[0] == 'slot': src += '<i metal:define-slot="%s">%s</i>' % (it[1], it[2])
        elif it[0] == 'text': src += it[1]
        else:
            o, fills = it[1], it[2]
            src += '<u metal:use-macro="macros[\'%s\']">' % o[0] + ''.join('<b metal:fill-slot="%s">%s</b>' % kv for kv in fills.items()) + '</u>'
    src += '](${macroname})</div>'
    def inline(fillers, callname):
        out = '<div>M:%s[' % name
        for it in items:
            if it[0] == 'slot':
                out += ('<b>%s</b>' % fillers[it[1]]) if it[1] in fillers else '<i>%s</i>' % it[2]
            elif it[0] == 'text': out += it[1]
            else:
                o, fills = it[1], it[2]
                out += o[2](fills, "macros['%s']" % o[0])
        out += '](%s)</div>' % callname.replace("'", "&#39;") if False else '](%s)</div>' % callname
        return out
    return (name, src, inline)
bad = 0; n = 0; shown = 0
for case in range(int(sys.argv[2])):
    macros = []
    for i in range(rng.randint(1, 3)):
        macros.append(gen_macro('m%d' % i, 0, macros[:]))
    lib = '<lib>' + ''.join(m[1] for m in macros) + '</lib>'
    # caller: 1-3 consecutive uses, each filling a random subset incl unknown names
    caller = '<x>'; expect = '<x>'
    for u in range(rng.randint(1, 3)):
        m = rng.choice(macros)
        fills = {sl: 'caller%d-fills-%s' % (u, sl) for sl in SLOTS + ['unknown'] if rng.random() < 0.4}
        caller += '<u metal:use-macro="lib.macros[\'%s\']">' % m[0] + ''.join('<b metal:fill-slot="%s">%s</b>' % kv for kv in fills.items()) + '</u>|'
        expect += m[2](fills, "lib.macros['%s']" % m[0]) + '|'
    caller += '</x>'; expect += '</x>'
    n += 1
    try:
        libt = PageTemplate(lib)
        got = PageTemplate(caller)(lib=libt)
    except Exception as e:
        got = 'ERR %s %s' % (type(e).__name__, str(e).split('\n')[0])
    if got != expect:
        bad += 1
        if shown < 6:
            shown += 1; print('--- MISMATCH\n LIB', lib, '\n CALLER', caller, '\n expect', expect, '\n got   ', got)
print('cases', n, 'bad', bad)
