import sys, threading, time, os, random
sys.path.insert(0, '/repo/src')
sys.setswitchinterval(1e-6)
from chameleon import PageTemplate, PageTemplateFile, PageTemplateLoader
d = '/tmp/exp/ft'
SRC = '''<div tal:define="global g x; l x"><p tal:repeat="i xs" tal:attributes="k i">${i}-${repeat.i.index}-${g}-${l}<b metal:use-macro="template.macros['m']"><i metal:fill-slot="s">${i}${x}</i></b></p><q metal:define-macro="m">[<u metal:define-slot="s">d</u>${x}]</q><?python z = x * 2 ?>${z}<p i18n:translate="">hello <b i18n:name="n">${x}</b></p><span tal:on-error="string:err${x}">${1/0}</span></div>'''
open(d + '/a.pt', 'w').write(SRC)
open(d + '/inc.pt', 'w').write('<x tal:define="t load: a.pt"><y metal:use-macro="t.macros[\'m\']"/>${x}</x>')
def solo(tpl, x): return tpl(x=x, xs=list(range(x % 4 + 1)))
ref_t = PageTemplate(SRC)
expected = {x: solo(ref_t, x) for x in range(8)}
ref_inc = PageTemplateFile(d + '/inc.pt')
expected_inc = {x: ref_inc(x=x) for x in range(8)}
errors = []; counts = [0]
for rnd in range(int(sys.argv[1])):
    shared = PageTemplate(SRC)
    lazy = PageTemplateFile(d + '/a.pt')          # not yet cooked: first call races
    auto = PageTemplateFile(d + '/a.pt', auto_reload=True)
    loader = PageTemplateLoader(d)
    barrier = threading.Barrier(8)
    def work(n):
        barrier.wait()
        rng = random.Random(n + rnd * 100)
        for j in range(20):
            x = rng.randrange(8)
            which = rng.choice(['shared', 'lazy', 'auto', 'loader', 'inc'])
            try:
                if which == 'shared': got, want = solo(shared, x), expected[x]
                elif which == 'lazy': got, want = solo(lazy, x), expected[x]
                elif which == 'auto': got, want = solo(auto, x), expected[x]
                elif which == 'loader': got, want = solo(loader.load('a.pt'), x), expected[x]
                else: got, want = loader.load('inc.pt')(x=x), expected_inc[x]
                counts[0] += 1
                if got != want: errors.append((which, x, got[:80], want[:80]))
            except Exception as e:
                errors.append((which, x, 'EXC %s %s' % (type(e).__name__, str(e)[:100])))
    ths = [threading.Thread(target=work, args=(n,)) for n in range(8)]
    for t in ths: t.start()
    for t in ths: t.join()
print('renders', counts[0], 'errors', len(errors)); print(errors[:5])
