"""C16 — file templates follow their files; the loader resolves names predictably.

History + executable model.  A history is a random sequence of operations over
1..3 files in 1..3 search directories:
    write version k of a file (body text, macro set, XML or HTML; mtime forward or backward),
    touch (mtime only), render, list macros, look a macro up, read content_type,
    render a template that includes another through load:, loader.load(name).
Model: file -> (version, mtime); template instance -> (compiled version, mtime seen)
with "recompile iff first use, or auto_reload and mtime differs"; loader registry
(name -> first match along the search path at the time of the first load; same
instance afterwards); load: looks next to the including file first.
Monitors: output / macros.names / macros[m] / content_type equal the model's;
M-cook (wrapper on the real BaseTemplate.cook) counts compilations per file and must
equal the model's count (no recompilation while the file is unchanged).
A second layer checks name resolution alone over random directory layouts.
"""
import os
import shutil
import tempfile

from vlib import monitors

PROP = 'C16'
TITLE = 'file templates follow files; loader resolution'
LEVEL = 'exploration'
SHARDS = {'quick': 16, 'thorough': 16}
FLOOR = {'quick': 400, 'thorough': 4000}
REQUIRED_MONITORS = {'history-steps-compared': 3000, 'M-cook': 500, 'loads-compared': 1500, 'symlink-steps': 300}
RULE = ('histories of 4..8 (quick) / 6..14 (thorough) operations from {write(forward/backward mtime), touch, render, '
        'names, macro lookup, content_type, render-including-template, loader.load} over main.pt / lib.pt in 1..3 search '
        'directories, auto_reload on/off, through PageTemplateFile directly or through a PageTemplateLoader; non-trivial '
        'iff the history contains a write followed by a use of the same file; distinct by operation-kind sequence + '
        'configuration. Loader layer: random layouts of 15 candidate names (incl. a dot in a directory part, leading-dot names) over 1..3 directories x default_extension in '
        '{none, .pt, pt, .txt} x 14 spellings of the requested name (dot-less, dotted, sub-directory, absolute, padded '
        'with blanks, missing). Not generated: rewriting a file without changing its mtime (undetectable by design).')
ASSUMPTIONS = ['file mtimes are set explicitly with os.utime (whole seconds), so the check does not depend on the clock']


class Broken(Exception):
    """model: the current file content does not compile"""


def body(v, macros, xml, include, broken=False):
    if broken:
        return '<r>V%d<b tal:content="1 +">x</b></r>' % v
    s = ('<?xml version="1.0"?>' if xml else '') + '<r>V%d' % v
    for m in macros:
        s += '<i metal:define-macro="%s">M-%s-V%d</i>' % (m, m, v)
    if include == 'macro':
        # the whole template used as a macro (PageTemplate.include)
        s += '<u metal:use-macro="load: lib.pt"/>'
    elif include:
        s += '<u tal:define="t load: lib.pt" tal:replace="structure t()"/>'
    return s + '<input checked="${1}"/></r>'


def expected_render(v, macros, xml, include, inc_text):
    s = ('<?xml version="1.0"?>' if xml else '') + '<r>V%d' % v
    for m in macros:
        s += '<i>M-%s-V%d</i>' % (m, v)
    if include:
        s += inc_text
    return s + ('<input checked="1"/>' if xml else '<input checked="checked"/>') + '</r>'


class FileModel:
    def __init__(self):
        self.files = {}      # path -> [content tuple, mtime]


class TplModel:
    def __init__(self, path, auto):
        self.path, self.auto = path, auto
        self.compiled = None
        self.seen_mtime = None
        self.cooks = 0

    def use(self, fm):
        content, mtime = fm.files[self.path]
        if self.compiled is None or (self.auto and mtime != self.seen_mtime):
            self.cooks += 1
            if len(content) > 4 and content[4]:
                # a version that does not compile: nothing is served (least of all an older version), and
                # every further use tries again
                self.compiled = None
                raise Broken()
            self.compiled = content
            self.seen_mtime = mtime
        return self.compiled


def run_history(ctx, rng, root, cooks):
    from chameleon import PageTemplateFile, PageTemplateLoader
    ndirs = rng.randint(1, 3)
    style = rng.choice(['d%d', 'd%d', 'd%d', '2024-05-01T10:30:0%d', 'with blank %d', 'chameleon:tests%d'])
    dirs = [os.path.join(root, style % i) for i in range(ndirs)]
    for d in dirs:
        os.makedirs(d, exist_ok=True)
    auto = rng.random() < .7
    via_loader = rng.random() < .5
    include = rng.choice([False, False, 'call', 'macro'])
    fm = FileModel()
    ver = [0]
    clock = [1000]
    main = os.path.join(dirs[0], 'main.pt')
    lib_dirs = rng.sample(dirs, rng.randint(1, ndirs)) if include else []
    libs = [os.path.join(d, 'lib.pt') for d in lib_dirs]

    def write(path, is_lib, direction, broken=False):
        ver[0] += 1
        if direction == 'fwd':
            clock[0] += rng.choice([1, 3, 1000])
        else:
            clock[0] -= rng.choice([1, 7])
        macros = tuple(sorted(rng.sample(['m1', 'm2', 'm-3'], rng.randint(0, 2))))
        xml = rng.random() < .3
        content = (ver[0], macros, xml, include if not is_lib else False, broken)
        with open(path, 'w') as f:
            f.write(body(*content))
        os.utime(path, (clock[0], clock[0]))
        fm.files[path] = [content, clock[0]]

    write(main, False, 'fwd')
    for lp in libs:
        write(lp, True, 'fwd')
    if via_loader:
        loader = PageTemplateLoader(list(dirs), auto_reload=auto)
        try:
            t = loader.load('main.pt')
        except Exception as e:
            ctx.violation('history-load-fails', 'loading main.pt along the search path %r: %s %s' % (dirs, type(e).__name__, str(e)[:100]),
                          {'kind': 'history', 'hist': 'load of main.pt along %r' % (dirs,)})
            return
    else:
        t = PageTemplateFile(main, auto_reload=auto, search_path=list(dirs))
    tm = TplModel(main, auto)
    # the included template: next to main first, then the search path; resolved at first load, then cached
    lib_model = {'tm': None}

    def lib_resolve():
        if lib_model['tm'] is None:
            for d in [dirs[0]] + dirs:
                p = os.path.join(d, 'lib.pt')
                if p in fm.files:
                    lib_model['tm'] = TplModel(p, auto)
                    break
        return lib_model['tm']

    hist = []
    kinds = []
    nsteps = rng.randint(4, 8) if ctx.quick else rng.randint(6, 14)
    wrote = set()
    nontrivial = False
    for step in range(nsteps):
        op = rng.choice(['write_fwd', 'write_fwd', 'write_back', 'touch', 'render', 'render', 'names', 'macro', 'ctype',
                         'write_lib'] if include else
                        ['write_fwd', 'write_fwd', 'write_back', 'touch', 'render', 'render', 'names', 'macro', 'ctype',
                         'write_broken', 'render'])
        kinds.append(op)
        if op == 'write_broken':
            write(main, False, 'fwd', broken=True)
            wrote.add(main)
            hist.append((op, fm.files[main]))
            continue
        if op in ('write_fwd', 'write_back'):
            write(main, False, 'fwd' if op == 'write_fwd' else 'back')
            wrote.add(main)
            hist.append((op, fm.files[main]))
            continue
        if op == 'write_lib':
            lp = rng.choice(libs)
            write(lp, True, 'fwd')
            wrote.add(lp)
            hist.append((op, os.path.relpath(lp, root), fm.files[lp]))
            continue
        if op == 'touch':
            clock[0] += 5
            os.utime(main, (clock[0], clock[0]))
            fm.files[main][1] = clock[0]
            hist.append((op, clock[0]))
            continue
        if main in wrote:
            nontrivial = True
        try:
            v, macros, xml, inc = tm.use(fm)[:4]
            broken_now = False
        except Broken:
            broken_now = True
        if broken_now:
            # every kind of use has to fail with the compile error, again and again
            try:
                if op == 'render':
                    got = t()
                elif op == 'names':
                    got = sorted(t.macros.names)
                elif op == 'ctype':
                    t.cook_check()
                    got = t.content_type
                else:
                    got = t.macros['m1']
            except Exception as e:
                got = 'RAISED %s' % type(e).__name__
            hist.append((op, got))
            ctx.mon('history-steps-compared')
            ctx.mon('uses-of-a-version-that-does-not-compile')
            if got != 'RAISED ExpressionError':
                ctx.violation('history-broken-version-served', 'auto_reload=%s via_loader=%s: step %d %s: the current file content does not '
                              'compile, yet the use gave %r; history %r' % (auto, via_loader, step, op, got, hist), {'kind': 'history', 'hist': repr(hist)})
                break
            continue
        want = 'NO-EXCEPTION'
        try:
            if op == 'render':
                inc_text = ''
                if inc:
                    lm = lib_resolve()
                    lv, lmac, lxml, _ = lm.use(fm)[:4]
                    inc_text = expected_render(lv, lmac, lxml, False, '')
                got = t()
                want = expected_render(v, macros, xml, inc, inc_text)
            elif op == 'names':
                got = sorted(t.macros.names)
                want = sorted(m.replace('-', '_') for m in macros)
            elif op == 'ctype':
                t.cook_check()
                got = t.content_type
                want = 'text/xml' if xml else 'text/html'
            else:
                m = rng.choice(['m1', 'm2', 'm-3'])
                try:
                    t.macros[m]
                    got = 'present'
                except KeyError:
                    got = 'absent'
                want = 'present' if m in macros else 'absent'
        except Exception as e:
            got = 'RAISED %s %s' % (type(e).__name__, str(e).split('\n')[0][:80])
        hist.append((op, got))
        ctx.mon('history-steps-compared')
        if got != want:
            key = 'history-%s-differs' % op
            if op in ('names', 'macro') and isinstance(got, (list, str)):
                key = 'stale-macros-after-reload' if (op == 'names' and set(want) < set(got)) or (op == 'macro' and got == 'present') else key
            ctx.violation(key, 'auto_reload=%s via_loader=%s: step %d %s: model %r, real %r; history %r' % (
                auto, via_loader, step, op, want, got, hist), {'kind': 'history', 'hist': repr(hist)})
            break
    # M-cook: compilations per file
    ctx.mon('M-cook')
    real_main = cooks.get(main, 0)
    if real_main != tm.cooks:
        ctx.violation('cook-count', 'main.pt compiled %d times, model %d (auto_reload=%s); history %r' % (
            real_main, tm.cooks, auto, hist), {'kind': 'history', 'hist': repr(hist)})
    if lib_model['tm'] is not None:
        real_lib = cooks.get(lib_model['tm'].path, 0)
        if real_lib != lib_model['tm'].cooks:
            ctx.violation('cook-count-included', 'lib.pt compiled %d times, model %d; history %r' % (
                real_lib, lib_model['tm'].cooks, hist), {'kind': 'history', 'hist': repr(hist)})
    ctx.case(key=(tuple(kinds), auto, via_loader, include, ndirs), nontrivial=nontrivial,
             sample={'auto_reload': auto, 'via_loader': via_loader, 'history': repr(hist)[:500]} if rng.random() < .01 else None)


def run_loader_layout(ctx, rng, root):
    from chameleon import PageTemplateLoader
    # directory names as deployments have them: release time stamps (with colons), blanks, dots, a leading 'chameleon:'
    # (an absolute directory is never a package spec)
    style = rng.choice(['d%d', 'd%d', '2024-05-01T10:30:0%d', 'with blank %d', 'chameleon:tests%d', 'v1.%d', 'a#b%%%d'])
    dirs = [os.path.join(root, style % i) for i in range(rng.randint(1, 3))]
    ctx.cover('search-directory-naming', style)
    files = {}
    names = ['a.pt', 'b.pt', 'c', 'c.pt', 'x.y.pt', 'sub/a.pt', 'a.txt', 'b', 'v1.0/page', 'v1.0/page.pt', 'v1.0/page.txt',
             '.frag', '.frag.pt', 'sub/c', 'sub/c.pt']
    for d in dirs:
        os.makedirs(os.path.join(d, 'sub'), exist_ok=True)
        os.makedirs(os.path.join(d, 'v1.0'), exist_ok=True)
        for nm in names:
            if rng.random() < .45:
                p = os.path.join(d, nm)
                with open(p, 'w') as f:
                    f.write('F:%s:%s<i tal:omit-tag="">!</i>' % (os.path.basename(d), nm))
                files[p] = True
    ext = rng.choice([None, '.pt', 'pt', '.txt'])
    L = PageTemplateLoader(list(dirs), default_extension=ext) if ext else PageTemplateLoader(list(dirs))

    def resolve(spec):
        s = spec.strip()
        if ext and '.' not in s:
            s += '.' + ext.lstrip('.')
        if os.path.isabs(s):
            return s if os.path.exists(s) else 'OPENFAIL'
        for d in dirs:
            p = os.path.join(d, s)
            if os.path.exists(p):
                return p
        return None
    seen = {}
    for q in range(8):
        if rng.random() < .7:
            spec = rng.choice(['a.pt', 'a', 'b', 'b.pt', 'c', 'c.pt', 'x.y.pt', 'x.y', 'sub/a.pt', 'sub/a', 'a.txt',
                               ' a.pt ', 'nope', 'nope.pt', 'v1.0/page', 'v1.0/page.pt', '.frag', '.frag.pt', 'sub/c', 'sub/c.pt'])
        else:
            spec = rng.choice(list(files) or [os.path.join(dirs[0], 'zz.pt')])
        want = resolve(spec)
        out = None
        # the format asked for is part of what is loaded: the same name may be loaded as markup and as text
        fmt = rng.choice([None, None, 'xml', 'text'])
        try:
            t = L.load(spec, fmt) if fmt else L.load(spec)
            got = t.filename
            try:
                out = t()
            except OSError:
                out = 'OPENFAIL'
                got = 'OPENFAIL' if want == 'OPENFAIL' else got
        except ValueError:
            got = None
            t = None
        except Exception as e:
            got = 'RAISED %s %s' % (type(e).__name__, str(e)[:80])
            t = None
        if want in (None, 'OPENFAIL'):
            want_out = None
        elif fmt == 'text':
            want_out = open(want).read().encode('utf-8')
        else:
            want_out = open(want).read().replace('<i tal:omit-tag="">!</i>', '!')
        ok = (got == want) and (want in (None, 'OPENFAIL') or out == want_out)
        why = 'resolved to %r, expected %r (format %r: output %r, expected %r)' % (got, want, fmt, out, want_out)
        skey = (spec, fmt == 'text')
        if ok and skey in seen and want is not None and seen[skey] is not t:
            ok = False
            why = 'a second load of the same name in the same format returned a different instance'
        if want is not None and got == want:
            seen[skey] = t
        ctx.mon('loads-compared')
        ctx.case(key=('load', ext, spec if not os.path.isabs(spec) else 'ABS', want is None, len(dirs), fmt), nontrivial=True)
        if not ok:
            ctx.violation('loader-resolution', 'default_extension=%r dirs=%d spec=%r format=%r: %s' % (ext, len(dirs), spec, fmt, why),
                          {'kind': 'loader', 'spec': spec, 'ext': ext})
    # load: inside a file template looks next to that template first
    d_other = dirs[-1]
    inc = os.path.join(d_other, 'inc.pt')
    with open(inc, 'w') as f:
        f.write('<i tal:define="t load: a.pt" tal:replace="structure t()"/>')
    want = None
    try:
        near = os.path.join(d_other, 'a.pt')
        wantp = near if os.path.exists(near) else resolve('a.pt')
        want = open(wantp).read().replace('<i tal:omit-tag="">!</i>', '!') if wantp else 'VALUEERR'
        got = L.load('inc.pt')()
    except Exception as e:
        got = 'VALUEERR' if isinstance(e, ValueError) else 'RAISED %s' % type(e).__name__
    ctx.mon('loads-compared')
    ctx.case(key=('load-expr', os.path.exists(os.path.join(d_other, 'a.pt')), len(dirs)), nontrivial=True)
    if got != want:
        ctx.violation('load-expression-resolution', 'load: a.pt from %s: got %r, expected %r' % (inc, got, want),
                      {'kind': 'loadexpr'})



def layer_symlinks(ctx, n):
    """Templates reached through symbolic links (the `current -> releases/N` deployment layout, shared templates linked
    into a site directory): the template follows the file its PATH names now, and load: looks next to the path it was
    given - not next to wherever a link pointed when the template object was made."""
    from chameleon import PageTemplateFile, PageTemplateLoader
    rng = ctx.rng
    for case in range(n):
        root = tempfile.mkdtemp(prefix='c16s_')
        try:
            shape = rng.choice(['directory-link-repointed', 'file-link-load-next-to-path', 'directory-link-via-loader'])
            if shape.startswith('directory-link'):
                nrel = rng.randint(2, 4)
                for k in range(nrel):
                    os.makedirs(os.path.join(root, 'releases', 'r%d' % k))
                    with open(os.path.join(root, 'releases', 'r%d' % k, 'page.pt'), 'w') as f:
                        f.write('<p>release %d <i metal:define-macro="m">macro-%d</i></p>' % (k, k))
                    mt = 1_000_000 + rng.choice([0, 0, 5 * k, -5 * k])
                    os.utime(os.path.join(root, 'releases', 'r%d' % k, 'page.pt'), (mt, mt))
                link = os.path.join(root, 'current')
                os.symlink(os.path.join('releases', 'r0'), link)
                if shape == 'directory-link-repointed':
                    t = PageTemplateFile(os.path.join(link, 'page.pt'), auto_reload=True)
                else:
                    t = PageTemplateLoader([link], auto_reload=True).load('page.pt')
                hist = []
                for step in range(rng.randint(2, 5)):
                    k = rng.randrange(nrel)
                    os.remove(link)
                    os.symlink(os.path.join('releases', 'r%d' % k), link)
                    hist.append('current -> r%d' % k)
                    want = '<p>release %d <i>macro-%d</i></p>' % (k, k)
                    try:
                        got = t()
                    except Exception as e:
                        got = 'RAISED %s' % type(e).__name__
                    ctx.mon('symlink-steps')
                    # equal modification times in two releases: the statement only promises the content of the latest
                    # modification - a re-pointed link with an unchanged mtime is not a modification the template can see
                    same_mtime_as_before = False
                    if got != want:
                        prev = [h for h in hist[:-1]]
                        cur_mt = os.stat(os.path.join(link, 'page.pt')).st_mtime
                        same_mtime_as_before = any(os.stat(os.path.join(root, 'releases', h.split('-> ')[1], 'page.pt')).st_mtime == cur_mt
                                                   for h in (['current -> r0'] + prev)) and got.startswith('<p>release')
                    if got != want and not same_mtime_as_before:
                        ctx.violation('template-does-not-follow-the-file-its-path-names', '%s: history %r: rendered %r, the file at the path now holds %r' % (
                            shape, hist, got, want), {'kind': 'symlink', 'shape': shape})
                        break
                ctx.case(key=('symlink', shape, tuple(hist)), nontrivial=len(hist) > 1)
            else:
                os.makedirs(os.path.join(root, 'shared'))
                os.makedirs(os.path.join(root, 'site'))
                with open(os.path.join(root, 'shared', 'page.pt'), 'w') as f:
                    f.write('<p tal:define="part load: part.pt">${structure: part()}</p>')
                with open(os.path.join(root, 'shared', 'part.pt'), 'w') as f:
                    f.write('<i>part of SHARED</i>')
                with open(os.path.join(root, 'site', 'part.pt'), 'w') as f:
                    f.write('<i>part of SITE</i>')
                os.symlink(os.path.join('..', 'shared', 'page.pt'), os.path.join(root, 'site', 'page.pt'))
                via_loader = rng.random() < .5
                try:
                    t = PageTemplateLoader([os.path.join(root, 'site')]).load('page.pt') if via_loader else PageTemplateFile(os.path.join(root, 'site', 'page.pt'))
                    got = t()
                except Exception as e:
                    got = 'RAISED %s' % type(e).__name__
                ctx.mon('symlink-steps')
                ctx.case(key=('symlink', shape, via_loader), nontrivial=True)
                if got != '<p><i>part of SITE</i></p>':
                    ctx.violation('load-expression-not-next-to-the-template-path', 'site/page.pt is a link to ../shared/page.pt and says load: part.pt: rendered %r, '
                                  'the file next to the template path is site/part.pt' % got, {'kind': 'symlink', 'shape': shape})
        finally:
            shutil.rmtree(root, ignore_errors=True)


def layer_package_specs(ctx):
    """Package-relative specs ('package:path'), as a name and as a search-path entry, resolve to the package's file."""
    from chameleon import PageTemplateFile, PageTemplateLoader
    import chameleon
    base = os.path.join(os.path.dirname(chameleon.__file__), 'tests', 'inputs')
    names = ['hello_world.pt', '001-variable-scope.pt', 'greeting.pt', '003-content.pt', '017-omit-tag.pt', '009-literals.pt',
             '057-order.pt']
    for nm in names:
        try:
            direct = PageTemplateFile(os.path.join(base, nm))(name='N', tagline='T')
        except Exception:
            continue          # this sample needs other variables: not usable here
        variants = {
            'spec': lambda: PageTemplateLoader([]).load('chameleon:tests/inputs/' + nm),
            'search-path': lambda: PageTemplateLoader(['chameleon:tests/inputs']).load(nm),
            'search-path-second': lambda: PageTemplateLoader(['/nonexistent-dir-xyz', 'chameleon:tests/inputs']).load(nm),
            'default-extension': lambda: PageTemplateLoader(['chameleon:tests/inputs'], default_extension='.pt').load(nm[:-3]),
        }
        for vname, mk in variants.items():
            try:
                t = mk()
                got = t(name='N', tagline='T')
                pkg = t.package_name
            except Exception as e:
                got, pkg = 'RAISED %s %s' % (type(e).__name__, str(e)[:80]), None
            ctx.mon('loads-compared')
            ctx.case(key=('pkg', vname, nm), nontrivial=True)
            if got != direct or pkg != 'chameleon':
                ctx.violation('package-relative-resolution', '%s of %s: rendered %r (package_name %r), the file itself renders %r' % (
                    vname, nm, got[:120], pkg, direct[:120]), {'kind': 'pkg', 'name': nm, 'variant': vname})
    # mixed search paths: package-relative entries (a package on disk, and one imported from a zip archive) before / after
    # plain directories; the first match along the path is loaded and renders, whatever kind the other entries are
    import sys
    import zipfile
    mixroot = tempfile.mkdtemp(prefix='c16p_')
    try:
        pkgdir = os.path.join(mixroot, 'lib', 'vq_diskpkg_%d' % os.getpid())
        os.makedirs(os.path.join(pkgdir, 'templates'))
        open(os.path.join(pkgdir, '__init__.py'), 'w').close()
        with open(os.path.join(pkgdir, 'templates', 'inpkg.pt'), 'w') as f:
            f.write('<p>disk package ${v}</p>')
        zname = 'vq_zippkg_%d' % os.getpid()
        zpath = os.path.join(mixroot, 'bundle.zip')
        with zipfile.ZipFile(zpath, 'w') as z:
            z.writestr(zname + '/__init__.py', '')
            z.writestr(zname + '/templates/inzip.pt', '<p>zip package ${v}</p>')
        sitedir = os.path.join(mixroot, 'site')
        os.makedirs(sitedir)
        with open(os.path.join(sitedir, 'page.pt'), 'w') as f:
            f.write('<p>site directory ${v}</p>')
        sys.path[:0] = [os.path.join(mixroot, 'lib'), zpath]
        try:
            entries = {'disk': os.path.basename(pkgdir) + ':templates', 'zip': zname + ':templates', 'dir': sitedir}
            wants = {'page.pt': '<p>site directory 1</p>', 'inpkg.pt': '<p>disk package 1</p>', 'inzip.pt': '<p>zip package 1</p>'}
            import itertools
            for order in itertools.permutations(['disk', 'zip', 'dir']):
                for nm, want in wants.items():
                    try:
                        t = PageTemplateLoader([entries[k] for k in order]).load(nm)
                        got = t(v=1)
                        again = t(v=1)
                    except Exception as e:
                        got = again = 'RAISED %s %s' % (type(e).__name__, str(e)[:100])
                    ctx.mon('loads-compared')
                    ctx.case(key=('pkg-mixed', order, nm), nontrivial=True)
                    if got != want or again != want:
                        ctx.violation('package-relative-resolution', 'search path %r (a package on disk, a package in a zip archive, a directory), name %r: '
                                      'rendered %r, expected %r' % (order, nm, got, want), {'kind': 'pkg', 'name': nm, 'variant': 'mixed'})
        finally:
            del sys.path[:2]
    finally:
        shutil.rmtree(mixroot, ignore_errors=True)
    try:
        PageTemplateLoader(['chameleon:tests/inputs']).load('no-such-template.pt')
        ctx.violation('package-relative-resolution', 'a missing name in a package search path was loaded', {'kind': 'pkg'})
    except ValueError:
        pass
    except Exception as e:
        ctx.violation('package-relative-resolution', 'a missing name in a package search path raised %s' % type(e).__name__, {'kind': 'pkg'})


def run(ctx):
    monitors.install(ctx, tokalg=False)
    import chameleon.template as T
    cooks = {}
    orig_cook = T.BaseTemplate.cook

    def cook(self, body):
        fn = str(getattr(self, 'filename', ''))
        cooks[fn] = cooks.get(fn, 0) + 1
        return orig_cook(self, body)
    T.BaseTemplate.cook = cook
    rng = ctx.rng
    n = 300 if ctx.quick else 1500
    for i in range(n):
        root = tempfile.mkdtemp(prefix='c16_')
        try:
            cooks.clear()
            run_history(ctx, rng, root, cooks)
        finally:
            shutil.rmtree(root, ignore_errors=True)
    if ctx.shard == 0:
        layer_package_specs(ctx)
    layer_symlinks(ctx, 12 if ctx.quick else 200)
    for i in range(100 if ctx.quick else 500):
        root = tempfile.mkdtemp(prefix='c16l_')
        try:
            run_loader_layout(ctx, rng, root)
        finally:
            shutil.rmtree(root, ignore_errors=True)


def replay(data):
    return True, 'history (re-run ./vcheck C16 with the same seed to reproduce): %s' % (data.get('hist') or data)
