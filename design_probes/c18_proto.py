"""Throw-away: prefix re-spellings + leak scan."""
import random, sys, re
sys.path.insert(0, '/repo/src')
from chameleon import PageTemplate
from html.parser import HTMLParser
rng = random.Random(int(sys.argv[1]))
NS = {'tal': 'http://xml.zope.org/namespaces/tal', 'metal': 'http://xml.zope.org/namespaces/metal', 'i18n': 'http://xml.zope.org/namespaces/i18n', 'meta': 'http://xml.zope.org/namespaces/meta'}
class El:
    def __init__(s, tag, stmts, foreign, kids): s.tag, s.stmts, s.foreign, s.kids = tag, stmts, foreign, kids
STM = [('tal', 'content', 'x'), ('tal', 'replace', 'x'), ('tal', 'condition', 'c'), ('tal', 'define', 'q 1'), ('tal', 'omit-tag', ''), ('tal', 'attributes', 'k x'),
       ('tal', 'repeat', 'i (1,2)'), ('i18n', 'translate', ''), ('i18n', 'domain', 'd'), ('meta', 'interpolation', 'true'), ('tal', 'on-error', 'string:e'), ('tal', 'switch', 'x'), ('i18n', 'attributes', 'title'), ('tal', 'comment', 'blah')]
FOREIGN = [('class', 'k'), ('data-foo', '2'), ('f:a', '3'), ('title', 'T'), ('xml:lang', 'en'), ('id', 'i')]
def gen(depth):
    stmts = []
    for s in rng.sample(STM, rng.randint(0, 3)):
        stmts.append(s)
    names = [s[1] for s in stmts]
    if 'content' in names and 'replace' in names: stmts = [s for s in stmts if s[1] != 'replace']
    if 'content' in names and 'translate' in names: stmts = [s for s in stmts if s[1] != 'translate']
    if 'replace' in [s[1] for s in stmts] and 'translate' in names: stmts = [s for s in stmts if s[1] != 'translate']
    foreign = rng.sample(FOREIGN, rng.randint(0, 3))
    kids = []
    for _ in range(rng.randint(0, 2)):
        kids.append(gen(depth + 1) if depth < 2 and rng.random() < .6 else rng.choice(['t', ' ${x} ', 'u']))
    return El(rng.choice(['p', 'div', 'b']), stmts, foreign, kids)
def ser(n, mode, pfx, decl_here, root=False):
    """mode: 'default' | 'renamed' | 'data'"""
    if isinstance(n, str): return n
    attrs = []
    for ns, name, val in n.stmts:
        if mode == 'default': attrs.append('%s:%s="%s"' % (ns, name, val))
        elif mode == 'renamed': attrs.append('%s:%s="%s"' % (pfx[ns], name, val))
        else: attrs.append('data-%s-%s="%s"' % (ns, name, val))
    for k, v in n.foreign: attrs.append('%s="%s"' % (k, v))
    rng2.shuffle(attrs)
    if root:
        attrs.append('xmlns:f="http://foreign"')
        if mode == 'renamed':
            for ns, p in pfx.items(): attrs.append('xmlns:%s="%s"' % (p, NS[ns]))
    return '<%s%s>%s</%s>' % (n.tag, ''.join(' ' + a for a in attrs), ''.join(ser(k, mode, pfx, decl_here) for k in n.kids), n.tag)
class R(HTMLParser):
    def __init__(s): super().__init__(convert_charrefs=False); s.attrs = []; s.tags = []
    def handle_starttag(s, t, a): s.tags.append(t); s.attrs += [k for k, v in a]
    handle_startendtag = handle_starttag
def leaks(out, prefixes):
    r = R(); r.feed(out); r.close()
    bad = [a for a in r.attrs if any(a.startswith(p + ':') for p in prefixes) or a.startswith('xmlns:') and a[6:] in prefixes or any(a.startswith('data-%s-' % p) for p in ('tal', 'metal', 'i18n', 'meta'))]
    bad += [u for u in NS.values() if u in out]
    return bad
from collections import Counter
stats = Counter(); shown = 0
for case in range(int(sys.argv[2])):
    root = El('root', [], [], [gen(0) for _ in range(rng.randint(1, 2))])
    pfx = {'tal': 't', 'metal': 'mm', 'i18n': 'ii', 'meta': 'me'}
    outs = {}
    for mode in ('default', 'renamed', 'data'):
        rng2 = random.Random(case)   # same shuffles for all spellings
        src = ser(root, mode, pfx, None, root=True)
        try: outs[mode] = (src, PageTemplate(src, enable_data_attributes=(mode == 'data'))(x='X', c=1))
        except Exception as e: outs[mode] = (src, 'ERR %s %s' % (type(e).__name__, str(e).split('\n')[0][:70]))
    base = outs['default'][1]
    if base.startswith('ERR'): stats['base-err ' + base[:40]] += 1; continue
    for mode in ('default', 'renamed', 'data'):
        src, out = outs[mode]
        if out.startswith('ERR'):
            stats['%s ERR %s' % (mode, out[4:40])] += 1
            if shown < 10 and mode != 'data': shown += 1; print('ERR', mode, src, out)
            continue
        lk = leaks(out, ['tal', 'metal', 'i18n', 'meta', 't', 'mm', 'ii', 'me'])
        if lk:
            stats['%s LEAK' % mode] += 1
            if shown < 10: shown += 1; print('LEAK', mode, lk, '\n ', src, '\n ', out)
        elif out != base:
            stats['%s DIFF' % mode] += 1
            if shown < 10: shown += 1; print('DIFF', mode, '\n ', src, '\n ', out, '\n base', base)
        else: stats['%s ok' % mode] += 1
print(dict(stats))
