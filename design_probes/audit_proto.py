import sys, os
sys.path.insert(0, '/repo/src')
events = []
def hook(ev, args):
    if ev in ('open', 'os.rename', 'os.remove', 'tempfile.mkstemp', 'os.mkdir', 'os.replace', 'os.chmod', 'os.utime', 'compile', 'exec', 'import'):
        f = sys._getframe(1); inside = False
        while f is not None:
            if f.f_code.co_name in ('build', '_load', 'get') and f.f_code.co_filename.endswith('chameleon/loader.py'):
                inside = f.f_code.co_name; break
            f = f.f_back
        if inside:
            a = args[0] if args else None
            events.append((ev, inside, (str(a)[:60] if isinstance(a, (str, bytes)) else type(a).__name__), args[1:3] if ev == 'open' else ''))
sys.addaudithook(hook)
os.environ['CHAMELEON_CACHE'] = '/tmp/exp/cache2'
from chameleon import PageTemplate
t = PageTemplate('<p>${x}</p>')
print(t(x=1))
for e in events: print(e)
print(os.listdir('/tmp/exp/cache2'))
