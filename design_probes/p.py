import sys, traceback
from chameleon import PageTemplate, PageTextTemplate
def r(src, cls=PageTemplate, cfg={}, **kw):
    try:
        t = cls(src, **cfg)
    except Exception as e:
        return 'COMPILE-ERR %s: %s' % (type(e).__name__, str(e).split('\n')[0])
    try:
        return repr(t(**kw))
    except BaseException as e:
        return 'RENDER-ERR %s: %s' % (type(e).__mro__[:3], str(e).split('\n')[0])
if __name__ == '__main__':
    pass
