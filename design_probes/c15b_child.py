import sys, json
sys.path.insert(0, '/repo/src')
from chameleon import PageTemplate, PageTextTemplate
import chameleon.zpt.template as zt
SRC = '<?python q = 1 ?><input data-tal-content="1" foo="${1}" checked="${1}" tal:attributes="foo v" title="T"  class="a   b"/><!-- ${1} --><p>text  here</p><p tal:content="string:lit">x</p>'
class MyPT(PageTemplate): pass
def build(cfg):
    kw = dict(cfg)
    cls = {'PageTemplate': PageTemplate, 'MyPT': MyPT, 'PageTextTemplate': PageTextTemplate}[kw.pop('cls', 'PageTemplate')]
    body = kw.pop('body', SRC)
    kw.setdefault('strict', False)
    for k in ('boolean_attributes', 'implicit_i18n_attributes'):
        if k in kw: kw[k] = set(kw[k])
    try:
        t = cls(body, **kw)
        return t(v=1, translate=lambda m, **k: '[%s]' % m)
    except Exception as e:
        return 'ERR %s' % type(e).__name__
cfgs = json.loads(sys.argv[1])
print(json.dumps([build(c) for c in cfgs]))
