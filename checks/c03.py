"""C03 — unmarked markup is reproduced verbatim; tokenising loses nothing.

Monitors:
  (a) M-tok at the real chameleon.tokenize.iter_xml on
      - EVERY string over a 16-character markup alphabet up to a length bound
        (exhaustive), plus longer strings over the 10 pure-markup characters,
      - random markup-biased strings up to 200 characters,
      - every file under tests/inputs,
      - every document of layer (b);
  (b) identity rendering: statement-free documents from a markup grammar
      (well-formed and tag soup, randomised lexical detail) must render to
      themselves (CR/CRLF -> LF outside XML mode, the one documented change).
"""
import glob
import itertools
import os
import re

from vlib import env, monitors

PROP = 'C03'
TITLE = 'verbatim reproduction / lossless tokenising'
LEVEL = 'exploration'
SHARDS = {'quick': 16, 'thorough': 16}
FLOOR = {'quick': 100000, 'thorough': 1000000}
REQUIRED_MONITORS = {'M-tok': 1000, 'identity-compared': 200}
RULE = ('tokenizer layer: every string over the alphabet < > / = " \' ! - ? [ ] a : space newline & '
        'up to length 5 (quick) / 6 (thorough) and over the 10 markup-only characters up to length 6 / 7, '
        'each string distinct by construction, non-trivial iff it contains "<"; random layer: '
        'markup-biased strings <= 200 chars, distinct by content; identity layer: generated statement-free '
        'documents (well-formed + tag soup; unquoted/valueless attributes, whitespace in start and end tags, '
        'comments, CDATA, doctype, PIs, entities, non-ASCII, CR/CRLF), non-trivial iff the document compiles '
        'and has a tag with attributes or a non-text token, distinct by (token-kind sequence, lexical knobs). '
        'Excluded by construction: ${, $$, <!--!, <!--?, <?python, template namespaces.')
ASSUMPTIONS = ['CPython re/str semantics', 'documents that Chameleon rejects with ParseError / undefined '
               'namespace prefix are counted, not judged']
EXHAUSTIVE = {'quick': 'all strings over 16-char alphabet, length<=5; 10-char markup alphabet, length<=6',
              'thorough': 'all strings over 16-char alphabet, length<=6; 10-char markup alphabet, length<=7'}

ALPHA16 = '<>/="\'!-?[]a: \n&'
ALPHA10 = '<>/="\'!-?['


# ---------------------------------------------------------------------------
def layer_exhaustive(ctx, iter_xml, alphabet, maxlen, tag):
    n = len(alphabet)
    total = nontriv = 0
    # partition by the first two characters
    for L in range(1, maxlen + 1):
        plen = min(L, 2)
        for pi, prefix in enumerate(itertools.product(alphabet, repeat=plen)):
            if pi % ctx.nshards != ctx.shard:
                continue
            pre = ''.join(prefix)
            for rest in itertools.product(alphabet, repeat=L - plen):
                s = pre + ''.join(rest)
                list(iter_xml(s))      # the wrapped function checks the stream
                total += 1
                if '<' in s:
                    nontriv += 1
    ctx.bulk(total, nontriv)
    ctx.cover('layer', 'exhaustive-' + tag, total)


def random_markup_string(rng):
    pieces = ['<', '>', '/', '=', '"', "'", '!', '-', '--', '?', '[', ']', ']]>', 'a', ':', ' ', '\n', '&',
              '<!--', '-->', '<![CDATA[', '<?', '?>', '<!DOCTYPE', '</', '/>', 'é', 'x="1"', 'tal:x', '\r',
              '\t', '`', '$', '{', '}', '<a', '<a b', '<!', 'b=c', '日']
    return ''.join(rng.choice(pieces) for _ in range(rng.randint(1, 60)))[:200]


def layer_random(ctx, iter_xml, n):
    rng = ctx.rng
    for _ in range(n):
        s = random_markup_string(rng)
        toks = list(iter_xml(s))
        ctx.case(key=('rnd', s), nontrivial='<' in s)
    ctx.cover('layer', 'random-strings', n)


def layer_files(ctx, iter_xml):
    files = sorted(glob.glob(os.path.join(env.SRC, 'chameleon', 'tests', 'inputs', '*')))
    for i, fn in enumerate(files):
        if i % ctx.nshards != ctx.shard or not os.path.isfile(fn):
            continue
        try:
            s = open(fn, encoding='utf-8', newline='').read()
        except UnicodeDecodeError:
            s = open(fn, encoding='latin-1', newline='').read()
        list(iter_xml(s))
        ctx.case(key=('file', os.path.basename(fn)), nontrivial='<' in s)
    ctx.cover('layer', 'sample-files', 1)


# ---------------------------------------------------------------------------
# markup grammar for the identity layer
NAMES = ['p', 'div', 'B', 'x-y', 'é', 'a1', 'br', 'li', 'input', '_u', 'a.b', 'Td', 'ns:el']
ANAMES = ['a', '\u0663x', 'Class', 'data-x', 'é', 'on_click', 'a.b', '@click', 'xml:lang', 'b', 'c', 'D', 'data-a-b', 'n', 'r', 't',
          'nt', 'rn', 'tr', 'href', 'data-xml-lang', 'data-xmlns-q', 'data-ns-icon', 'data-tal', 'data--x']

# configurations under which a statement-free document still has to render to itself (none of them is documented
# to touch unmarked markup; trim_attribute_space is, and stays out)
IDENTITY_CONFIGS = [
    {}, {}, {'enable_data_attributes': True}, {'enable_comment_interpolation': False}, {'strict': False},
    {'implicit_i18n_translate': False, 'implicit_i18n_attributes': ['title']}, {'boolean_attributes': {'zz'}},
    {'restricted_namespace': False}, {'trim_attribute_space': False},
    {'enable_data_attributes': True, 'strict': False, 'enable_comment_interpolation': False},
]
WS = [' ', '  ', '\n', '\t', ' \n ', '\r\n', '\r']


class DocGen:
    def __init__(self, rng, probes=False):
        self.rng = rng
        self.knobs = set()
        self.probes = probes
        self.nprobes = 0

    def probe(self, where):
        """A ${...} probe (mixed layer only): everything around it is still unmarked."""
        if not self.probes or self.rng.random() > 0.5:
            return ''
        self.nprobes += 1
        self.knobs.add('probe-in-' + where)
        return '${p%d}' % self.rng.randint(0, 3)

    def sprinkle(self, pieces, where):
        out = ''
        for piece in pieces:
            out += piece
            if self.rng.random() < 0.3:
                out += self.probe(where)
        return out

    def ws(self):
        w = self.rng.choice(WS)
        if w != ' ':
            self.knobs.add('ws')
        return w

    def ows(self, knob):
        w = self.rng.choice(['', '', '', ' ', '\n', '\r\n', '\t'])
        if w:
            self.knobs.add(knob)
        return w

    def aval(self):
        chars = ['v', ' ', '&amp;', '&#38;', '&bogus;', '&', '<', '>', 'é', '$', '{', '}', '=', '/', '\n',
                 '\r\n', '\t', '`', '#', '$ {', '}}']
        if self.probes:
            chars = chars + ['%', '%s', '%%', '%(a)s', '$a', '\\']
        return self.sprinkle([self.rng.choice(chars) for _ in range(self.rng.randint(0, 5))], 'attribute')

    def attr(self, used):
        rng = self.rng
        n = rng.choice(ANAMES)
        if n.lower() in used:
            return ''
        used.add(n.lower())
        k = rng.random()
        if k < 0.45:
            v = self.aval().replace('"', '')
            if rng.random() < .2:
                v += "'"
                self.knobs.add('other-quote-inside')
            return self.ws() + n + self.ows('eq-space') + '=' + self.ows('eq-space') + '"' + v + '"'
        if k < 0.7:
            v = self.aval().replace("'", '')
            if rng.random() < .2:
                v += '"'
                self.knobs.add('other-quote-inside')
            self.knobs.add('single-quote')
            return self.ws() + n + self.ows('eq-space') + '=' + self.ows('eq-space') + "'" + v + "'"
        if k < 0.85:
            self.knobs.add('unquoted')
            return self.ws() + n + '=' + (''.join(rng.choice('abc123-_.:%#/') for _ in range(rng.randint(1, 4))).rstrip('/') or 'a')
        self.knobs.add('valueless')
        return self.ws() + n

    def text(self):
        chars = ['t', ' ', '\n', '\r\n', '\r', '&amp;', '&nbsp;', '&#160;', '&', 'é', '$', '{', '}', '"', "'",
                 '>', '=', '/', ']', '-', '?', '!', '\t', '日本', '$ {', '$a']
        if self.probes:
            chars = chars + ['%', '%s', '%%', '%(a)s', '$a', '\\']
        return self.sprinkle([self.rng.choice(chars) for _ in range(self.rng.randint(1, 8))], 'text')

    def comment(self):
        body = self.sprinkle([self.rng.choice(['c', ' ', '-', '<', '>', '&', '\n', 'é', '$', '{', '[', '<p>', '%', '$a', '%s'])
                              for _ in range(self.rng.randint(0, 6))], 'comment')
        if '--' in body or body.endswith('-') or body.startswith(('!', '?', '>', '->', '-')):
            body = ' c '
        return '<!--' + body + '-->'

    def cdata(self):
        body = self.sprinkle([self.rng.choice(['c', ' ', '<', '>', '&', ']', '\n', 'é', '{', '<p a="b">', '%', '$a', '$', '%s'])
                              for _ in range(self.rng.randint(0, 6))], 'cdata')
        if ']]' in body or body.endswith(']'):
            body = ' c<d '
        return '<![CDATA[' + body + ']]>'

    def pi(self):
        name = self.rng.choice(['php', 'foo', 'p', 'x', 'xml-stylesheet', 'xmlfoo',
                                # targets are XML names: one that merely begins with the code-block target is an ordinary instruction
                                'python-markdown', 'pythonx', 'python.doc', 'python:ext', 'Python', 'php-x', 'a.b', 'ns:pi', 'python_'])
        if name.lower().startswith('python'):
            self.knobs.add('pi-target-beginning-with-python')
        if name.startswith('xml'):
            self.knobs.add('pi-xml-prefixed-target')
        # an instruction ends at the first '?>', whatever quotes or apostrophes its data holds
        return '<?' + name + self.rng.choice(['', ' a="b" ', ' echo 1; ', '\n x ', ' href="s.css" type=\'t\'', " // don't ", ' echo "a', " it's 'q", ' x="1\' ',
                                              ' ? ', ' a?b ', ' "?" ', ' > ', ' < ', " title='what?' "]) + '?>'

    def element(self, depth):
        rng = self.rng
        n = rng.choice(NAMES)
        if ':' in n:
            n = 'p'          # undeclared prefixes are rejected; keep the grammar valid
        used = set()
        attrs = ''.join(self.attr(used) for _ in range(rng.randint(0, 3)))
        if rng.random() < .12:
            # a prefixed element whose prefix is bound on the element itself to somebody else's namespace - also a prefix the
            # template language uses by default: the binding on the tag is what counts, so this is unmarked markup
            pre = rng.choice(['ns', 'svg', 'tal', 'metal', 'i18n', 'meta', 'x'])
            n = pre + ':' + rng.choice(['el', 'document', 'block', 'note'])
            # (a URI that merely resembles a template namespace - padded with white space, other letter case, a trailing slash -
            # is somebody else's namespace, too)
            decl = self.ws() + 'xmlns:%s="%s"' % (pre, rng.choice(['urn:own', 'http://example.org/own', 'http://apache.org/cocoon/i18n/2.1',
                                                                    ' http://xml.zope.org/namespaces/tal', 'http://xml.zope.org/namespaces/tal\n   ',
                                                                    'http://xml.zope.org/namespaces/TAL', 'http://xml.zope.org/namespaces/metal/',
                                                                    '\thttp://xml.zope.org/namespaces/i18n ']))
            if rng.random() < .5:
                decl += self.ws() + '%s:%s="%s"' % (pre, rng.choice(['content', 'repeat', 'translate', 'define-macro', 'x']), rng.choice(['v', 'a b', '']))
            attrs = (decl + attrs) if rng.random() < .5 else (attrs + decl)
            self.knobs.add('prefix-bound-on-the-element-itself')
        k = rng.random()
        if k < 0.2:
            self.knobs.add('self-closing')
            return '<' + n + attrs + self.ows('start-tag-space') + '/>'
        if k < 0.3 and depth < 3:
            self.knobs.add('unclosed')
            return '<' + n + attrs + self.ows('start-tag-space') + '>' + self.content(depth + 1)
        return ('<' + n + attrs + self.ows('start-tag-space') + '>' + self.content(depth + 1) +
                '</' + n + self.ows('end-tag-space') + '>')

    def content(self, depth):
        out = ''
        for _ in range(self.rng.randint(0, 3 if depth < 3 else 1)):
            k = self.rng.random()
            if k < 0.4:
                out += self.text()
            elif k < 0.75 and depth < 4:
                out += self.element(depth)
            elif k < 0.85:
                out += self.comment()
            elif k < 0.92:
                out += self.cdata()
            else:
                out += self.pi()
        return out

    def doc(self):
        d = ''
        xml = False
        if self.rng.random() < 0.25:
            d += self.rng.choice(['<?xml version="1.0"?>', '<?xml version="1.0" encoding="utf-8" ?>',
                                  "<?xml version='1.0'?>"]) + self.rng.choice(['', '\n', '\r\n'])
            xml = True
            self.knobs.add('xml-decl')
        if self.rng.random() < 0.3:
            d += self.rng.choice([
                '<!DOCTYPE html>',
                '<!DOCTYPE html PUBLIC "-//W3C//DTD XHTML 1.0 Strict//EN" '
                '"http://www.w3.org/TR/xhtml1/DTD/xhtml1-strict.dtd">',
                '<!doctype html>', '<!DOCTYPE p [\n<!ENTITY e "x">\n]>']) + '\n'
            self.knobs.add('doctype')
        d += self.content(0)
        if self.rng.random() < .05:
            # in a str U+FEFF is a character like any other, also as the very first one (only byte input has a byte-order mark);
            # what follows it is then not at the start of the document, so there is no XML declaration
            d = '\ufeff' + d
            xml = False
            self.knobs.add('leading-U+FEFF')
        return d, xml


def active(d):
    return ('${' in d or '$$' in d or '<!--!' in d or '<!--?' in d or re.search(r'<\?python(?![\w.:-])', d) is not None)


def expected_identity(src):
    xml = src.startswith('<?xml')
    return src if xml else src.replace('\r\n', '\n').replace('\r', '\n')


def token_kinds(src):
    """Independent, coarse classification of the source into token kinds."""
    kinds = []
    for m in re.finditer(r'<!--|<!\[CDATA\[|<!|<\?|</|<|[^<]+', src):
        t = m.group()
        kinds.append({'<!--': 'C', '<![CDATA[': 'D', '<!': 'd', '<?': 'P', '</': 'e', '<': 's'}.get(t, 't'))
    return ''.join(kinds)


def diff_kind(exp, got):
    """Where (in which kind of construct of the expected text) the first difference lies."""
    j = next((k for k in range(min(len(got), len(exp))) if got[k] != exp[k]), min(len(got), len(exp)))
    lt = exp.rfind('<', 0, j + 1)
    gt = exp.rfind('>', 0, j)
    if lt > gt:
        rest = exp[lt:lt + 9]
        for pre, name in (('<!--', 'comment'), ('<![CDATA[', 'cdata'), ('<!', 'declaration'), ('<?', 'pi'),
                          ('</', 'end-tag'), ('<', 'start-tag')):
            if rest.startswith(pre):
                return name, j
    return 'text', j


UNQ_SLASH = re.compile(r'(=[ \t\r\n]*)([^\s"\'<>=`]*/[^\s<>`"\']*)')


def slash_in_unquoted_value_explains(src):
    """Known mechanism: an unquoted attribute value containing '/' is not dissected by the tag parser
    (text silently lost, or a crash).  Metamorphic classifier: the same document with every '/' of such
    values replaced by 'S' must render to itself; only then is the disagreement attributed."""
    if not UNQ_SLASH.search(src):
        return False
    from chameleon import PageTemplate
    src2 = UNQ_SLASH.sub(lambda m: m.group(1) + m.group(2).replace('/', 'S'), src)
    try:
        return PageTemplate(src2)() == expected_identity(src2)
    except Exception:
        return False


def check_identity(ctx, src, knobs=(), cfg=None):
    from chameleon import PageTemplate
    from chameleon.exc import TemplateError
    exp = expected_identity(src)
    cfg = cfg or {}
    if cfg:
        ctx.cover('identity-configurations', ','.join(sorted(cfg)))
        ctx.mon('identity-compared-under-options')
    try:
        from vlib import routes
        if len(src) % 7 == 3:
            # the template object held a document of the other kind before; write() replaces it
            ctx.mon('identity-compared-after-write-over-an-earlier-document')
            t = PageTemplate('<p>earlier\r\nhtml</p>' if src.startswith('<?xml') else '<?xml version="1.0"?>\r\n<p>earlier xml</p>', **cfg)
            t.write(src)
            got = t()
        else:
            got = routes.make(PageTemplate, src, 6, ctx, **cfg)()
    except TemplateError as e:
        ctx.cover('rejected', type(e).__name__)
        ctx.case(key=None, nontrivial=False)
        return None
    except KeyError as e:
        if 'Undefined namespace prefix' in str(e):
            ctx.cover('rejected', 'undefined-prefix')
            ctx.case(key=None, nontrivial=False)
            return None
        raise
    ctx.mon('identity-compared')
    kinds = token_kinds(src)
    nontrivial = bool(re.search(r'<[^!?/][^>]*\s[^>]*>', src)) or bool(set(kinds) - {'t'})
    ctx.case(key=('doc', kinds, tuple(sorted(knobs))), nontrivial=nontrivial,
             sample={'source': src, 'rendered_equal': got == exp} if len(src) < 200 else None)
    if got != exp:
        kind, j = diff_kind(exp, got)
        if slash_in_unquoted_value_explains(src):
            kind = 'document-with-slash-in-unquoted-attribute-value'
        ctx.violation('identity-diff-in-' + kind,
                      'statement-free document does not render to itself: at offset %d expected %r, got %r'
                      % (j, exp[max(0, j - 20):j + 20], got[max(0, j - 20):j + 20]),
                      {'kind': 'identity', 'src': src, 'cfg': {k: sorted(v) if isinstance(v, set) else v for k, v in cfg.items()}})
        return False
    return True


def layer_identity(ctx, n):
    rng = ctx.rng
    done = 0
    while done < n:
        g = DocGen(rng)
        d, xml = g.doc()
        if active(d) or not d:
            continue
        done += 1
        for k in g.knobs:
            ctx.cover('lexical-knobs', k)
        try:
            check_identity(ctx, d, g.knobs, rng.choice(IDENTITY_CONFIGS))
        except Exception as e:
            if slash_in_unquoted_value_explains(d):
                ctx.violation('identity-diff-in-document-with-slash-in-unquoted-attribute-value',
                              'statement-free document %r raised %s' % (d[:200], type(e).__name__), {'kind': 'identity', 'src': d})
                continue
            ctx.violation('identity-crash-' + type(e).__name__,
                          'compiling/rendering a statement-free document raised %s: %s' % (
                              type(e).__name__, str(e)[:200]),
                          {'kind': 'identity', 'src': d})


SOUP = ['<a', '<b', ' ', ' ', '>', '>', '/>', '</a', '</b', 'x="1"', "y='2'", 'z=3', 'w', '=', '"', "'", 't', '\n',
        '&amp;', '<!--', '-->', '<![CDATA[', ']]>', '<?p', '?>', '<!D', '\u0663x', '\u0e51', '/', '<', '</', '</a>',
        '<a>', '<b>', '</b>', '\t', '\xe9', '\xb2']


ATTR_SOUP = ['x="1"', "y='2'", 'z=3', 'w', 'w="', "w='", 'w=', '="1"', '"', "'", 'a"b"', 'x="1"y="2"', 'x = "1"', 'x=\n"1"', '\u0663x="1"',
             'x="a>b"', "x='a<b'", 'x=a"b', '/', '=', 'x==1', 'x="1""', 'x=\'1\'\'', 'x="', 'é="1"', 'x:y="1"' if False else 'xml:lang="e"', '&amp;', 'x=&amp;',
             'x="&"', '<', 'x=<', '-x="1"', '.y', '_z', '@c="1"', ':v="1"', 'a.b=c',
             'c%', 'w=50%', 'x="5%"', '"5%"', '%s', 'b==50%', 'x=a"5%s"', "w='50%", '%(a)s="1"']


def tag_soup(rng):
    """A start tag with well-formed and broken attribute pieces, possibly content and an end tag."""
    name = rng.choice(['a', 'b', 'p', 'B', 'x-y'])
    s = '<' + name
    for _ in range(rng.randint(0, 3)):
        s += rng.choice([' ', ' ', '\n', '\t', '  ', '']) + rng.choice(ATTR_SOUP)
    s += rng.choice(['>', '>', '/>', ' >', ' />', '', '\n>'])
    if rng.random() < .6:
        s += rng.choice(['t', '', ' ', 'x>y', '"']) + rng.choice(['</%s>' % name, '</%s >' % name, '</%s' % name, '', '</>'])
    return s


def layer_soup(ctx, n):
    """Tag soup proper: random concatenations of markup fragments (unterminated start and end tags,
    stray quotes, names starting with a non-ASCII digit, ...).  Whatever of it compiles must render
    to itself; what is rejected must be rejected with a TemplateError (judged by C11, counted here)."""
    rng = ctx.rng
    for _ in range(n):
        if rng.random() < .5:
            s = ''.join(rng.choice(SOUP) for _ in range(rng.randint(1, 7)))
        else:
            s = rng.choice(['', 't', '<i>']) + tag_soup(rng) + rng.choice(['', tag_soup(rng), ' u'])
        if active(s):
            continue
        ctx.cover('layer', 'soup')
        try:
            check_identity(ctx, s, ('soup',))
        except Exception as e:
            if slash_in_unquoted_value_explains(s):
                ctx.violation('identity-diff-in-document-with-slash-in-unquoted-attribute-value',
                              'statement-free document %r raised %s' % (s[:200], type(e).__name__), {'kind': 'identity', 'src': s})
                continue
            ctx.violation('identity-crash-' + type(e).__name__,
                          'compiling/rendering a statement-free document raised %s: %s' % (
                              type(e).__name__, str(e)[:200]),
                          {'kind': 'identity', 'src': s})


PROBE_VALUES = {'p0': 'P0q', 'p1': '\u03a91\u03a9', 'p2': '22', 'p3': 'x%sy%'}
PROBE = re.compile(r'\$\{(p[0-3])\}')


def layer_mixed(ctx, n):
    """Unmarked markup NEXT TO a ${...}: grammar documents with ${pN} probes sprinkled into text, quoted
    attribute values, comments and CDATA.  Everything except the probes is unmarked and must come out byte
    for byte (literal %, $name, backslashes, entities, quotes, ... in the same node as the interpolation)."""
    from chameleon import PageTemplate
    from chameleon.exc import TemplateError
    rng = ctx.rng
    done = tries = 0
    while done < n and tries < 20 * n:
        tries += 1
        g = DocGen(rng, probes=True)
        d, xml = g.doc()
        if not g.nprobes:
            continue
        rest = PROBE.sub('\x00', d)
        if active(rest) or '$$' in d or '$\x00' in rest:
            continue
        done += 1
        for k in g.knobs:
            ctx.cover('lexical-knobs', k)
        exp = PROBE.sub(lambda m: PROBE_VALUES[m.group(1)], expected_identity(d))
        try:
            got = PageTemplate(d)(**PROBE_VALUES)
        except TemplateError as e:
            ctx.cover('rejected', type(e).__name__)
            ctx.case(key=None, nontrivial=False)
            continue
        except Exception as e:
            if slash_in_unquoted_value_explains(PROBE.sub('P', d)):
                ctx.violation('identity-diff-in-document-with-slash-in-unquoted-attribute-value',
                              'document %r raised %s' % (d[:200], type(e).__name__), {'kind': 'mixed', 'src': d})
                continue
            ctx.violation('mixed-crash-' + type(e).__name__,
                          'rendering a document whose only marked parts are ${pN} probes raised %s: %s\n  source %r' % (
                              type(e).__name__, str(e).split('\n')[0][:200], d[:300]), {'kind': 'mixed', 'src': d})
            continue
        ctx.mon('mixed-compared')
        ctx.case(key=('mixed', token_kinds(rest), tuple(sorted(g.knobs))), nontrivial=True,
                 sample={'source': d, 'rendered': got} if len(d) < 120 else None)
        if got != exp:
            kind, j = diff_kind(exp, got)
            if slash_in_unquoted_value_explains(PROBE.sub('P', d)):
                kind = 'document-with-slash-in-unquoted-attribute-value'
                cls = 'identity-diff-in-' + kind
            else:
                cls = 'mixed-diff-in-' + kind
            ctx.violation(cls, 'unmarked markup next to a ${...} probe is not reproduced: at offset %d expected %r, got %r\n  source %r'
                          % (j, exp[max(0, j - 20):j + 20], got[max(0, j - 20):j + 20], d[:300]), {'kind': 'mixed', 'src': d})


def layer_identity_files(ctx):
    """Statement-free sample files must render to themselves, too."""
    files = sorted(glob.glob(os.path.join(env.SRC, 'chameleon', 'tests', 'inputs', '*.pt')))
    for i, fn in enumerate(files):
        if i % ctx.nshards != ctx.shard:
            continue
        try:
            s = open(fn, encoding='utf-8', newline='').read()
        except UnicodeDecodeError:
            continue
        if active(s) or re.search(r'tal:|metal:|i18n:|meta:|xmlns', s):
            continue
        check_identity(ctx, s, ('sample-file',))


def run(ctx):
    monitors.install(ctx)
    import chameleon.tokenize as T
    iter_xml = T.iter_xml
    assert getattr(iter_xml, '__wrapped_by_verif__', False)
    if ctx.quick:
        layer_exhaustive(ctx, iter_xml, ALPHA16, 5, '16x5')
        layer_exhaustive(ctx, iter_xml, ALPHA10, 6, '10x6')
        layer_random(ctx, iter_xml, 2000)
        layer_identity(ctx, 700)
        layer_soup(ctx, 1500)
        layer_mixed(ctx, 500)
    else:
        layer_exhaustive(ctx, iter_xml, ALPHA16, 6, '16x6')
        layer_exhaustive(ctx, iter_xml, ALPHA10, 7, '10x7')
        layer_random(ctx, iter_xml, 20000)
        layer_identity(ctx, 12000)
        layer_soup(ctx, 25000)
        layer_mixed(ctx, 8000)
    layer_files(ctx, iter_xml)
    layer_identity_files(ctx)


def replay(data):
    from vlib import state, shard
    ctx = shard.Ctx(PROP, 'quick', 0, 0, 1)
    state.CTX = ctx
    monitors.install(ctx)
    if data.get('kind') == 'tokenize':
        import chameleon.tokenize as T
        toks = list(T.iter_xml(data['body']))
        text = 'tokens: %r' % [(str(t), t.pos) for t in toks]
    else:
        from chameleon import PageTemplate
        src = data['src']
        exp = expected_identity(src)
        kw = {}
        if data.get('kind') == 'mixed':
            exp = PROBE.sub(lambda m: PROBE_VALUES[m.group(1)], exp)
            kw = PROBE_VALUES
        cfg = dict(data.get('cfg') or {})
        if 'boolean_attributes' in cfg:
            cfg['boolean_attributes'] = set(cfg['boolean_attributes'])
        try:
            got = PageTemplate(src, **cfg)(**kw)
        except Exception as e:
            got = '%s: %s' % (type(e).__name__, e)
        text = 'source   %r\noptions  %r\nexpected %r\nrendered %r' % (src, cfg, exp, got)
        if got != exp:
            ctx.violation('identity', 'differs')
    return bool(ctx.violations), text
