#!/usr/bin/env python3
"""Print the markdown table of seeded changes (for DESIGN.md §11) from seeded/*/meta.json."""
import json, glob, os
rows = []
for m in sorted(glob.glob('/verif/seeded/*/meta.json')):
    d = json.load(open(m))
    rows.append('| %s | %s | %s | %s | %s |' % (d['id'], d['property'], (d.get('summary') or '').replace('|', '/')[:230],
                                              (d.get('needs') or '').replace('|', '/').replace('\n', ' ')[:200],
                                              ', '.join(d.get('caught_by') or []) or '**not caught**'))
print('| id | property | change | needs | caught by (quick tier, seed 0) |')
print('|---|---|---|---|---|')
print('\n'.join(rows))
