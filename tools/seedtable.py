#!/usr/bin/env python3
"""Print the markdown table of seeded changes (DESIGN.md §11) from seeded/*/meta.json;
with --write, splice it into DESIGN.md between the SEEDTABLE markers."""
import glob
import json
import os
import re
import sys

ROOT = os.path.dirname(os.path.dirname(os.path.abspath(__file__)))


def clip(s, n):
    s = re.sub(r'\s+', ' ', (s or '').replace('|', '/')).strip()
    return s if len(s) <= n else s[:n - 1].rstrip() + '…'


rows = []
missed = []
for m in sorted(glob.glob(os.path.join(ROOT, 'seeded', '*', 'meta.json'))):
    d = json.load(open(m))
    caught = d.get('caught_by') or []
    if not caught and not d.get('note'):
        missed.append(d['id'])
    classes = []
    for p in caught:
        for c in (d.get('violation_classes') or {}).get(p, [])[:1]:
            mm = re.match(r'class=(\S+)', c)
            if mm:
                classes.append('%s `%s`' % (p, mm.group(1)))
    rows.append('| %s | %s | %s | %s |' % (d['id'], clip(d.get('summary'), 210), clip(d.get('needs'), 170),
                                         '; '.join(classes) or ', '.join(caught) or ('not counted: ' + clip(d['note'], 160) if d.get('note') else '**not caught**')))
table = ['| id | change (one per sub-agent delivery) | needs | caught by: check and first violation class (quick tier, seed 0) |', '|---|---|---|---|'] + rows
noted = [json.load(open(m))['id'] for m in sorted(glob.glob(os.path.join(ROOT, 'seeded', '*', 'meta.json'))) if json.load(open(m)).get('note') and not json.load(open(m)).get('caught_by')]
text = '\n'.join(table) + '\n\n%d seeded changes, %d caught by at least one registered quick check%s%s.\n' % (
    len(rows), len(rows) - len(missed) - len(noted), '' if not missed else '; not caught: ' + ', '.join(missed),
    '' if not noted else '; not counted (see their rows): ' + ', '.join(noted))
if '--write' in sys.argv:
    p = os.path.join(ROOT, 'DESIGN.md')
    s = open(p).read()
    a, b = '<!-- SEEDTABLE-BEGIN -->', '<!-- SEEDTABLE-END -->'
    if a not in s:
        sys.exit('markers missing in DESIGN.md')
    s = s[:s.index(a) + len(a)] + '\n' + text + s[s.index(b):]
    open(p, 'w').write(s)
else:
    print(text)
