import random, sys, html
sys.path.insert(0, '/repo/src')
from chameleon import PageTemplate
LITS = ['a', ' ', '$', '$$', '{', '}', '"', "'", '&amp;', '&lt;', '\n', 'é', '$x', '{}', '}{', '$$$', '#', ':', '|']
EXPRS = [  # (source in template text (entity-encoded where needed), python value)
 ('v', 'VAL'), ('n', 7), ("'}'", '}'), ('"}"', '}'), ("'${'", '${'), ("'$'", '$'), ("'{'", '{'),
 ('{"a": 1}["a"]', 1), ('{1: {2: 3}}[1][2]', 3), ('len({1, 2})', 2), ("f'{n}'", '7'), ("f'{n:>3}'", '  7'), ("f'{{}}'", '{}'),
 ("f'{d[\"k\"]}'", 'KV'), ('(lambda: {"q": 5})()["q"]', 5), ('[x for x in (1,2)]', [1, 2]), ("'a' if n else 'b'", 'a'),
 ('1 &lt; 2', True), ('"&amp;"', '&'), ("n\n + 1", 8), ('  v  ', 'VAL'), ("'}}'", '}}'), ("'}${'", '}${'), ('"\'"', "'"),
 ("d['k']", 'KV'), ('{}', {}), ('{"a": "}"}["a"]', '}'),
]
ENV = dict(v='VAL', n=7, d={'k': 'KV'})
def esc_text(s): return s.replace('&', '&amp;').replace('<', '&lt;').replace('>', '&gt;')
def gen(rng):
    parts = []
    for _ in range(rng.randint(1, 6)):
        if rng.random() < 0.5:
            parts.append(('lit', ''.join(rng.choice(LITS) for _ in range(rng.randint(1, 4)))))
        else:
            parts.append(('expr',) + rng.choice(EXPRS))
    return parts
def expected_lit(src):
    # literal source text -> output: '$$' -> '$' scanning left to right; entities stay as written
    out = ''; i = 0
    while i < len(src):
        if src.startswith('$$', i): out += '$'; i += 2
        else: out += src[i]; i += 1
    return out
def build(parts, ctx):
    src = ''; exp = ''
    lit_run = ''
    for k, p in enumerate(parts):
        if p[0] == 'lit':
            lit_run += p[1]
        else:
            src += lit_run; exp += expected_lit(lit_run) if not odd_dollars(lit_run) else None
            lit_run = ''
            src += '${' + p[1] + '}'
            exp += esc(ctx, str(p[2]))
    src += lit_run; exp += expected_lit(lit_run)
    return src, exp
def odd_dollars(s):
    n = 0
    while n < len(s) and s[-n-1] == '$': n += 1
    return n % 2 == 1
def esc(ctx, s):
    if ctx == 'none': return s
    s = esc_text(s)
    if ctx == 'dq': s = s.replace('"', '&quot;')
    if ctx == 'sq': s = s.replace("'", '&#39;')
    return s
def ok_parts(parts, ctx):
    # merge adjacent literals; reject ambiguous: literal ending in odd $ directly before an expr (that's an escape -> different expectation)
    run = ''
    for p in parts:
        if p[0] == 'lit': run += p[1]
        else:
            if odd_dollars(run): return False
            run = ''
    run = ''
    for p in parts + [('expr', '', '')]:
        if p[0] == 'lit': run += p[1]
        else:
            t = run.replace('$$', '')
            if '${' in t: return False
            run = ''
    alltext = ''.join(p[1] for p in parts)
    if ctx == 'dq' and ('"' in ''.join(p[1] for p in parts)): return False
    if ctx == 'sq' and ("'" in ''.join(p[1] for p in parts)): return False
    if ctx in ('dq', 'sq') and '\n' in alltext: pass
    return True
rng = random.Random(int(sys.argv[1]) if len(sys.argv) > 1 else 0)
bad = 0; n = 0
for i in range(int(sys.argv[2]) if len(sys.argv) > 2 else 1500):
    ctx = rng.choice(['text', 'dq', 'sq', 'comment', 'cdata'])
    parts = gen(rng)
    if not ok_parts(parts, ctx): continue
    if not any(p[0] == 'expr' for p in parts): continue
    src, exp = build(parts, ctx)
    if ctx == 'comment' and ('--' in src or src.endswith('-') or '>' in src[:2]): continue
    if ctx == 'cdata' and (']]' in src or src.endswith(']')): continue
    if ctx == 'text': tsrc, texp = '<p>%s</p>' % src, '<p>%s</p>' % exp
    elif ctx == 'dq': tsrc, texp = '<p a="%s">x</p>' % src, '<p a="%s">x</p>' % exp
    elif ctx == 'sq': tsrc, texp = "<p a='%s'>x</p>" % src, "<p a='%s'>x</p>" % exp
    elif ctx == 'comment': tsrc, texp = '<!--%s-->' % (' ' + src), '<!--%s-->' % (' ' + exp)
    else:
        # CDATA: no escaping
        exp2 = ''
        src2, exp2 = build(parts, 'none')
        tsrc, texp = '<![CDATA[%s]]>' % src2, '<![CDATA[%s]]>' % exp2
    n += 1
    try:
        got = PageTemplate(tsrc)(**ENV)
    except Exception as e:
        got = 'ERR %s: %s' % (type(e).__name__, str(e).split('\n')[0])
    if got != texp:
        bad += 1
        if bad <= 12: print('MISMATCH', ctx, repr(tsrc), '\n   exp', repr(texp), '\n   got', repr(got))
print('cases', n, 'bad', bad)
