"""Debug helper: run one shard of a check in-process and print the shortest witness per violation class.
usage: tools/smallest.py C06 [seed] [nshards]"""
import sys, json
sys.path.insert(0, '/verif')
from vlib import env
env.setup_paths()
from vlib import shard, state
import importlib
prop = sys.argv[1]; seed = int(sys.argv[2]) if len(sys.argv) > 2 else 0
class C(shard.Ctx):
    MAX_VIOL_PER_KEY = 100000
ctx = C(prop, 'quick', seed, 0, int(sys.argv[3]) if len(sys.argv) > 3 else 16)
state.CTX = ctx
mod = importlib.import_module('checks.' + prop.lower())
mod.run(ctx)
for k, ent in ctx.violations.items():
    best = min(ent['cases'], key=lambda c: len(str(c['what'])))
    print('=====', k, ent['n'])
    print(best['what'])
print(ctx.evaluations, dict(ctx.monitors))
