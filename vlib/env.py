"""Process environment for every check: which Chameleon is under test.

Checks import Chameleon from /repo/src (current working tree).  The override
VERIF_CHAMELEON_SRC exists only so that the self-test can aim a check at a
scratch copy carrying a deliberate break.
"""
import os
import subprocess
import sys

VERIF = os.path.dirname(os.path.dirname(os.path.abspath(__file__)))
REPO = os.environ.get('VERIF_REPO', '/repo')
SRC = os.environ.get('VERIF_CHAMELEON_SRC') or os.path.join(REPO, 'src')
DEPS = os.path.join(VERIF, '.deps')
PY = '/venv/bin/python'
GUARD = 'MALTHE_CHAMELEON_VERIF'


def ensure_deps():
    """(Re)install icontract/deal from the offline wheelhouse if absent."""
    if not os.path.isdir(os.path.join(DEPS, 'icontract')):
        subprocess.run([os.path.join(VERIF, 'setup.sh')], check=False,
                       stdout=subprocess.DEVNULL, stderr=subprocess.DEVNULL)
    return os.path.isdir(os.path.join(DEPS, 'icontract'))


def setup_paths():
    """Put the Chameleon under test first on sys.path; deps last."""
    for p in (VERIF, SRC):
        if p in sys.path:
            sys.path.remove(p)
    sys.path.insert(0, VERIF)
    sys.path.insert(0, SRC)
    if os.path.isdir(DEPS) and DEPS not in sys.path:
        sys.path.append(DEPS)
    sys.dont_write_bytecode = True


def child_env(extra=None):
    env = dict(os.environ)
    env['PYTHONPATH'] = SRC + os.pathsep + VERIF
    env['PYTHONDONTWRITEBYTECODE'] = '1'
    env.setdefault('PYTHONHASHSEED', '0')
    env[GUARD] = '1'
    # a cache directory inherited from the caller would change what is tested
    env.pop('CHAMELEON_CACHE', None)
    env.pop('CHAMELEON_DEBUG', None)
    env.pop('CHAMELEON_RELOAD', None)
    env.pop('CHAMELEON_EAGER', None)
    if extra:
        env.update(extra)
    return env


def assert_chameleon_origin():
    import chameleon
    origin = os.path.realpath(os.path.dirname(chameleon.__file__))
    want = os.path.realpath(os.path.join(SRC, 'chameleon'))
    if origin != want:
        raise RuntimeError('chameleon imported from %s, expected %s' % (origin, want))
    return origin
