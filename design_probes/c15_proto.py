import subprocess, os, sys, tempfile, shutil
SRC = '<p tal:content="x">q</p><b>é</b>'
def run(cache, k=None):
    env = dict(os.environ, PYTHONDONTWRITEBYTECODE='1')
    if cache: env['CHAMELEON_CACHE'] = cache
    if k is not None: env['CRASH_AT'] = str(k)
    p = subprocess.run(['/venv/bin/python', '/tmp/exp/c15_child.py', SRC], env=env, capture_output=True, text=True, timeout=60)
    return p.returncode, p.stdout, p.stderr[-300:]
ref = run(None)[1].split('\n#steps')[0]
d = tempfile.mkdtemp(dir='/tmp/exp'); rc, out, err = run(d); steps = int(out.split('#steps=')[1]); shutil.rmtree(d)
print('reference', repr(ref), 'steps with cache', steps)
for k in range(1, steps + 2):
    d = tempfile.mkdtemp(dir='/tmp/exp')
    rc, out, err = run(d, k)
    listing = sorted(os.listdir(d)) + sorted('__pycache__/' + f for f in (os.listdir(d + '/__pycache__') if os.path.isdir(d + '/__pycache__') else []))
    rc2, out2, err2 = run(d)          # fresh process, same cache dir
    ok = (rc2 == 0 and out2.split('\n#steps')[0] == ref)
    print('k=%2d crash rc=%s listing=%s -> later process rc=%s %s' % (k, rc, [l[-28:] for l in listing], rc2, 'OK' if ok else 'BAD ' + err2[-200:]))
    shutil.rmtree(d)
