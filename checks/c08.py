"""C08 — tal:repeat iterates any iterable and exposes correct repeat variables.

Layers
 (a) closed forms: for EVERY length 0..60 (quick) / 0..150 (thorough) and every
     position, and boundary lengths around 26^2 and 3999, over seven iterable
     kinds, a probe template prints the item and every repeat attribute; the
     oracle computes them independently from (position, length).
 (b) M-repeat: contract (icontract when available) on the real
     tal.RepeatItem attribute functions, checked on every access made by any
     workload: number == index+1, start/end/parity/letter/roman consistent with
     index and length, 0 <= index < length while iterating.
 (c) loop nests (depth 1..3, reused and distinct names, tuple unpacking, one-shot
     iterators, None, empty) against a small reference interpreter that also
     tracks repeat[name]; output equality.
 (d) separator: ordinary repeated element on its own line after 0..8 spaces of
     indentation, at several nesting depths: repetitions separated by newline +
     indentation, nothing after the last.
"""
import itertools

from vlib import monitors, state

PROP = 'C08'
TITLE = 'tal:repeat and repeat variables'
DEBUG_SHARDS = True      # two of sixteen shards run the library in its debug mode (vlib/runner.py)
LEVEL = 'exploration'
SHARDS = {'quick': 16, 'thorough': 16}
FLOOR = {'quick': 5000, 'thorough': 30000}
REQUIRED_MONITORS = {'positions-compared': 5000, 'M-repeat': 10000, 'nests-compared': 500, 'separators-compared': 200, 'overlapping-renders-compared': 300, 'self-referencing-iterables-compared': 300, 'variable-names-compared': 400}
RULE = ('(a) every (length, position) with length 0..60 (quick) / 0..150 (thorough) plus lengths 701,702,703,3998..4001 and '
        '18278,18279 x iterable kinds {list, tuple, range, generator, dict items view, str, one-shot iterator}: distinct by '
        '(kind, length, position), non-trivial iff length >= 1; (c) generated loop nests: distinct by (iterable kinds, '
        'name-reuse pattern, tuple/single, placement); (d) separator placements: distinct by (indentation, depth, length, '
        'text before). Not generated (statement silent): tab indentation, repeated element not starting on its own line, '
        'CR line breaks before the element, tal:repeat="global ...".')
ASSUMPTIONS = ['letter/Letter are positional base-26 (a..z, ba after z) as pinned by the doctests and ZPT; the "aa" wording '
               'of reference.rst is treated as a documentation slip (DESIGN §5 n.12)']
EXHAUSTIVE = {'quick': 'all positions of all lengths 0..60 x 7 iterable kinds', 'thorough': 'all positions of all lengths 0..150 x 7 iterable kinds'}

ATTRS = ['index', 'number', 'even', 'odd', 'parity', 'start', 'end', 'length', 'letter', 'Letter', 'roman', 'Roman']


def letter(i):
    digits = []
    while True:
        digits.append(i % 26)
        i //= 26
        if not i:
            break
    return ''.join('abcdefghijklmnopqrstuvwxyz'[d] for d in reversed(digits))


H = ['', 'C', 'CC', 'CCC', 'CD', 'D', 'DC', 'DCC', 'DCCC', 'CM']
TE = ['', 'X', 'XX', 'XXX', 'XL', 'L', 'LX', 'LXX', 'LXXX', 'XC']
U = ['', 'I', 'II', 'III', 'IV', 'V', 'VI', 'VII', 'VIII', 'IX']


def roman(n):
    return 'M' * (n // 1000) + H[n // 100 % 10] + TE[n // 10 % 10] + U[n % 10]


def attr_values(i, n):
    return {'index': str(i), 'number': str(i + 1), 'even': 'even' if i % 2 == 0 else '', 'odd': 'odd' if i % 2 else '',
            'parity': 'even' if i % 2 == 0 else 'odd', 'start': str(int(i == 0)), 'end': str(int(i == n - 1)),
            'length': str(n), 'letter': letter(i), 'Letter': letter(i).upper(), 'roman': roman(i + 1).lower(),
            'Roman': roman(i + 1)}


def expected_line(i, n, item):
    v = attr_values(i, n)
    return str(item) + ',' + ','.join(v[a] for a in ATTRS)


class SizedGen:
    """a sized container whose iterator is a plain generator (like collections.abc mix-ins give)"""

    def __init__(self, items):
        self._items = list(items)

    def __len__(self):
        return len(self._items)

    def __iter__(self):
        yield from self._items


def user_list(items):
    import collections
    return collections.UserList(items)


def user_dict_items(pairs):
    import collections
    return collections.UserDict(pairs).items()


KINDS = {
    'userlist': lambda n: user_list(range(n)),
    'sizedgen': lambda n: SizedGen(range(n)),
    'list': lambda n: list(range(n)),
    'tuple': lambda n: tuple(range(n)),
    'range': lambda n: range(n),
    'gen': lambda n: (i for i in range(n)),
    'str': lambda n: ''.join(chr(65 + i % 26) for i in range(n)),
    'dictitems': lambda n: {i: -i for i in range(n)}.items(),
    'iter': lambda n: iter(list(range(n))),
}


def items_of(kind, n):
    if kind == 'str':
        return [chr(65 + i % 26) for i in range(n)]
    if kind == 'dictitems':
        return [(i, -i) for i in range(n)]
    return list(range(n))


# --------------------------------------------------------------------------
def install_repeat_contract(ctx):
    """M-repeat on the real RepeatItem attribute functions."""
    import chameleon.tal as TAL
    from chameleon.utils import descriptorint, descriptorstr
    try:
        import icontract
    except ImportError:
        icontract = None
        ctx.note('icontract unavailable: M-repeat uses hand-written wrappers')

    class RepeatContractBroken(Exception):
        pass

    def report(self, name, result, why):
        ctx.violation('M-repeat:' + name, 'RepeatItem.%s returned %r: %s (length %r)' % (name, result, why, self.length),
                      {'kind': 'repeat-contract', 'attr': name})

    orig_index = TAL.RepeatItem.__dict__['index'].function

    def cond_for(name):
        def cond(self, result):
            try:
                ctx.mon('M-repeat')
                idx = int(orig_index(self))
                n = self.length
                if name == 'index':
                    if not (-1 <= idx < max(n, 1)):
                        report(self, name, result, 'index out of range')
                else:
                    want = {
                        'number': lambda: idx + 1, 'start': lambda: idx == 0, 'end': lambda: idx == n - 1,
                        'odd': lambda: 'odd' if idx % 2 else '', 'even': lambda: '' if idx % 2 else 'even',
                        'parity': lambda: 'odd' if idx % 2 else 'even',
                        '_letter': lambda: None, 'Letter': lambda: letter(idx).upper() if idx >= 0 else None,
                        'Roman': lambda: roman(idx + 1), 'roman': lambda: roman(idx + 1).lower(),
                    }[name]()
                    if want is not None and result != want:
                        report(self, name, result, 'expected %r for index %d' % (want, idx))
                    if name == '_letter' and idx >= 0 and str(result).lower() != letter(idx):
                        report(self, name, result, 'expected %r for index %d' % (letter(idx), idx))
            except Exception as e:   # never disturb the code under test
                ctx.note('M-repeat internal error %r' % e)
            return True
        return cond

    for name, desc in list(TAL.RepeatItem.__dict__.items()):
        if not isinstance(desc, (descriptorint, descriptorstr)):
            continue
        fn = desc.function
        fname = fn.__name__
        if fname not in ('index', 'number', 'start', 'end', 'odd', 'even', 'parity', '_letter', 'Letter', 'Roman', 'roman'):
            continue
        cond = cond_for(fname)
        if icontract is not None:
            wrapped = icontract.ensure(cond, error=RepeatContractBroken)(fn)
        else:
            def wrapped(self, *a, _fn=fn, _cond=cond, **kw):
                r = _fn(self, *a, **kw)
                _cond(self, r)
                return r
            wrapped.__name__ = fname
        setattr(TAL.RepeatItem, name, type(desc)(wrapped))


# --------------------------------------------------------------------------
def layer_closed_forms(ctx):
    from chameleon import PageTemplate
    forms = ['repeat.x.%s', "repeat['x'].%s"]
    T = []
    for form in forms:
        probes = ','.join('${%s}' % (form % a) for a in ATTRS)
        T.append(PageTemplate('<tal:r repeat="x xs">${x},%s;</tal:r>' % probes))
    maxlen = 60 if ctx.quick else 150
    lengths = list(range(0, maxlen + 1)) + [701, 702, 703, 3998, 3999, 4000, 4001] + ([] if ctx.quick else [18278, 18279])
    work = [(n, k) for n in lengths for k in KINDS]
    total = nontriv = 0
    for wi, (n, kind) in enumerate(work):
        if wi % ctx.nshards != ctx.shard:
            continue
        if n > 200 and kind not in ('list', 'gen', 'iter'):
            continue
        t = T[wi % 2]
        try:
            out = t(xs=KINDS[kind](n)).split(';')[:-1]
        except Exception as e:
            total += 1
            ctx.violation('repeat-raised:' + type(e).__name__, 'kind %s length %d: rendering raised %s: %s' % (
                kind, n, type(e).__name__, str(e).split('\n')[0][:120]), {'kind': 'closed', 'iter': kind, 'n': n})
            continue
        items = items_of(kind, n)
        ctx.cover('iterable-kind', kind)
        if len(out) != n:
            ctx.violation('repetition-count', 'kind %s length %d rendered %d repetitions' % (kind, n, len(out)),
                          {'kind': 'closed', 'iter': kind, 'n': n})
            continue
        if n == 0:
            total += 1
        for i, o in enumerate(out):
            total += 1
            nontriv += 1
            want = expected_line(i, n, items[i])
            ctx.mon('positions-compared')
            if o != want:
                bad = [a for a, x, y in zip(['item'] + ATTRS, o.split(','), want.split(',')) if x != y] \
                    if kind != 'dictitems' else ['?']
                ctx.violation('closed-form-' + '+'.join(bad[:3]),
                              'kind %s length %d position %d: rendered %r expected %r' % (kind, n, i, o, want),
                              {'kind': 'closed', 'iter': kind, 'n': n, 'i': i})
                break
    ctx.bulk(total, nontriv)
    # None and empty render nothing at all
    for t in T:
        for xs in (None, [], (), '', {}):
            r = t(xs=xs)
            ctx.case(key=('empty', repr(xs)), nontrivial=False)
            if r != '':
                ctx.violation('empty-iterable-renders', 'repeat over %r rendered %r' % (xs, r), {'kind': 'empty', 'xs': repr(xs)})


# --------------------------------------------------------------------------
# (c) loop nests
class Loop:
    def __init__(self, names, kind, n, kids, tagkind, form=0):
        self.names, self.kind, self.n, self.kids, self.tagkind = names, kind, n, kids, tagkind
        self.form = form        # how the iterable expression is written (value-preserving wrappers)


# value-preserving spellings of the iterable expression; N is the (first) loop variable: names local to the
# expression (lambda parameters) may equal the loop variable without touching it
FORMS = ['%(it)s', '(lambda %(N)s: %(N)s)(%(it)s)', '(lambda q, %(N)s=0: q)(%(it)s)', '(%(it)s if 1 else None)',
         '(lambda: %(it)s)()']


NAMES = ['x', 'y', 'x', 'z']


def gen_nest(rng, depth, ids):
    kids = []
    for _ in range(rng.randint(0, 2 if depth < 2 else 0)):
        kids.append(gen_nest(rng, depth + 1, ids))
    tup = rng.random() < .25
    names = tuple(rng.sample(['x', 'y', 'z', 'w'], 2)) if tup else (rng.choice(NAMES),)
    kind = rng.choice(['list', 'tuple', 'gen', 'iter', 'range', 'none', 'str', 'userlist', 'sizedgen']) if not tup else rng.choice(
        ['pairs', 'dictitems', 'genpairs', 'none', 'userdictitems', 'sizedgenpairs', 'dictpairkeys', 'dictstrkeys',
         # the items themselves are one-shot: unpacking is the only time they may be iterated
         'iteritems', 'genitems', 'reverseditems', 'mapitems'])
    n = rng.choice([0, 1, 2, 3])
    return Loop(names, kind, n, kids, rng.choice(['tal', 'span']), rng.choice([0, 0, 0, 1, 2, 3, 4]))


def make_iterable(loop, uid):
    n = loop.n
    k = loop.kind
    if k == 'none':
        return None
    if k == 'list':
        return ['%s%d' % (uid, i) for i in range(n)]
    if k == 'tuple':
        return tuple('%s%d' % (uid, i) for i in range(n))
    if k == 'gen':
        return ('%s%d' % (uid, i) for i in range(n))
    if k == 'iter':
        return iter(['%s%d' % (uid, i) for i in range(n)])
    if k == 'range':
        return range(n)
    if k == 'str':
        return 'abcdef'[:n]
    if k == 'userlist':
        return user_list('%s%d' % (uid, i) for i in range(n))
    if k == 'sizedgen':
        return SizedGen('%s%d' % (uid, i) for i in range(n))
    if k == 'userdictitems':
        return user_dict_items({'%s%d' % (uid, i): i for i in range(n)})
    if k == 'sizedgenpairs':
        return SizedGen(('%s%d' % (uid, i), i) for i in range(n))
    if k == 'pairs':
        return [('%s%d' % (uid, i), i) for i in range(n)]
    if k == 'iteritems':
        return [iter(('%s%d' % (uid, i), i)) for i in range(n)]
    if k == 'genitems':
        return [(x for x in ('%s%d' % (uid, i), i)) for i in range(n)]
    if k == 'reverseditems':
        return [reversed((i, '%s%d' % (uid, i))) for i in range(n)]
    if k == 'mapitems':
        return map(iter, [('%s%d' % (uid, i), i) for i in range(n)])
    if k == 'genpairs':
        return (('%s%d' % (uid, i), i) for i in range(n))
    if k == 'dictitems':
        return {'%s%d' % (uid, i): i for i in range(n)}.items()
    if k == 'dictpairkeys':
        # iterating a mapping gives its keys: here each key is a pair (the values play no part)
        return {('%s%d' % (uid, i), i): 'value-%d' % i for i in range(n)}
    if k == 'dictstrkeys':
        return {'%s%d' % ('ab'[i % 2], i): 'value-%d' % i for i in range(n)}       # two-character keys unpack into two names


def probe(single_in_scope):
    # prints each possibly-bound name, and the repeat entry of every name bound by an enclosing
    # single-name loop (the statement speaks of repeat[name] at positions of the loop, not after it)
    parts = []
    for nm in ('x', 'y', 'z', 'w'):
        parts.append("%s=${%s|'U'}" % (nm, nm))
        if nm in single_in_scope:
            parts.append("#${repeat.%s.index}/${repeat['%s'].end}/${repeat.%s.length}" % (nm, nm, nm))
    return '[' + ' '.join(parts) + ']'


def ser_nest(loop, uid='L', scope=frozenset()):
    names = loop.names
    scope = scope | set(names) if len(names) == 1 else scope
    head = names[0] if len(names) == 1 else '(%s)' % ', '.join(names)
    tag = 'tal:r' if loop.tagkind == 'tal' else 'span'
    attr = 'repeat' if loop.tagkind == 'tal' else 'tal:repeat'
    inner = probe(scope)
    for j, k in enumerate(loop.kids):
        inner += ser_nest(k, uid + str(j), scope) + probe(scope)
    lead = '' if loop.tagkind == 'tal' else '\n'     # an ordinary repeated element starts on its own line
    expr = FORMS[loop.form] % {'it': 'it_%s()' % uid, 'N': names[0]}
    return lead + '<%s %s="%s %s">%s</%s>' % (tag, attr, head, expr, inner, tag)


def model_nest(loop, uid, env, rep, out, alt_sticky_repeat=False, scope=frozenset()):
    """env: variable bindings; rep: repeat[name] -> (index, length) or ('done', length)."""
    MISSING = object()
    it = make_iterable(loop, uid)
    items = list(it) if it is not None else []
    n = len(items)
    saved = {nm: env.get(nm, MISSING) for nm in loop.names}
    key = loop.names[0] if len(loop.names) == 1 else loop.names
    saved_rep = rep.get(key, MISSING)
    mine = [None, n]          # the repeat entry registered once, when the loop starts
    rep[key] = mine
    tagged = loop.tagkind != 'tal'
    scope = scope | set(loop.names) if len(loop.names) == 1 else scope
    if tagged:
        out.append('\n')
    for i, item in enumerate(items):
        if tagged and i:
            out.append('\n')
        if len(loop.names) == 1:
            env[loop.names[0]] = item
        else:
            for nm, v in zip(loop.names, item):
                env[nm] = v
        mine[0] = i
        if tagged:
            out.append('<span>')
        out.append(model_probe(env, rep, scope))
        for j, k in enumerate(loop.kids):
            model_nest(k, uid + str(j), env, rep, out, alt_sticky_repeat, scope)
            out.append(model_probe(env, rep, scope))
        if tagged:
            out.append('</span>')
    for nm, v in saved.items():
        if v is MISSING:
            env.pop(nm, None)
        else:
            env[nm] = v
    if alt_sticky_repeat:
        # known mechanism: repeat[name] keeps pointing at the finished inner loop
        mine[0] = n - 1
    else:
        if saved_rep is MISSING:
            rep.pop(key, None)
        else:
            rep[key] = saved_rep


def model_probe(env, rep, scope=frozenset()):
    parts = []
    for nm in ('x', 'y', 'z', 'w'):
        parts.append('%s=%s' % (nm, env.get(nm, 'U') if env.get(nm, 'U') is not None else ''))
        if nm in scope:
            i, n = rep[nm]
            parts.append('#%d/%d/%d' % (i, int(i == n - 1), n))
    return '[' + ' '.join(parts) + ']'


def to_spec(loop):
    return [list(loop.names), loop.kind, loop.n, loop.tagkind, [to_spec(k) for k in loop.kids], loop.form]


def from_spec(spec):
    names, kind, n, tagkind, kids = spec[:5]
    return Loop(tuple(names), kind, n, [from_spec(k) for k in kids], tagkind, spec[5] if len(spec) > 5 else 0)


def nest_case(root):
    """(source, bindings, expected, alternate-model expectation)"""
    src = '<r>' + probe(frozenset()) + ser_nest(root) + probe(frozenset()) + '</r>'
    table = {}
    collect(root, 'L', table)
    res = []
    for alt in (False, True):
        out = ['<r>', model_probe({}, {})]
        env, rep = {}, {}
        model_nest(root, 'L', env, rep, out, alt_sticky_repeat=alt)
        out += [model_probe(env, rep), '</r>']
        res.append(''.join(out))
    return src, table, res[0], res[1]


def nest_shape(loop):
    return (loop.names, loop.kind, min(loop.n, 2), loop.tagkind, loop.form, tuple(nest_shape(k) for k in loop.kids))


def collect(loop, uid, table):
    table['it_' + uid] = (lambda l=loop, u=uid: make_iterable(l, u))
    for j, k in enumerate(loop.kids):
        collect(k, uid + str(j), table)


def reuses_name(loop, outer=frozenset()):
    mine = set(loop.names)
    if mine & outer:
        return True
    return any(reuses_name(k, outer | mine) for k in loop.kids)


def layer_nests(ctx, n):
    from chameleon import PageTemplate
    rng = ctx.rng
    for _ in range(n):
        root = gen_nest(rng, 0, None)
        src, table, want, alt_want = nest_case(root)
        try:
            got = __import__('vlib.routes').routes.make(PageTemplate, src, 8, __import__('vlib.state').state.CTX)(**table)
        except Exception as e:
            got = 'RAISED %s: %s' % (type(e).__name__, str(e).split('\n')[0][:100])
        ctx.mon('nests-compared')
        ctx.case(key=nest_shape(root), nontrivial=root.n > 0,
                 sample={'source': src, 'rendered': got} if len(src) < 400 else None)
        if got != want:
            key = 'nest-output-differs'
            if reuses_name(root) and got == alt_want:
                key = 'repeat-entry-not-restored-after-inner-loop-reusing-name'
            ctx.violation(key, 'loop nest %r\n  rendered %r\n  expected %r' % (src, got, want),
                          {'kind': 'nest', 'spec': to_spec(root)})


# --------------------------------------------------------------------------
def layer_separator(ctx, n):
    from chameleon import PageTemplate
    rng = ctx.rng
    for _ in range(n):
        indent = rng.randint(0, 8)
        depth = rng.randint(0, 2)
        length = rng.choice([0, 1, 2, 3, 5])
        before = rng.choice(['', 'text', 'a\n\nb', '  x'])
        tag = rng.choice(['li', 'tr', 'div', 'x-y'])
        xml = rng.random() < .2
        extra = rng.choice(['', ' class="c"', ' tal:attributes="id i"'])
        body = rng.choice(['${i}', '<b>${i}</b>', 'x\n' + ' ' * (indent + 2) + 'y${i}'])
        rep = '<%s tal:repeat="i xs"%s>%s</%s>' % (tag, extra, body, tag)
        lead = before + '\n' + ' ' * indent
        src = lead + rep + '\n'
        for d in range(depth):
            src = '<w%d>' % d + ('\n' if rng.random() < .5 else '') + src + '</w%d>' % d
        if xml:
            src = '<?xml version="1.0"?>\n' + src
        items = list(range(length))

        def one(i):
            ex = ' id="%d"' % i if 'attributes' in extra else ''
            return '<%s%s%s>%s</%s>' % (tag, extra if 'class' in extra else '', ex, body.replace('${i}', str(i)), tag)
        sep = '\n' + ' ' * indent
        want = src.replace(rep, sep.join(one(i) for i in items))
        try:
            got = __import__('vlib.routes').routes.make(PageTemplate, src, 8, __import__('vlib.state').state.CTX)(xs=items)
        except Exception as e:
            got = 'RAISED %s: %s' % (type(e).__name__, str(e).split('\n')[0][:100])
        ctx.mon('separators-compared')
        ctx.case(key=('sep', indent, depth, length, before, body[:5], xml), nontrivial=length >= 2)
        if got != want:
            ctx.violation('separator', 'source %r with %d items\n  rendered %r\n  expected %r' % (src, length, got, want),
                          {'kind': 'sep', 'src': src, 'n': length})


# --------------------------------------------------------------------------
# (e) overlapping renders: a template rendered from inside a loop body (another template, or the same one
#     recursively through the 'template' builtin) runs a loop over the same variable name; afterwards the
#     interrupted loop must still report its own position
def layer_reentrant(ctx, n):
    from chameleon import PageTemplate
    rng = ctx.rng
    inner = PageTemplate('<tal:i repeat="x xs"><i>${x}:${repeat.x.number}/${repeat.x.length}</i></tal:i>')
    for _ in range(n):
        n_out, n_in = rng.randint(1, 4), rng.randint(0, 5)
        mode = rng.choice(['other-template', 'recursive'])
        pos = '${repeat.x.index}/${repeat.x.length}/${repeat.x.end}/${repeat.x.letter}'
        if mode == 'other-template':
            src = '<r><tal:r repeat="x outer">[${x} %s ${structure: inner(xs=ins)} %s]</tal:r></r>' % (pos, pos)
        else:
            src = ('<r tal:omit-tag="depth"><tal:r repeat="x outer">[${x} %s '
                   '${structure: template(depth=depth + 1, outer=ins, ins=()) if not depth else \'\'} %s]</tal:r></r>' % (pos, pos))
        outer = ['o%d' % i for i in range(n_out)]
        ins = ['n%d' % i for i in range(n_in)]

        def P(i, m):
            return '%d/%d/%d/%s' % (i, m, int(i == m - 1), letter(i))
        if mode == 'other-template':
            mid = ''.join('<i>%s:%d/%d</i>' % (v, j + 1, n_in) for j, v in enumerate(ins))
        else:
            mid = ''.join('[%s %s  %s]' % (v, P(j, n_in), P(j, n_in)) for j, v in enumerate(ins))
        want = '<r>' + ''.join('[%s %s %s %s]' % (v, P(i, n_out), mid, P(i, n_out)) for i, v in enumerate(outer)) + '</r>'
        try:
            got = PageTemplate(src)(outer=outer, ins=ins, inner=inner, depth=0)
        except Exception as e:
            got = 'RAISED %s: %s' % (type(e).__name__, str(e).split('\n')[0][:100])
        ctx.mon('overlapping-renders-compared')
        ctx.case(key=('reentrant', mode, n_out, min(n_in, 3)), nontrivial=n_in > 0)
        if got != want:
            ctx.violation('overlapping-render-disturbs-repeat:' + mode,
                          'template %r with outer=%r ins=%r\n  rendered %r\n  expected %r' % (src, outer, ins, got, want),
                          {'kind': 'reentrant', 'src': src, 'outer': outer, 'ins': ins})



# --------------------------------------------------------------------------
# (f) the iterable expression reads the variable the loop is about to bind (tree and table walking idioms):
#     the expression is evaluated in the scope around the loop; afterwards the outer binding is back
def layer_self_reference(ctx, n):
    from chameleon import PageTemplate
    rng = ctx.rng
    for _ in range(n):
        shape = rng.choice(['x-x', 'n-range-n', 'node-children', 'kv-v', 'arg-x-x'])
        depth_lists = [[rng.randint(0, 9) for _ in range(rng.randint(0, 3))] for _ in range(rng.randint(1, 3))]
        if shape in ('x-x', 'x-x-tagged'):
            tag, attr = ('tal:r', 'repeat') if shape == 'x-x' else ('b', 'tal:repeat')
            src = '<r><tal:o repeat="x xs"><%s %s="x x">[${x}]</%s>(${len(x)})</tal:o></r>' % (tag, attr, tag)
            kw = {'xs': depth_lists}

            def inner(l):
                if shape == 'x-x':
                    return ''.join('[%d]' % v for v in l)
                return '\n'.join('<b>[%d]</b>' % v for v in l)
            want = '<r>' + ''.join(inner(l) + '(%d)' % len(l) for l in depth_lists) + '</r>'
        elif shape == 'arg-x-x':
            src = '<r><tal:r repeat="x x">[${x}]</tal:r>(${len(x)})</r>'
            kw = {'x': depth_lists[0]}
            want = '<r>' + ''.join('[%d]' % v for v in depth_lists[0]) + '(%d)</r>' % len(depth_lists[0])
        elif shape == 'n-range-n':
            k = rng.randint(0, 4)
            src = '<r><tal:r repeat="n range(n)">${n},</tal:r>|${n}</r>'
            kw = {'n': k}
            want = '<r>' + ''.join('%d,' % i for i in range(k)) + '|%d</r>' % k
        elif shape == 'node-children':
            tree = {'name': 'root', 'children': [{'name': 'c%d' % i, 'children': []} for i in range(rng.randint(0, 3))]}
            src = "<r>${node['name']}:<tal:r repeat=\"node node['children']\">${node['name']};</tal:r>/${node['name']}</r>"
            kw = {'node': tree}
            want = '<r>root:' + ''.join('%s;' % c['name'] for c in tree['children']) + '/root</r>'
        else:
            pairs = [('k%d' % i, i) for i in range(rng.randint(0, 3))]
            src = '<r><tal:r repeat="(k, v) v">${k}=${v};</tal:r>|${len(v)}</r>'
            kw = {'v': pairs}
            want = '<r>' + ''.join('%s=%d;' % p for p in pairs) + '|%d</r>' % len(pairs)
        try:
            got = PageTemplate(src)(**kw)
        except Exception as e:
            got = 'RAISED %s: %s' % (type(e).__name__, str(e).split('\n')[0][:100])
        ctx.mon('self-referencing-iterables-compared')
        ctx.case(key=('selfref', shape, len(repr(kw)) % 7), nontrivial=True)
        if got != want:
            ctx.violation('iterable-expression-reading-its-own-loop-variable',
                          'template %r with %r\n  rendered %r\n  expected %r' % (src, kw, got, want), {'kind': 'selfref', 'src': src})


# --------------------------------------------------------------------------
# (g) loop variables named like methods / attributes of the objects involved (dict, list, the repeat item itself)
def layer_variable_names(ctx, n):
    from chameleon import PageTemplate
    rng = ctx.rng
    NAMES_ = ['items', 'values', 'keys', 'get', 'copy', 'update', 'pop', 'clear', 'setdefault', 'index', 'count', 'length', 'number',
              'start', 'end', 'even', 'letter', 'name', 'repeat_', 'i', 'item', 'it', 'line', 'link', 'e', 'n']
    for _ in range(n):
        a, b = rng.sample(NAMES_, 2)
        na, nb = rng.randint(1, 3), rng.randint(0, 3)
        src = ('<r><tal:a repeat="%(a)s xs">[${%(a)s} ${repeat.%(a)s.index}/${repeat[\'%(a)s\'].number}/${repeat.%(a)s.length}'
               '<tal:b repeat="%(b)s ys">(${%(b)s} ${repeat.%(b)s.index}/${repeat.%(b)s.end} ${repeat.%(a)s.number})</tal:b>'
               ' ${repeat.%(a)s.index}/${repeat.%(a)s.end}]</tal:a></r>') % {'a': a, 'b': b}
        xs = ['x%d' % i for i in range(na)]
        ys = ['y%d' % i for i in range(nb)]
        want = '<r>' + ''.join(
            '[%s %d/%d/%d' % (x, i, i + 1, na) + ''.join('(%s %d/%d %d)' % (y, j, int(j == nb - 1), i + 1) for j, y in enumerate(ys)) +
            ' %d/%d]' % (i, int(i == na - 1)) for i, x in enumerate(xs)) + '</r>'
        try:
            got = PageTemplate(src)(xs=xs, ys=ys)
        except Exception as e:
            got = 'RAISED %s: %s' % (type(e).__name__, str(e).split('\n')[0][:100])
        ctx.mon('variable-names-compared')
        ctx.case(key=('names', a, b, na, min(nb, 2)), nontrivial=True)
        if got != want:
            ctx.violation('loop-variable-name-disturbs-repeat', 'template %r with %d x %d items\n  rendered %r\n  expected %r' % (src, na, nb, got, want),
                          {'kind': 'selfref', 'src': src})


def layer_repeat_seen_from_macros(ctx, n):
    """repeat[name] belongs to the loop, not to the text of the loop body: a macro of another template used inside the
    body, and a caller's filler for a slot that a macro repeats, read the position of the loop they run in - also when
    the loop body itself never mentions 'repeat', and when an earlier loop used the same name."""
    from chameleon import PageTemplate
    rng = ctx.rng
    row = PageTemplate('<x><i metal:define-macro="row">[${repeat.item.index}/${repeat.item.number}/${repeat[\'item\'].end}/${repeat.item.letter}:${item}]</i>'
                       '<u metal:define-macro="list"><tal:r repeat="entry es"><b metal:define-slot="cell">d</b></tal:r></u></x>')
    for case in range(n):
        n1, n0 = rng.randint(0, 5), rng.randint(0, 3)
        mode = rng.choice(['macro-reads-caller-loop', 'filler-reads-macro-loop'])
        earlier = rng.random() < .4
        name = 'item' if mode == 'macro-reads-caller-loop' else 'entry'
        pre = '<tal:r repeat="%s first">.</tal:r>' % name if earlier else ''
        if mode == 'macro-reads-caller-loop':
            src = '<r>%s<tal:r repeat="item xs"><i metal:use-macro="lib.macros[\'row\']"/></tal:r></r>' % pre
            want = '<r>%s%s</r>' % ('.' * n0 if earlier else '', ''.join(
                '<i>[%d/%d/%d/%s:%s]</i>' % (i, i + 1, int(i == n1 - 1), letter(i), 'v%d' % i) for i in range(n1)))
        else:
            src = ('<r>%s<u metal:use-macro="lib.macros[\'list\']"><b metal:fill-slot="cell">(${repeat.entry.index}/${repeat.entry.length}/'
                   '${repeat.entry.end}:${entry})</b></u></r>' % pre)
            want = '<r>%s<u>%s</u></r>' % ('.' * n0 if earlier else '', ''.join(
                '<b>(%d/%d/%d:%s)</b>' % (i, n1, int(i == n1 - 1), 'v%d' % i) for i in range(n1)))
        vals = ['v%d' % i for i in range(n1)]
        try:
            got = PageTemplate(src)(lib=row, xs=vals, es=vals, first=list(range(n0)))
        except Exception as e:
            got = 'RAISED %s: %s' % (type(e).__name__, str(e).split('\n')[0][:100])
        ctx.mon('repeat-read-from-macros-compared')
        ctx.case(key=('repeat-from-macro', mode, min(n1, 3), earlier, min(n0, 2)), nontrivial=n1 > 0)
        if got != want:
            ctx.violation('repeat-entry-not-visible-from-macro-or-filler:' + mode, 'template %r with %d items (earlier loop of the same name: %s, %d items): '
                          'rendered %r, expected %r' % (src, n1, earlier, n0, got, want), {'kind': 'frommacro', 'src': src, 'n': n1, 'n0': n0})


def run(ctx):
    monitors.install(ctx, tokalg=False)
    install_repeat_contract(ctx)
    layer_closed_forms(ctx)
    layer_nests(ctx, 150 if ctx.quick else 3000)
    layer_separator(ctx, 60 if ctx.quick else 1500)
    layer_reentrant(ctx, 40 if ctx.quick else 600)
    layer_self_reference(ctx, 30 if ctx.quick else 500)
    layer_variable_names(ctx, 40 if ctx.quick else 600)
    layer_repeat_seen_from_macros(ctx, 30 if ctx.quick else 400)


def replay(data):
    from chameleon import PageTemplate
    if data.get('kind') == 'nest':
        root = from_spec(data['spec'])
        src, table, want, alt = nest_case(root)
        try:
            got = PageTemplate(src)(**table)
        except Exception as e:
            got = 'RAISED %s' % type(e).__name__
        return got != want, 'source   %r\nexpected %r\nrendered %r' % (src, want, got)
    if data.get('kind') == 'sep':
        got = PageTemplate(data['src'])(xs=list(range(data['n'])))
        return True, 'source %r\nrendered %r' % (data['src'], got)
    return True, 'closed-form / contract violation: re-run ./vcheck C08 with the same seed (%r)' % (data,)
