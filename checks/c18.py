"""C18 — template-language markup never leaks; rendering is independent of prefix spelling.

Monitors / oracles (all on real renderings):
  M-out    independent reader finds no attribute/element in the TAL, METAL, I18N or
           meta namespaces (under any prefix bound to those URIs in the source), no
           xmlns declaration of those URIs, no data-<lang>-<statement> attribute;
  spelling one generated program is serialised with default prefixes and then
           re-spelled (renamed prefixes declared on the element itself or any
           ancestor, namespace-element form, data-attribute form - the spelling is
           chosen PER STATEMENT) and every rendering must equal the default one;
  foreign  every element carries a unique static id; the reader must find, on each
           rendered start tag with that id, exactly the element's foreign
           attributes (incl. data-*, data-x-y, foreign-prefixed and their xmlns
           declarations) in written order;
  option   enabling enable_data_attributes must not change the rendering of a
           template that uses no data-<lang>- attribute.
"""
import random
import re

from vlib import monitors, reader

PROP = 'C18'
TITLE = 'no leak; prefix independence'
DEBUG_SHARDS = True      # two of sixteen shards run the library in its debug mode (vlib/runner.py)
LEVEL = 'exploration'
SHARDS = {'quick': 16, 'thorough': 16}
FLOOR = {'quick': 1000, 'thorough': 8000}
REQUIRED_MONITORS = {'M-out': 3000, 'spellings-compared': 2000, 'foreign-checked': 2000, 'data-option-compared': 500,
                     'prefix-rebinding-compared': 500, 'same-tag-two-bindings-compared': 300}
RULE = ('programs = element trees (depth<=3) with 0..3 statements per element from {tal: content, replace, condition, '
        'define, omit-tag, attributes, repeat, on-error, switch, comment; i18n: translate, domain, attributes; meta: '
        'interpolation; metal: define-macro, define-slot} and 0..3 foreign attributes from {class, data-foo, data-x-y, f:a '
        '(declared), title, xml:lang, u:b (undeclared, restricted_namespace off)}; each program rendered in 1 + 4 spellings '
        '(per-statement choice among default prefix / renamed prefix / data attribute; declarations on the element itself, '
        'an ancestor or the root; namespace-element form for unconditionally omitted tags). Non-trivial iff >=1 language '
        'attribute or element; distinct by (statement kinds per element, spelling kinds used, declaration placement).')
ASSUMPTIONS = ['html.parser + a strict tag scanner as the independent reader']

NS = {'tal': 'http://xml.zope.org/namespaces/tal', 'metal': 'http://xml.zope.org/namespaces/metal',
      'i18n': 'http://xml.zope.org/namespaces/i18n', 'meta': 'http://xml.zope.org/namespaces/meta'}
ALT = {'tal': 't2', 'metal': 'mm', 'i18n': 'ii', 'meta': 'me'}
STM = [('tal', 'content', 'x'), ('tal', 'replace', 'x'), ('tal', 'condition', 'c'), ('tal', 'define', 'q 1'),
       ('tal', 'omit-tag', ''), ('tal', 'omit-tag', 'c'), ('tal', 'attributes', 'k x'), ('tal', 'repeat', 'i (1,2)'),
       ('i18n', 'translate', ''), ('i18n', 'domain', 'd'), ('meta', 'interpolation', 'true'),
       ('meta', 'interpolation', 'false'), ('meta', 'interpolation', 'off'), ('meta', 'interpolation', 'on'),
       ('tal', 'on-error', 'string:e'), ('tal', 'switch', 'x'), ('i18n', 'attributes', 'title'),
       ('tal', 'comment', 'blah'), ('metal', 'define-macro', 'M'), ('metal', 'define-slot', 'S'),
       ('tal', 'content', 'structure sx'), ('i18n', 'context', 'cx'),
       # a conditional omit-tag that is false; statement values written with character entities
       ('tal', 'omit-tag', 'not c'), ('tal', 'condition', 'c &lt; 3'), ('tal', 'content', "'fish &amp; chips'"),
       ('tal', 'replace', "structure '&lt;b&gt;y&lt;/b&gt;'"), ('tal', 'define', "q 'a&quot;b'")]
FOREIGN = [('class', 'k'), ('data-foo', '2'), ('data-x-y', '7'), ('f:a', '3'), ('title', 'T'), ('xml:lang', 'en'),
           ('aria-label', 'l'), ('DATA-UP', '1'), ('b', '8'),
           # ordinary data attributes whose second word is a prefix known at that point but not a template language
           ('data-xml-lang', 'de'), ('data-xmlns-x', 'u'), ('data-f-icon', 'i'), ('data-tal', 'w'), ('data-talx-content', 'v'),
           ('data-data-tal-content', 'dd')]


class El:
    def __init__(self, eid, tag, stmts, foreign, kids, nstag=False, nsname='tal'):
        self.eid, self.tag, self.stmts, self.foreign, self.kids = eid, tag, stmts, foreign, kids
        self.nstag = nstag      # element of a template-language namespace (its tag is never rendered)
        self.nsname = nsname    # which one: tal / metal / i18n


def gen(rng, depth, counter, allow_undeclared):
    stmts = rng.sample(STM, rng.choice([0, 1, 1, 2, 2, 3]))
    uniq = []
    for st in stmts:                      # one statement of a kind per element
        if (st[0], st[1]) not in [(u[0], u[1]) for u in uniq]:
            uniq.append(st)
    stmts = uniq
    names = [s[1] for s in stmts]
    # keep the program valid
    def drop(n):
        nonlocal stmts
        stmts = [s for s in stmts if s[1] != n]
    if names.count('content') > 1:
        stmts = [s for i, s in enumerate(stmts) if s[1] != 'content' or i == names.index('content')]
    if names.count('omit-tag') > 1:
        stmts = [s for i, s in enumerate(stmts) if s[1] != 'omit-tag' or i == names.index('omit-tag')]
    if 'content' in names and 'replace' in names:
        drop('replace')
    if ('content' in names or 'replace' in names) and 'translate' in names:
        drop('translate')
    if 'define-macro' in names:
        stmts = [(a, b, 'M%d' % counter[0]) if b == 'define-macro' else (a, b, c) for a, b, c in stmts]
    if 'define-slot' in names:
        stmts = [(a, b, 'S%d' % counter[0]) if b == 'define-slot' else (a, b, c) for a, b, c in stmts]
    foreign = rng.sample(FOREIGN, rng.randint(0, 3))
    if allow_undeclared and rng.random() < .3:
        foreign.append(('u:b', '9'))       # may stand next to a plain b="8": same local name, no namespace of its own
    if rng.random() < .1:
        # a prefix bound to a URI that merely resembles a template namespace (padded with white space, other letter case):
        # somebody else's namespace - declaration and attributes are preserved, nothing is executed
        uri = rng.choice([' http://xml.zope.org/namespaces/tal', 'http://xml.zope.org/namespaces/tal ', 'http://xml.zope.org/namespaces/TAL',
                          'http://xml.zope.org/namespaces/i18n/'])
        foreign = foreign + [('xmlns:pd', uri), ('pd:' + rng.choice(['content', 'omit-tag', 'translate']), 'kept')]
    if foreign and rng.random() < .08:
        foreign.append((foreign[0][0], 'again'))      # tag soup: the same attribute written twice
    counter[0] += 1
    eid = 'e%d' % counter[0]
    kids = []
    for _ in range(rng.randint(0, 2)):
        if depth < 2 and rng.random() < .6:
            kids.append(gen(rng, depth + 1, counter, allow_undeclared))
        else:
            kids.append(rng.choice(['t', ' ${x} ', 'u', '\n  ']))
    if any(s[1] == 'on-error' for s in stmts) and rng.random() < .6:
        kids.append(' ${1/0} ')        # the body fails: the on-error fallback is what gets rendered
    nstag = rng.random() < (.4 if any(s[1] == 'on-error' for s in stmts) else .2) and not any(s[1] == 'attributes' and s[0] == 'tal' for s in stmts)
    if nstag:
        # the only attribute of another kind such an element may carry: a default-namespace declaration for its content
        foreign = [('xmlns', 'http://www.w3.org/1999/xhtml')] if rng.random() < .25 else []
    return El(eid, rng.choice(['p', 'div', 'b', 'span']), stmts, foreign, kids, nstag, rng.choice(['tal', 'tal', 'metal', 'i18n']))


def serialise(n, plan, path=()):
    """plan: dict with per-element decisions: plan[eid] = {'spell': {stmt_index: kind}, 'decl_here': set(ns),
    'nselem': bool}; plan['root_decl'] = set(ns) declared on the root; ancestors declared via 'decl_here'."""
    if isinstance(n, str):
        return n
    p = plan.get(n.eid, {})
    nselem = n.nstag
    unprefixed = p.get('unprefixed', False)
    # an element of the tal: namespace takes unprefixed attributes as statements: no id marker there
    # (its tag is omitted anyway); keep a placeholder so that the attribute permutation is unchanged
    attrs = ['id="%s"' % n.eid]
    for i, (ns, name, val) in enumerate(n.stmts):
        kind = p.get('spell', {}).get(i, 'default')
        if nselem and unprefixed and ns == n.nsname:
            attrs.append('%s="%s"' % (name, val))
        elif kind == 'default':
            attrs.append('%s:%s="%s"' % (ns, name, val))
        elif kind == 'renamed':
            attrs.append('%s:%s="%s"' % (ALT[ns], name, val))
        else:
            attrs.append('data-%s-%s="%s"' % (ns, name, val))
    for k, v in n.foreign:
        attrs.append('%s="%s"' % (k, v))
    order = p.get('order')
    if order:
        attrs = [attrs[0]] + [attrs[1:][j] for j in order if j < len(attrs) - 1]
    for ns in sorted(p.get('decl_here', ())):
        attrs.append('xmlns:%s="%s"' % (ALT[ns], NS[ns]))
    if p.get('is_root'):
        attrs.append('xmlns:f="http://foreign"')
    tag = n.tag
    if nselem:
        tag = '%s:%s' % (p.get('nselem_prefix', n.nsname), n.tag)
        attrs = attrs[1:]
        if p.get('defaultns'):
            # the element is put into the template namespace by a default-namespace declaration on its own tag
            tag = n.tag
            attrs.append('xmlns="%s"' % NS[n.nsname])
    return '<%s%s>%s</%s>' % (tag, ''.join(' ' + a for a in attrs), ''.join(serialise(k, plan) for k in n.kids), tag)


def elements(n):
    if isinstance(n, str):
        return
    yield n
    for k in n.kids:
        yield from elements(k)


def make_plan(rng, root, mode, data_ok):
    """mode 'default' -> everything default; 'mixed' -> random per statement."""
    plan = {root.eid: {'is_root': True}}
    declared = {}   # eid -> set(ns) visible

    def walk(n, visible, perm_seed):
        p = plan.setdefault(n.eid, {})
        # same attribute order in every spelling
        k = len(n.stmts) + len(n.foreign)
        order = list(range(k))
        random.Random(perm_seed + n.eid).shuffle(order)
        p['order'] = order
        here = set()
        if mode == 'mixed':
            spell = {}
            if n.nstag:
                p['unprefixed'] = rng.random() < .6
                if rng.random() < .3 and not n.foreign and all(isinstance(k, str) for k in n.kids):
                    p['defaultns'] = True
                    p['unprefixed'] = True
                if rng.random() < .5:
                    p['nselem_prefix'] = ALT[n.nsname]
                    if n.nsname not in visible:
                        here.add(n.nsname)
            for i, (ns, name, val) in enumerate(n.stmts):
                kind = rng.choice(['default', 'renamed', 'renamed', 'data'] if data_ok else ['default', 'renamed'])
                spell[i] = kind
                if kind == 'renamed' and ns not in visible and ns not in here:
                    # declare on this element, or it will be declared on the root
                    if rng.random() < .5:
                        here.add(ns)
                    else:
                        plan[root.eid].setdefault('decl_here', set()).add(ns)
            p['spell'] = spell
        if here:
            p.setdefault('decl_here', set()).update(here)
        vis = visible | here
        for kid in n.kids:
            if not isinstance(kid, str):
                walk(kid, vis, perm_seed)
    walk(root, set(), str(rng.random()))
    return plan


LANG_URIS = set(NS.values())


def leak_scan(out, src_prefixes):
    """M-out: names of attributes / elements in the output that belong to the template language."""
    bad = []
    for tag, attrs, raw in reader.start_tags(out):
        if ':' in tag and tag.split(':')[0] in src_prefixes:
            bad.append('element ' + tag)
        for name, q, val in attrs:
            if ':' in name and name.split(':')[0] in src_prefixes:
                bad.append('attribute ' + name)
            if name.startswith('xmlns') and val in LANG_URIS:
                bad.append('declaration ' + name)
            if re.match(r'data-(tal|metal|i18n|meta)-', name):
                bad.append('data attribute ' + name)
    for m in re.finditer(r'</([\w-]+):', out):
        if m.group(1) in src_prefixes:
            bad.append('end tag ' + m.group())
    return bad


def render(src, **cfg):
    from chameleon import PageTemplate
    from vlib import routes, state
    try:
        return routes.make(PageTemplate, src, 6, state.CTX, **cfg)(x='X<', c=1, sx='<i>S</i>')
    except Exception as e:
        return 'RAISED %s: %s' % (type(e).__name__, str(e).split('\n')[0][:120])


def check_foreign(ctx, root, out, src):
    tags = {}
    for tag, attrs, raw in reader.start_tags(out):
        for name, q, val in attrs:
            if name == 'id' and val and re.fullmatch(r'e\d+', val):
                tags.setdefault(val, []).append(attrs)
    for n in elements(root):
        for attrs in tags.get(n.eid, []):
            ctx.mon('foreign-checked')
            got = [(k, v) for k, q, v in attrs if k not in ('id', 'k') and not (k == 'title' and not any(f[0] == 'title' for f in n.foreign))]
            want = list(n.foreign)
            if n.eid == root.eid:
                want = want + [('xmlns:f', 'http://foreign')]
            p_order = None
            # written order: recover from the source start tag
            m = re.search(r'<[\w:-]+ id="%s"[^>]*>' % n.eid, src)
            written = [(k, v) for k, q, v in reader.start_tags(m.group())[0][1]] if m else []
            want_in_order = [kv for kv in written if kv in want]
            names = [s_[1] for s_ in n.stmts]
            if 'on-error' in names and 'attributes' in [s_[1] for s_ in n.stmts if s_[0] == 'i18n']:
                # the fallback start tag carries the static attributes only; a translated attribute is not one (C13)
                got = [kv for kv in got if kv[0] != 'title']
                want_in_order = [kv for kv in want_in_order if kv[0] != 'title']
            if got != want_in_order:
                return 'element %s: foreign attributes rendered %r, written %r' % (n.eid, got, want_in_order)
    return None


def shape(root, plan):
    out = []
    for n in elements(root):
        p = plan.get(n.eid, {})
        out.append((tuple(sorted(s[1] for s in n.stmts)), tuple(sorted(set(p.get('spell', {}).values()))),
                    bool(p.get('decl_here')), n.nstag, bool(p.get('unprefixed')), tuple(sorted(k for k, v in n.foreign))))
    return tuple(out)


def layer_prefix_rebinding(ctx, n):
    """A prefix bound to a foreign namespace by an ancestor and re-bound to a template namespace on single
    elements (paired or self-closing): the re-binding must end with that element."""
    rng = ctx.rng
    for case in range(n):
        sibs = []
        for _ in range(rng.randint(2, 5)):
            k = rng.choice(['F', 'S', 'P', 'N', 'O'])
            stmt = rng.choice([('condition', 'c'), ('content', 'x'), ('omit-tag', ''), ('attributes', 'k x'), ('define', 'q 1')])
            if k == 'O':
                # the re-binding element contains elements left open (tag soup: <br>, <img ...> without end tag) that its own
                # end tag closes: the re-binding still ends there
                stmt = rng.choice([('condition', 'c'), ('attributes', 'k x'), ('define', 'q 1')])
                ctx.mon('rebinding-elements-closing-open-children')
            sibs.append((k, stmt))
        ns = rng.choice(['tal', 'tal', 'i18n'])
        if ns == 'i18n':
            sibs = [(k, ('domain', 'd')) for k, st in sibs]

        def ser(respelt):
            out = '<root xmlns:q="http://foreign-q">'
            for i, (k, (name, val)) in enumerate(sibs):
                if k == 'F':
                    out += '<i q:fa="%d" id="f%d">t</i>' % (i, i)
                elif k == 'N':
                    out += '<n id="n%d"><q:el q:fa="%d">u</q:el></n>' % (i, i)
                else:
                    pre = 'q' if respelt else ns
                    decl = ' xmlns:q="%s"' % NS[ns] if respelt else ''
                    if k == 'S':
                        out += '<br id="s%d"%s %s:%s="%s"/>' % (i, decl, pre, name, val)
                    elif k == 'O':
                        out += '<div id="o%d"%s %s:%s="%s">%st</div>' % (i, decl, pre, name, val, ['<br>', '<img src="i.png"><br>', '<p>a<b>', '<input name="n">'][i % 4])
                    else:
                        out += '<u id="p%d"%s %s:%s="%s">old</u>' % (i, decl, pre, name, val)
            return out + '</root>'
        base_src, src = ser(False), ser(True)
        base = render(base_src)
        out = render(src)
        ctx.mon('prefix-rebinding-compared')
        ctx.mon('M-out')
        ctx.case(key=('rebind', tuple(k for k, st in sibs), tuple(st[0] for k, st in sibs), ns), nontrivial=True)
        lk = leak_scan(out, set(NS) | set(ALT.values())) if not out.startswith('RAISED') else []
        if base.startswith('RAISED'):
            ctx.violation('base-' + base.split(':')[0].replace(' ', '-'), 'default spelling %r: %s' % (base_src, base), {'src': base_src})
        elif out != base or lk:
            ctx.violation('prefix-rebinding-does-not-end-with-its-element',
                          're-binding a foreign prefix on single elements changes the rendering\n  default %r\n   -> %r\n  respelt %r\n   -> %r'
                          % (base_src, base, src, out), {'src': src, 'base_src': base_src, 'cfg': {}})



def layer_same_tag_text_under_two_bindings(ctx, n):
    """The very same tag text stands under different bindings of its prefix in one document (a foreign namespace here,
    a template namespace there): each occurrence is read under the binding in force where it stands."""
    rng = ctx.rng
    for case in range(n):
        ns = rng.choice(['tal', 'i18n', 'metal'])
        stmt, val, body = {'tal': rng.choice([('content', "'X'", 'X'), ('omit-tag', '', None), ('replace', "'R'", 'R')]),
                           'i18n': ('domain', 'd', 'old'), 'metal': ('define-macro', 'mm%d' % case, 'old')}[ns]
        tag = rng.choice(['<item t:%s="%s">old</item>', '<item t:%s="%s"\n   class="c">old</item>'])
        tagtext = tag % (stmt, val)
        secs = [rng.choice(['foreign', 'template']) for _ in range(rng.randint(2, 4))]
        if len(set(secs)) == 1:
            secs[0] = 'foreign' if secs[0] == 'template' else 'template'
        src = '<root xmlns:t="urn:example:outer">'
        want = '<root xmlns:t="urn:example:outer">'
        for i, kind in enumerate(secs):
            soup = rng.choice(['', '', '<br>', '<img src="i.png">', '<hr><br>'])      # elements left open inside the section
            if kind == 'foreign':
                src += '<a id="s%d" xmlns:t="urn:example:tracking">%s%s</a>' % (i, soup, tagtext)
                want += '<a id="s%d" xmlns:t="urn:example:tracking">%s%s</a>' % (i, soup, tagtext)
            else:
                src += '<b id="s%d" xmlns:t="%s">%s%s</b>' % (i, NS[ns], soup, tagtext)
                plain = tagtext.replace(' t:%s="%s"' % (stmt, val), '')
                if stmt == 'content':
                    plain = plain.replace('old', 'X')
                elif stmt == 'replace':
                    plain = 'R'
                elif stmt == 'omit-tag':
                    plain = 'old'
                want += '<b id="s%d">%s%s</b>' % (i, soup, plain)
        # after the sections the outer binding is in force again
        src += tagtext + '</root>'
        want += tagtext + '</root>'
        got = render(src)
        ctx.mon('same-tag-two-bindings-compared')
        ctx.case(key=('two-bindings', ns, stmt, tuple(secs), '\n' in tag), nontrivial=True)
        if got != want:
            ctx.violation('tag-read-under-the-binding-of-another-occurrence', 'template %r\n  rendered %r\n  expected %r' % (src, got, want), {'src': src, 'cfg': {}})


def layer_case_variant_names(ctx, n):
    """XML names are case-sensitive: a prefix that differs from a template prefix only in case is another prefix.  One start
    tag carries a template statement (or declaration) and an ordinary attribute (or declaration) whose name is its case
    variant: the first is executed and dropped, the second is copied."""
    rng = ctx.rng
    for case in range(n):
        ns = rng.choice(['tal', 'i18n', 'metal'])
        a, b = rng.choice([('T', 't'), ('t', 'T'), ('Tal', 'tal'), ('x', 'X'), ('I18N', 'i18n')])
        stmt, val, new = {'tal': rng.choice([('content', "'X'", 'X'), ('omit-tag', 'False', 'old'), ('condition', 'True', 'old')]),
                          'i18n': ('domain', 'd', 'old'), 'metal': ('define-macro', 'cv%d' % case, 'old')}[ns]
        decls = [' xmlns:%s="%s"' % (a, NS[ns]), ' xmlns:%s="urn:example:other"' % b]
        attrs = [' %s:%s="%s"' % (a, stmt, val), ' %s:%s="kept"' % (b, stmt), ' %s:other="o"' % b]
        rng.shuffle(decls)
        rng.shuffle(attrs)
        on_item = rng.random() < .4        # declarations on the element itself
        src = '<doc%s><item%s%s>old</item></doc>' % ('' if on_item else ''.join(decls), ''.join(decls) if on_item else '', ''.join(attrs))
        kd = [d for d in decls if 'urn:example:other' in d]
        ka = [x for x in attrs if not x.startswith(' %s:%s=' % (a, stmt))]
        want = '<doc%s><item%s%s>%s</item></doc>' % ('' if on_item else ''.join(kd), ''.join(kd) if on_item else '', ''.join(ka), new)
        got = render(src)
        ctx.mon('case-variant-names-compared')
        ctx.case(key=('case-variant', ns, stmt, a, b, on_item, tuple(attrs)), nontrivial=True)
        if got != want:
            ctx.violation('name-differing-only-in-case-treated-as-the-template-name', 'template %r\n  rendered %r\n  expected %r' % (src, got, want),
                          {'src': src, 'cfg': {}})


def layer_attrs_builtin(ctx, n):
    """`attrs` (the attributes of the element as written) is the one place where a template can look at its own start
    tag: rendered whole - through tal:attributes or ${...} - it never carries a template statement or a declaration of
    a template namespace, whatever kind of element it is read on (also the element that uses or defines a macro)."""
    rng = ctx.rng
    for case in range(n):
        pre = {k: rng.choice([k, ALT[k]]) for k in NS}
        decls = ''.join(' xmlns:%s="%s"' % (pre[k], NS[k]) for k in ('tal', 'metal', 'i18n'))
        kind = rng.choice(['plain', 'statements', 'use-macro', 'define-macro', 'fill-slot', 'use-macro', 'extend'])
        own = rng.random() < .6 and kind != 'fill-slot'        # the declarations stand on the element itself
        static = rng.choice([' class="c" id="e%d"' % case, ' title="t"', ' class="c" xmlns:f="urn:f" f:a="1"'])
        show = '<b %s:attributes="pa"/>${sorted(pa)}' % pre['tal']
        T, M, I = pre['tal'], pre['metal'], pre['i18n']
        lib = '<m%s %s:define-macro="lib%d"><i %s:define-slot="s">d</i></m>' % (' xmlns:%s="%s"' % (M, NS['metal']) if own else '', M, case, M)
        if kind == 'plain':
            el = '<div%s%%s %s:define="pa attrs">%s</div>' % (static, T, show)
        elif kind == 'statements':
            el = '<div%s%%s %s:define="pa attrs" %s:condition="c" %s:domain="d" %s:attributes="k x">%s</div>' % (static, T, T, I, T, show)
        elif kind == 'use-macro':
            el = '<div%s%%s %s:use-macro="template.macros[\'lib%d\']" %s:define="pa attrs"><u %s:fill-slot="s">%s</u></div>' % (static, M, case, T, M, show)
        elif kind == 'define-macro':
            el = '<div%s%%s %s:define-macro="dm%d" %s:define="pa attrs">%s</div>' % (static, M, case, T, show)
        elif kind == 'fill-slot':
            el = '<div %s:use-macro="template.macros[\'lib%d\']"><u%s%%s %s:fill-slot="s" %s:define="pa attrs">%s</u></div>' % (M, case, static, M, T, show)
        else:
            el = '<div%s%%s %s:define-macro="ex%d" %s:extend-macro="template.macros[\'lib%d\']" %s:define="pa attrs"><u %s:fill-slot="s">%s</u></div>' % (
                static, M, case, M, case, T, M, show)
        src = '<root%s>%s%s</root>' % ('' if own else decls, lib, el % (decls if own else ''))
        out = render(src)
        ctx.mon('attrs-builtin-rendered')
        ctx.case(key=('attrs', kind, own, static, tuple(sorted(pre.items()))), nontrivial=True)
        if out.startswith('RAISED'):
            ctx.violation('attrs-builtin-' + out.split(':')[0].replace(' ', '-'), 'template %r: %s' % (src, out), {'src': src, 'cfg': {}})
            continue
        lk = leak_scan(out, set(NS) | set(ALT.values()))
        text_leak = [u for u in LANG_URIS if u in out] + [w for w in ('define-macro', 'use-macro', 'fill-slot', 'extend-macro', ':define', ':attributes') if w in out]
        if lk or text_leak:
            ctx.violation('template-markup-visible-through-attrs', 'template %r\n  rendered %r\n  template markup in the output: %r' % (src, out, lk + text_leak),
                          {'src': src, 'cfg': {}})


def layer_fallback_of_namespace_elements(ctx, n):
    """An element of a template namespace has no tag in the output - not when it renders normally, and not when its
    tal:on-error fallback is rendered in its place."""
    rng = ctx.rng
    for case in range(n):
        ns = rng.choice(['tal', 'metal', 'tal', 'i18n'])
        pre = rng.choice([ns, ALT[ns], 'default'])
        fails = rng.random() < .7
        body = 'b ${1/0} c' if fails else 'b ${x} c'
        onerr = rng.choice(["string:E", "'E'", "structure string:<i>E</i>"])
        if pre == 'default':
            el = '<block xmlns="%s" on-error="%s">%s</block>' % (NS[ns], onerr, body) if ns == 'tal' else None
        else:
            t = pre if pre != ns or ns == 'tal' else ns
            talp = pre if ns == 'tal' else 'tal'
            el = '<%s:block %s:on-error="%s">%s</%s:block>' % (pre, talp, onerr, body, pre)
        if el is None:
            continue
        decl = '' if pre in (ns, 'default') else ' xmlns:%s="%s"' % (pre, NS[ns])
        src = '<root%s>[%s]</root>' % (decl, el)
        want = '<root>[%s]</root>' % (('<i>E</i>' if 'structure' in onerr else 'E') if fails else 'b X&lt; c')
        got = render(src)
        ctx.mon('namespace-element-fallbacks-compared')
        ctx.case(key=('ns-fallback', ns, pre, fails, onerr), nontrivial=True)
        if got != want:
            ctx.violation('namespace-element-tag-in-the-fallback', 'template %r\n  rendered %r\n  expected %r' % (src, got, want), {'src': src, 'cfg': {}})


def layer_data_prefix_scope(ctx, n):
    """data-<prefix>-<name> is a statement exactly where <prefix> is bound to a template namespace; outside that element
    the same attribute text is an ordinary data attribute (option enable_data_attributes)."""
    rng = ctx.rng
    for case in range(n):
        pre = rng.choice(['t', 'x', 'my'])
        parts, wants = [], []
        for i in range(rng.randint(2, 4)):
            if rng.random() < .5:
                parts.append('<a data-%s-id="%d" data-%s-content="kept">o%d</a>' % (pre, i, pre, i))
                wants.append('<a data-%s-id="%d" data-%s-content="kept">o%d</a>' % (pre, i, pre, i))
            else:
                parts.append('<div xmlns:%s="%s"><b data-%s-content="x" data-other-id="%d">old</b></div>' % (pre, NS['tal'], pre, i))
                wants.append('<div><b data-other-id="%d">X&lt;</b></div>' % i)
        src = '<root>' + ''.join(parts) + '</root>'
        want = '<root>' + ''.join(wants) + '</root>'
        got = render(src, enable_data_attributes=True)
        ctx.mon('data-prefix-scopes-compared')
        ctx.case(key=('data-scope', pre, tuple(p[:2] for p in parts)), nontrivial=True)
        if got != want:
            ctx.violation('data-attribute-read-under-the-binding-of-another-element', 'template %r\n  rendered %r\n  expected %r' % (src, got, want),
                          {'src': src, 'cfg': {'enable_data_attributes': True}})


def layer_load_chain_options(ctx, n):
    """Pages (file templates) of one directory that pull in a shared template through load:, created with and
    without enable_data_attributes, in every order and all kept alive: each page's own option decides how the shared
    template it loads is read (data-tal-* statements executed and removed / left alone as ordinary attributes)."""
    import os
    import shutil
    import tempfile
    from chameleon import PageTemplateFile
    rng = ctx.rng
    tmp = tempfile.mkdtemp(prefix='c18l_')
    try:
        for case in range(n):
            d = os.path.join(tmp, 'k%d' % case)
            os.makedirs(d)
            with open(os.path.join(d, 'shared.pt'), 'w') as f:
                f.write('<ul><li data-tal-repeat="i (1, 2)" data-tal-content="i" data-x-y="k">d</li></ul>')
            pages = []
            for k in range(rng.randint(2, 4)):
                name = 'page%d.pt' % k
                with open(os.path.join(d, name), 'w') as f:
                    f.write('<x tal:define="s load: shared.pt">P%d${structure: s()}</x>' % k)
                pages.append((name, rng.random() < .5, k))
            ts = [(name, on, k, PageTemplateFile(os.path.join(d, name), enable_data_attributes=on)) for name, on, k in pages]
            hist = []
            for step in range(rng.randint(2, 6)):
                name, on, k, t = rng.choice(ts)
                try:
                    got = t()
                except Exception as e:
                    got = 'RAISED %s' % type(e).__name__
                want = ('<x>P%d<ul><li data-x-y="k">1</li>\n<li data-x-y="k">2</li></ul></x>' if on else
                        '<x>P%d<ul><li data-tal-repeat="i (1, 2)" data-tal-content="i" data-x-y="k">d</li></ul></x>') % k
                hist.append('%s(enable_data_attributes=%s)' % (name, on))
                ctx.mon('load-chain-option-steps')
                if got != want and got.replace('</li>\n<li', '</li><li') != want.replace('</li>\n<li', '</li><li'):
                    ctx.violation('option-of-the-loading-page-not-applied-to-the-loaded-template',
                                  'pages %r, history %r: rendered %r, expected %r' % ([(a, b) for a, b, c in pages], hist, got, want), {'kind': 'loadchain'})
                    break
            ctx.case(key=('loadchain', tuple(on for _, on, _ in pages), tuple(hist)), nontrivial=len({on for _, on, _ in pages}) > 1)
    finally:
        shutil.rmtree(tmp, ignore_errors=True)



def run(ctx):
    monitors.install(ctx, tokalg=False)
    layer_load_chain_options(ctx, 10 if ctx.quick else 150)
    layer_same_tag_text_under_two_bindings(ctx, 30 if ctx.quick else 400)
    layer_case_variant_names(ctx, 30 if ctx.quick else 400)
    layer_attrs_builtin(ctx, 30 if ctx.quick else 400)
    layer_data_prefix_scope(ctx, 25 if ctx.quick else 300)
    layer_fallback_of_namespace_elements(ctx, 25 if ctx.quick else 300)
    rng = ctx.rng
    n = 250 if ctx.quick else 4000
    for case in range(n):
        allow_undeclared = rng.random() < .2
        counter = [0]
        root = El('e0', 'root', [], [], [gen(rng, 0, counter, allow_undeclared) for _ in range(rng.randint(1, 2))])
        cfg = {'restricted_namespace': False} if allow_undeclared else {}
        base_plan = make_plan(random.Random(case), root, 'default', False)
        base_src = serialise(root, base_plan)
        base = render(base_src, **cfg)
        nontrivial = any(n_.stmts for n_ in elements(root))
        ctx.case(key=('base', shape(root, base_plan)), nontrivial=nontrivial,
                 sample={'source': base_src, 'rendered': base} if case < 2 else None)
        if base.startswith('RAISED'):
            ctx.cover('base', base.split(':')[0])
            if 'AssertionError' in base or 'LanguageError' in base or 'switch' in base:
                continue     # invalid statement combination generated (e.g. case placement); not a case
            ctx.violation('base-' + base.split(':')[0].replace(' ', '-'), 'default spelling %r: %s' % (base_src, base),
                          {'src': base_src, 'cfg': cfg})
            continue
        prefixes = set(NS) | set(ALT.values())
        ctx.mon('M-out')
        lk = leak_scan(base, prefixes)
        if lk:
            ctx.violation('leak-default-spelling', 'template %r rendered %r: leaked %r' % (base_src, base, lk),
                          {'src': base_src, 'cfg': cfg})
        why = check_foreign(ctx, root, base, base_src)
        if why:
            ctx.violation('foreign-attribute-not-preserved', 'template %r rendered %r: %s' % (base_src, base, why),
                          {'src': base_src, 'cfg': cfg})
        # data-attribute option must leave ordinary templates alone
        got = render(base_src, enable_data_attributes=True, **cfg)
        ctx.mon('data-option-compared')
        if got != base:
            has_foreign_dash = any(k.lower().startswith('data-') and k.count('-') >= 2 for n_ in elements(root) for k, v in n_.foreign)
            key = 'data-option-changes-ordinary-template'
            if got.startswith('RAISED KeyError') and has_foreign_dash:
                key = 'data-option-foreign-data-x-y-keyerror'
            ctx.violation(key, 'enable_data_attributes changed %r:\n  off %r\n  on  %r' % (base_src, base, got),
                          {'src': base_src, 'cfg': dict(cfg, enable_data_attributes=True), 'base_src': base_src})
        # re-spellings
        for v in range(4):
            data_ok = v % 2 == 1
            plan = make_plan(rng, root, 'mixed', data_ok)
            # keep the attribute permutation of the base
            for eid, p in plan.items():
                p['order'] = base_plan.get(eid, {}).get('order')
            src = serialise(root, plan)
            vcfg = dict(cfg)
            if data_ok:
                vcfg['enable_data_attributes'] = True
            out = render(src, **vcfg)
            ctx.mon('spellings-compared')
            ctx.mon('M-out')
            ctx.case(key=('spelling', shape(root, plan)), nontrivial=nontrivial)
            kinds = set(k for p in plan.values() for k in p.get('spell', {}).values())
            lk = leak_scan(out, prefixes) if not out.startswith('RAISED') else []
            if lk:
                ctx.violation(classify_spelling(root, plan, 'leak'), 'spelling %r rendered %r: leaked %r' % (src, out, lk),
                              {'src': src, 'cfg': vcfg, 'base_src': base_src})
            elif out != base:
                ctx.violation(classify_spelling(root, plan, 'differs' if not out.startswith('RAISED') else out.split(':')[0].replace(' ', '-')),
                              're-spelling changes the rendering\n  default %r\n   -> %r\n  respelt %r\n   -> %r' % (
                                  base_src, base, src, out), {'src': src, 'cfg': vcfg, 'base_src': base_src})
    _after_run(ctx)


def classify_spelling(root, plan, what):
    # known mechanism: a data-attribute statement and another attribute after it on the SAME element
    mixed_on_one = False
    for n in elements(root):
        p = plan.get(n.eid, {})
        kinds = list(p.get('spell', {}).values())
        if 'data' in kinds:
            mixed_on_one = True
    return ('data-attribute-on-element-misaligns-drop-list:' if mixed_on_one else 'respelling-') + what


def _after_run(ctx):
    layer_prefix_rebinding(ctx, 60 if ctx.quick else 1200)


def replay(data):
    cfg = data.get('cfg', {})
    out = render(data['src'], **cfg)
    text = 'source %r cfg %r\nrendered %r' % (data['src'], cfg, out)
    still = bool(leak_scan(out, set(NS) | set(ALT.values()))) or out.startswith('RAISED')
    if data.get('base_src'):
        base = render(data['base_src'], **{k: v for k, v in cfg.items() if k != 'enable_data_attributes'})
        text += '\ndefault spelling %r\nrendered %r' % (data['base_src'], base)
        still = still or base != out
    return still, text
