import sys, os, re
sys.path.insert(0, '/repo/src')
from chameleon import PageTemplateFile, PageTemplate
from chameleon.exc import RenderError
d = '/tmp/exp/e12'
files = {
 'inner.pt': '<div>\n  <p metal:define-macro="m">é text\n     <b tal:content="f(1)">x</b> ${f(2)}\n  <i metal:define-slot="s">d ${f(3)}</i></p>\n</div>',
 'mid.pt': '<div tal:define="inner load: inner.pt">\n <span metal:use-macro="inner.macros[\'m\']">\n   <u metal:fill-slot="s">filled ${f(4)}</u>\n </span>\n ${f(5)}</div>',
 'outer.pt': '<html tal:define="mid load: mid.pt">\n<body>\n   <x metal:use-macro="mid" />\n ${f(6)}\n</body></html>',
}
for k, v in files.items(): open(os.path.join(d, k), 'w', encoding='utf-8').write(v)
class E1(Exception):
    def __init__(s, a, b): super().__init__(a, b); s.extra = a
class E2(Exception):
    def __str__(s): return 'custom-str'
def loc(fn, needle):
    src = files[fn]; off = src.index(needle); line = src[:off].count('\n') + 1; col = off - (src[:off].rfind('\n') + 1)
    return (needle, os.path.join(d, fn), line, col)
# expected chains, innermost first
chains = {
 1: [loc('inner.pt', 'f(1)'), loc('mid.pt', "inner.macros['m']"), loc('outer.pt', 'mid" />'[:3])],
 2: [loc('inner.pt', 'f(2)'), loc('mid.pt', "inner.macros['m']"), loc('outer.pt', 'mid')],
 4: [loc('mid.pt', 'f(4)'), loc('mid.pt', "inner.macros['m']"), loc('outer.pt', 'mid')],
 5: [loc('mid.pt', 'f(5)'), loc('outer.pt', 'mid')],
 6: [loc('outer.pt', 'f(6)')],
}
# fix 'mid' needle position: the use-macro expression, not the define
src = files['outer.pt']; off = src.index('use-macro="mid"') + len('use-macro="'); 
midloc = ('mid', os.path.join(d, 'outer.pt'), src[:off].count('\n') + 1, off - (src[:off].rfind('\n') + 1))
for k in chains: chains[k] = [midloc if c[0] in ('mid',) and c[1].endswith('outer.pt') else c for c in chains[k]]
REC = re.compile(r' - Expression: "(.*?)"\n - Filename:   (.*?)\n - Location:   \(line (\d+): col (\d+)\)', re.S)
for fail_id in (1, 2, 4, 5, 6):
    for cls, mk in (('KeyError', lambda: KeyError('k')), ('E1', lambda: E1(1, 2)), ('E2', lambda: E2()), ('UnicodeDecodeError', lambda: UnicodeDecodeError('ascii', b'\xff', 0, 1, 'r'))):
        def f(i):
            if i == fail_id: raise mk()
            return 'v%d' % i
        t = PageTemplateFile(os.path.join(d, 'outer.pt'))
        try:
            out = t(f=f); print(fail_id, cls, 'NO EXC', out[:40])
        except Exception as e:
            recs = [(a, b, int(c), int(dd)) for a, b, c, dd in REC.findall(str(e))]
            ok_type = isinstance(e, RenderError) and type(e).__mro__[1].__name__ == cls or type(e).__name__ == cls
            ok_args = e.args == mk().args
            want = chains[fail_id]
            # filenames are ellipsified to 60 chars in messages
            got_n = [(a, b[-20:], c, dd) for a, b, c, dd in recs]; want_n = [(a, b[-20:], c, dd) for a, b, c, dd in want]
            print(fail_id, cls, 'type-ok' if ok_type else 'TYPE-BAD %s' % (type(e).__mro__,), 'args-ok' if ok_args else 'ARGS-BAD', 'chain-ok' if got_n == want_n else 'CHAIN-BAD\n   got %s\n   want %s' % (got_n, want_n), 'extra=%r' % getattr(e, 'extra', None) if cls == 'E1' else '')
