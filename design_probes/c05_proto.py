import random, sys, itertools
sys.path.insert(0, '/repo/src')
from chameleon import PageTemplate
rng = random.Random(int(sys.argv[1]))
POOL = ['a', 'b', 'len', 'str', 'id', 'int', 'list', 'get', 'getname', 're', 'functools', 'intern', 'translate', 'decode', 'convert', 'type', 'float']
READABLE = [n for n in POOL if n not in ('translate', 'decode')]   # definable but unreadable (internals) -> excluded from probes
def probe(names): return '[' + '|'.join("${%s|'U'}" % n if n not in ('len','str','id','int','list','type','float') else "${'B' if %s is __builtins_%s else %s}" % (n, n, n) for n in names) + ']'
class El:
    def __init__(s, kind, binds, kids): s.kind, s.binds, s.kids = kind, binds, kids
cnt = itertools.count(1)
def gen(depth, names):
    kind = rng.choice(['define', 'define', 'gdefine', 'repeat', 'trepeat', 'tdefine', 'plain'])
    if kind in ('define', 'gdefine'): binds = [(n, next(cnt)) for n in rng.sample(names, rng.randint(1, 2))]
    elif kind in ('repeat',): binds = [(rng.choice(names), next(cnt))]
    elif kind in ('trepeat', 'tdefine'): binds = [(n, next(cnt)) for n in rng.sample(names, 2)]
    else: binds = []
    kids = [gen(depth + 1, names) for _ in range(rng.randint(0, 2))] if depth < 3 else []
    return El(kind, binds, kids)
def ser(n, names):
    a = ''
    if n.kind == 'define': a = ' tal:define="%s"' % '; '.join('%s %d' % b for b in n.binds)
    elif n.kind == 'gdefine': a = ' tal:define="%s"' % '; '.join('global %s %d' % b for b in n.binds)
    elif n.kind == 'tdefine': a = ' tal:define="(%s, %s) (%d, %d)"' % (n.binds[0][0], n.binds[1][0], n.binds[0][1], n.binds[1][1])
    elif n.kind == 'repeat': a = ' tal:repeat="%s (%d, %d)"' % (n.binds[0][0], n.binds[0][1], n.binds[0][1] + 1000)
    elif n.kind == 'trepeat': a = ' tal:repeat="(%s, %s) [(%d, %d)]"' % (n.binds[0][0], n.binds[1][0], n.binds[0][1], n.binds[1][1])
    lead = '\n' if 'repeat' in n.kind else ''
    return lead + '<e%s>%s%s%s</e>' % (a, probe(names), ''.join(ser(k, names) + probe(names) for k in n.kids), '')
import builtins
def model(n, names, env, genv, out):
    def pr():
        out.append('[' + '|'.join(('B' if (n_ in ('len','str','id','int','list','type','float') and n_ not in env) else str(env[n_]) if n_ in env else 'U') for n_ in names) + ']')
    saved = {}
    def bind(name, v):
        if name not in saved: saved[name] = env.get(name, None) if name in env else '__MISSING__'
        env[name] = v
    def body():
        out.append('<e>'); pr()
        for k in n.kids: model(k, names, env, genv, out); pr()
        out.append('</e>')
    if n.kind in ('define', 'tdefine'):
        for name, v in n.binds: bind(name, v)
        body()
    elif n.kind == 'gdefine':
        for name, v in n.binds: env[name] = v
        body()
    elif n.kind == 'repeat':
        name, v = n.binds[0]
        out.append('\n')
        for i, val in enumerate((v, v + 1000)):
            bind(name, val); body()
            if i == 0: out.append('\n')
    elif n.kind == 'trepeat':
        out.append('\n')
        for name, v in n.binds: bind(name, v)
        body()
    else: body()
    for name, old in saved.items():
        if isinstance(old, str) and old == '__MISSING__': env.pop(name, None)
        else: env[name] = old
bad = n_cases = shown = 0
for case in range(int(sys.argv[2])):
    names = rng.sample(READABLE, 3)
    root = El('plain', [], [gen(0, names) for _ in range(rng.randint(1, 2))])
    src = ser(root, names)
    pre = {n_: 'P' + n_ for n_ in names if rng.random() < .4}
    out = []; env = dict(pre)
    model(root, names, env, None, out)
    exp = ''.join(out)
    kw = dict(pre); 
    for b in ('len','str','id','int','list','type','float'): kw['__builtins_' + b] = getattr(builtins, b)
    n_cases += 1
    try: got = PageTemplate(src.replace('__builtins_', 'BI_'))(**{k.replace('__builtins_', 'BI_'): v for k, v in kw.items()})
    except Exception as e: got = 'ERR %s %s' % (type(e).__name__, str(e).split('\n')[0][:60])
    if got != exp:
        bad += 1
        if shown < 5: shown += 1; print('MISMATCH', names, pre, '\n', src, '\n exp', exp, '\n got', got)
print('cases', n_cases, 'bad', bad)
