import random, sys
sys.path.insert(0, '/repo/src')
from chameleon import PageTemplate
from chameleon.exc import TemplateError
rng = random.Random(int(sys.argv[1]))
BAD = 'bad7 +'
GOODS = ['1', "'s'", 'a', "';;'", "'&amp;'", "'&lt;b&gt;'", 'x or 1', "d['k']", "'é'"]
def good(): return rng.choice(GOODS)
def site_templates():
    """each returns (src with {E} placeholder for the planted expr, description of what precedes)"""
    n = rng.randint(0, 3); m = rng.randint(0, 2)
    pre = '; '.join('v%d %s' % (i, good()) for i in range(n)); post = '; '.join('w%d %s' % (i, good()) for i in range(m))
    lst = '; '.join(x for x in [pre, 'p {E}', post] if x)
    alst = '; '.join(x for x in ['; '.join('a%d %s' % (i, good()) for i in range(n)), 'p {E}', '; '.join('b%d %s' % (i, good()) for i in range(m))] if x)
    lead = rng.choice(['', '\n', 'é\n  ', '<b>t</b>\n\t', '<!-- c -->'])
    return [
        ('define', lead + '<p tal:define="%s">x</p>' % lst),
        ('attributes', lead + '<p tal:attributes="%s">x</p>' % alst),
        ('content', lead + '<p tal:content="{E}">x</p>'),
        ('content-structure', lead + '<p tal:content="structure {E}">x</p>'),
        ('replace', lead + '<p tal:replace="  {E} ">x</p>'),
        ('condition', lead + '<p tal:condition="{E}">x</p>'),
        ('repeat', lead + '<p tal:repeat="i {E}">x</p>'),
        ('omit', lead + '<p tal:omit-tag="{E}">x</p>'),
        ('switch', lead + '<p tal:switch="{E}">x</p>'),
        ('pipe', lead + '<p tal:content="a | {E}">x</p>'),
        ('not', lead + '<p tal:content="not: {E}">x</p>'),
        ('string', lead + '<p tal:content="string:a ${%s} ${{E}} b">x</p>' % good()),
        ('text', lead + '<p>%s ${%s} t ${{E}} u</p>' % (rng.choice(['', '&amp;', '$$', 'é']), good())),
        ('attr-interp', lead + '<p class="%s ${{E}}" id=\'${%s}\'>x</p>' % (rng.choice(['', '&amp;', 'é']), good())),
        ('multiline-tag', lead + '<p\n   class="c"\n   tal:content="{E}"\n>x</p>'),
        ('target', lead + '<p i18n:target="{E}">x</p>'),
        ('on-error', lead + '<p tal:on-error="{E}">x</p>'),
        ('use-macro', lead + '<p metal:use-macro="{E}">x</p>'),
    ]
from collections import Counter
stats = Counter(); shown = Counter()
for case in range(int(sys.argv[2])):
    for kind, tpl in site_templates():
        src = tpl.replace('{E}', BAD)
        want = src.index(BAD)
        prec = src[:want]
        feat = []
        # what precedes within the same attribute value
        attrstart = max(prec.rfind('="'), prec.rfind("='"))
        inattr = prec[attrstart:]
        if kind in ('define', 'attributes'):
            if ';;' in inattr: feat.append(';;')
            if '&' in inattr: feat.append('entity')
            if inattr.count(';') - 2 * inattr.count(';;') - inattr.count('&') > 0: feat.append('sep')
        key = kind + ('[' + ','.join(feat) + ']' if feat else '')
        try:
            PageTemplate(src); res = 'NO-ERROR'
        except TemplateError as e:
            tok = str(e.token); off = e.offset
            line = src[:want].count('\n') + 1; col = want - (src[:want].rfind('\n') + 1)
            if off == want and tok == BAD and e.location == (line, col): res = 'ok'
            elif tok == BAD and off != want: res = 'offset %+d' % (off - want)
            else: res = 'token %r off %+d' % (tok[:12], off - want)
        except Exception as e: res = 'NON-TEMPLATE ' + type(e).__name__
        stats[(key, res)] += 1
for (key, res), n in sorted(stats.items()): print('%-28s %-28s %d' % (key, res, n))
