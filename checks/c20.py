"""C20 — text-mode templates copy their source verbatim except ${...} and $$.

Oracle: by construction.  A case is a list of parts, literal runs over a hostile
alphabet and ${expr} parts with expr from vlib.exprs; the expected output is the
concatenation of un-doubled literals and the unescaped string forms of the
expression values as computed by plain Python eval.  The real PageTextTemplate
(and, for a share of the cases, PageTextTemplateFile on a file written to a
scratch directory) renders the serialised source.

Monitor M-text-tok: the text-mode tokenizer yields exactly one token equal to
the body (hooked on the real iter_text).
"""
import html
import os
import re
import shutil
import tempfile

from vlib import exprs, monitors, state

PROP = 'C20'
TITLE = 'text mode copies source verbatim'
LEVEL = 'exploration'
SHARDS = {'quick': 16, 'thorough': 16}
FLOOR = {'quick': 1500, 'thorough': 15000}
REQUIRED_MONITORS = {'M-text-tok': 500, 'compared': 1500, 'file-compared': 50}
RULE = ('part lists of 1..8 parts: literal runs over {a space < > & &amp; " \' $ $$ { } \\n \\r\\n é tags, '
        'tal:-like attributes, comment/CDATA/PI openers, backslash} and ${expr} with expr from the brace/quote-rich '
        'Python grammar (vlib/exprs.py), values incl. markup, bytes, None, numbers, objects, __html__; '
        'sources starting with "<" included; non-trivial iff the source contains a markup character or "$"; '
        'distinct by part-kind sequence + literal alphabet classes used. Not generated (ambiguous by the '
        'statement): an unescaped "${" inside a literal run, a literal run ending in an odd number of "$" directly '
        'before "${".')
ASSUMPTIONS = ['Python eval is the reference for the value of a Python expression',
               'CR/CRLF in the source are expected as LF (newline normalisation applies outside XML mode)']

LITS = ['a', ' ', '<', '>', '&', '&amp;', '"', "'", '$', '$$', '{', '}', '\n', '\r\n', 'é', '<p tal:content="v">',
        '</p>', '<!--', '-->', '<?python x ?>', '<![CDATA[', ']]>', 'tal:', ';', '\t', '日本', '<!--!', '\\',
        '<p>', '$a', '$ {', '</', '<?xml version="1.0"?>', '&lt;', '#{', '%s', '%',
        # U+FEFF in a str is a character like any other (a CSV export begins with it on purpose); only byte input has a mark
        '\ufeff']


def gen_case(rng, allow_entity_in_expr):
    parts = []
    ticking = rng.random() < .12       # the same (non-idempotent) expression text occurs several times in this template
    # (now and then a long flat template: a text template is one text node, however many expressions it holds)
    for _ in range(rng.randint(1, 8) if rng.random() > .004 else rng.randint(300, 700)):
        if rng.random() < .55:
            parts.append(('lit', ''.join(rng.choice(LITS) for _ in range(rng.randint(1, 4)))))
        else:
            e = exprs.gen_expr(rng)
            if ticking and rng.random() < .6:
                parts.append(('expr', rng.choice(['tick()', 'tick()', 'tick() ', 'tick() * 10'])))
                continue
            if rng.random() < .2:
                e = rng.choice(['o', 'h', 'by', 'nn', 'fl', 'uni', "d['q']", 'ss', 'ss', 'repeat', 'repeat + "!"'])
            if rng.random() < .15:
                # the expression spans lines: '${' and its '}' are never on the same line
                e = rng.choice(['\n v\n', 'n +\n 1', '\n(n,\n v)[1]\n', 's\n', '\n  uni\n  ', 'str(n) +\n t'])
            elif rng.random() < .2 and '\n' not in e:
                e = exprs.spread(rng, e).replace('\r\n', '\n')     # any generated expression, written over several lines
            if allow_entity_in_expr and rng.random() < .5:
                e = rng.choice(["'&amp;'", "'x&lt;y'", "'&#65;'", "'&quot;' + v"])
            parts.append(('expr', e))
    return parts


def merge(parts):
    out = []
    for p in parts:
        if p[0] == 'lit' and out and out[-1][0] == 'lit':
            out[-1] = ('lit', out[-1][1] + p[1])
        else:
            out.append(p)
    return out


def admissible(parts):
    for i, p in enumerate(parts):
        if p[0] == 'lit':
            t = p[1].replace('$$', '')
            if '${' in t:
                return False
            nxt = parts[i + 1] if i + 1 < len(parts) else None
            if nxt is not None and nxt[0] == 'expr' and exprs.trailing_dollars(p[1]) % 2 == 1:
                return False
    return True


def build(parts, env, decode_entities=False):
    src = []
    exp = []
    env['tick'].reset()
    for p in parts:
        if p[0] == 'lit':
            src.append(p[1])
            exp.append(exprs.undouble(p[1]))
        else:
            src.append('${' + p[1] + '}')
            e = p[1]
            if decode_entities:
                e = exprs.decode_terminated(e)
            exp.append(exprs.to_text(exprs.evaluate('(' + e.strip() + ')' if '\n' in e else e, env)))
    s = ''.join(src)
    e = ''.join(exp)
    return s, e


XML_SOURCE = False   # set per case: a source starting with '<?xml' is an XML document (no newline rewriting)


def norm_nl(s):
    if XML_SOURCE:
        return s
    return s.replace('\r\n', '\n').replace('\r', '\n')


def shape(parts):
    def cls(lit):
        c = set()
        for ch, name in (('<', 'lt'), ('&', 'amp'), ('$$', 'dd'), ('$', 'd'), ('{', 'ob'), ('}', 'cb'), ('\n', 'nl'),
                         ('\r', 'cr'), ('"', 'dq'), ("'", 'sq'), ('tal:', 'tal'), ('<!--', 'cm'), ('<?', 'pi')):
            if ch in lit:
                c.add(name)
        return tuple(sorted(c))
    return tuple(('L',) + cls(p[1]) if p[0] == 'lit' else (('E', 'multi-line') if '\n' in p[1] else ('E',)) for p in parts)


def render_real(cls, arg, env, **cfg):
    if 'tick' in env:
        env['tick'].reset()
    try:
        if cls.__name__ == 'PageTextTemplate':
            from vlib import routes, state
            return routes.make(cls, arg, 8, state.CTX, **cfg)(**env)
        return cls(arg, **cfg)(**env)
    except Exception as e:
        try:
            msg = str(e).split('\n')[0][:120]
        except Exception as e2:
            msg = '<str() raised %s>' % type(e2).__name__
        return 'RAISED %s: %s' % (type(e).__name__, msg)


def run(ctx):
    monitors.install(ctx, tokalg=False)
    import chameleon.tokenize as T
    import chameleon.program as P
    orig_iter_text = T.iter_text

    def iter_text(body, filename=None):
        toks = list(orig_iter_text(body, filename))
        ctx.mon('M-text-tok')
        if len(toks) != 1 or str(toks[0]) != body or toks[0].pos != 0:
            ctx.violation('M-text-tok', 'text tokenizer did not yield exactly the body: %r -> %r' % (
                body[:60], [(str(t)[:30], t.pos) for t in toks]), {'kind': 'text', 'src': body})
        return iter(toks)
    T.iter_text = iter_text
    P.iter_text = iter_text
    P.ElementProgram.tokenizers = dict(P.ElementProgram.tokenizers, text=iter_text)

    from chameleon import PageTextTemplate, PageTextTemplateFile
    rng = ctx.rng
    env = exprs.make_env()
    env['repeat'] = 'RPT'        # a caller's variable may bear any name, also one the engine would otherwise fill in itself
    n = 1200 if ctx.quick else 20000
    tmp = tempfile.mkdtemp(prefix='c20_')
    try:
        done = 0
        while done < n:
            with_entity = rng.random() < .04
            parts = merge(gen_case(rng, with_entity))
            if not admissible(parts):
                continue
            try:
                src, exp = build(parts, env)
            except Exception:
                continue            # expression raises in plain Python: not a case
            done += 1
            global XML_SOURCE
            XML_SOURCE = src.startswith('<?xml')
            # newline normalisation applies to the *source*; values are inserted as they are
            _, exp = build([(k, norm_nl(t) if k == 'lit' else t) for k, t in parts], env)
            nontrivial = bool(re.search(r'[<&$]', src))
            got = render_real(PageTextTemplate, src, env)
            ctx.mon('compared')
            ctx.case(key=shape(parts), nontrivial=nontrivial,
                     sample={'source': src, 'expected': exp, 'rendered': got} if len(src) < 120 else None)
            ctx.cover('first-char', 'lt' if src.startswith('<') else 'other')
            if got != exp:
                key = classify(parts, env, src, exp, got)
                ctx.violation(key, 'text template %r rendered %r, expected %r' % (src, got, exp),
                              {'kind': 'text', 'src': src, 'expected': exp})
            if done % 8 == 0 and not src.startswith('\ufeff'):       # (in a FILE a leading U+FEFF is the byte-order mark)
                for enc in ('utf-8', 'latin-1', 'out-latin-1', 'out-cp1252', 'bom-utf-8-sig', 'bom-utf-16', 'bom-utf-32'):
                    fn = os.path.join(tmp, 't%d.txt' % (done % 5))
                    # 'out-X': the file is stored as UTF-8 but the template's (output) encoding is X
                    # 'bom-X': the file is stored in X with its byte-order mark, no option given: the text comes back in
                    #          the template's own encoding (UTF-8 by default), whatever the file was stored in
                    file_enc = 'utf-8' if enc.startswith('out-') else enc[4:] if enc.startswith('bom-') else enc
                    out_enc = enc[4:] if enc.startswith('out-') else 'utf-8' if enc.startswith('bom-') else enc
                    try:
                        data = src.encode(file_enc)
                        want = exp.encode(out_enc)
                    except UnicodeEncodeError:
                        continue
                    with open(fn, 'wb') as f:
                        f.write(data)
                    if enc == 'utf-8' or enc.startswith('bom-'):
                        cfg = {}
                    elif enc.startswith('out-'):
                        cfg = {'encoding': out_enc}
                    else:
                        cfg = {'default_encoding': enc, 'encoding': enc}
                    label, enc = enc, out_enc
                    gotb = render_real(PageTextTemplateFile, fn, env, **cfg)
                    ctx.mon('file-compared')
                    ctx.case(key=('file', label) + shape(parts), nontrivial=nontrivial)
                    if gotb != want:
                        if isinstance(gotb, bytes) and got != exp and gotb == got.encode(enc, 'replace'):
                            continue        # same disagreement as the string variant, already reported
                        ctx.violation('file-variant:' + classify(parts, env, src, exp, gotb if isinstance(gotb, str) else gotb.decode(enc, 'replace')),
                                      'file text template (%s) %r returned %r, expected %r' % (label, src, gotb, want),
                                      {'kind': 'textfile', 'src': src, 'expected': exp, 'encoding': enc})
                    elif done % 5 == 0 and isinstance(gotb, bytes) and 'by' not in src:
                        # (byte VALUES are decoded with the same option: templates inserting one are left out here)
                        # a long-lived template object whose encoding option is changed between renderings: every rendering is
                        # encoded with the encoding the template has at that moment
                        try:
                            t = PageTextTemplateFile(fn, **cfg)
                            env['tick'].reset()
                            first = t(**env)
                            steps = [('as constructed', first, want)]
                            for enc2 in rng.sample(['utf-8', 'utf-16-le', 'utf-32-be', 'utf-8-sig'], 2):
                                t.encoding = enc2
                                env['tick'].reset()
                                steps.append(('encoding = %r' % enc2, t(**env), exp.encode(enc2)))
                        except Exception as e:
                            steps = [('raised', '%s: %s' % (type(e).__name__, str(e)[:80]), None)]
                        ctx.mon('encoding-changed-between-renderings')
                        bad = [st for st in steps if st[1] != st[2]]
                        if bad:
                            ctx.violation('file-variant:encoding-history', 'file text template (%s) %r on one long-lived object: step %r returned %r, expected %r'
                                          % (label, src, bad[0][0], bad[0][1], bad[0][2]), {'kind': 'textfile', 'src': src, 'expected': exp, 'encoding': enc})
    finally:
        shutil.rmtree(tmp, ignore_errors=True)
    layer_loader_formats(ctx, 8 if ctx.quick else 100)


def layer_loader_formats(ctx, n):
    """One loader, one file, loaded as markup and as text in every order: the text load is a text template
    (source copied verbatim, nothing escaped), whatever was loaded before under the same name."""
    from chameleon import PageTemplateLoader
    rng = ctx.rng
    tmp = tempfile.mkdtemp(prefix='c20l_')
    try:
        for case in range(n):
            name = 'f%d.txt' % case
            body = rng.choice(['<p title="${v}" tal:content="v">B</p> & ${v} $$ <!-- c -->', 'a < b ${v}\n<br>', '${v}<i tal:replace="v"/>'])
            with open(os.path.join(tmp, name), 'w') as f:
                f.write(body)
            v = '<A&>'
            want_text = body.replace('${v}', v).replace('$$', '$')
            loader = PageTemplateLoader(tmp)
            seq = [rng.choice(['xml', 'text', None]) for _ in range(rng.randint(2, 5))]
            if 'text' not in seq:
                seq.append('text')
            seen = {}
            for step, fmt in enumerate(seq):
                t = loader.load(name, fmt) if fmt else loader.load(name)
                kind = 'text' if fmt == 'text' else 'xml'
                try:
                    out = t(v=v)
                except Exception as e:
                    out = 'RAISED %s' % type(e).__name__
                if isinstance(out, bytes):
                    out = out.decode('utf-8')
                ctx.mon('loader-format-loads')
                ctx.case(key=('loader-format', tuple(seq[:step + 1])), nontrivial=step > 0)
                problems = []
                if kind == 'text' and out != want_text:
                    problems.append('loaded as text it rendered %r, the verbatim copy is %r' % (out, want_text))
                if kind == 'xml' and '&lt;A&amp;&gt;' not in out and not out.startswith('RAISED'):
                    problems.append('loaded as markup it rendered %r (value not escaped)' % out)
                if kind in seen and seen[kind] is not t:
                    problems.append('a second load in the same format returned another instance')
                seen[kind] = t
                if problems:
                    ctx.violation('loader-format-history', 'file %r, loads %r: %s' % (body, seq[:step + 1], '; '.join(problems)),
                                  {'kind': 'loaderfmt', 'src': body, 'seq': seq})
                    break
    finally:
        shutil.rmtree(tmp, ignore_errors=True)


def classify(parts, env, src, exp, got):
    """Mechanism key of a disagreement (alternate model for the known mechanism)."""
    # known mechanism: the text of ${...} is entity-decoded although text mode has no entities.
    # Alternate model = the same template with every expression's entities decoded beforehand:
    # the disagreement is attributed to the mechanism only if the real engine renders that
    # template to exactly what was observed AND (when it renders at all) that output is what the
    # by-construction oracle expects for the decoded template.
    if any(k == 'expr' and exprs.decode_terminated(t) != t for k, t in parts) and isinstance(got, str):
        from chameleon import PageTextTemplate
        alt_parts = [(k, exprs.decode_terminated(t) if k == 'expr' else norm_nl(t)) for k, t in parts]
        alt_src = ''.join(t if k == 'lit' else '${' + t + '}' for k, t in alt_parts)
        alt_got = render_real(PageTextTemplate, alt_src, env)
        try:
            _, alt_exp = build(alt_parts, env)
        except Exception:
            alt_exp = None
        if alt_got == got and (got.startswith('RAISED') or alt_exp == got):
            return 'entity-decoded-inside-expression'
    if isinstance(got, str) and got.startswith('RAISED'):
        return 'raised-' + got.split()[1].rstrip(':')
    return 'output-differs'


def replay(data):
    from chameleon import PageTextTemplate
    env = exprs.make_env()
    got = render_real(PageTextTemplate, data['src'], env)
    text = 'source   %r\nexpected %r\nrendered %r' % (data['src'], data['expected'], got)
    return got != data['expected'], text
