"""Feature-interaction smoke fuzz: random valid-looking templates mixing all statement kinds; report non-TemplateError compile failures and unexpected render exceptions."""
import random, sys, traceback
sys.path.insert(0, '/repo/src')
from chameleon import PageTemplate
from chameleon.exc import TemplateError
rng = random.Random(int(sys.argv[1]))
ATTRS = [
 'tal:define="v 1"', 'tal:define="global g 2; w v|3"', 'tal:condition="c"', 'tal:repeat="i xs"', 'tal:content="t"', 'tal:replace="t"', 'tal:content="structure t"',
 'tal:omit-tag=""', 'tal:omit-tag="c"', 'tal:attributes="title t; class c"', 'tal:attributes="d"', 'tal:switch="c"', 'tal:case="1"', 'tal:case="default"', 'tal:on-error="string:ERR"',
 'i18n:translate=""', 'i18n:translate="mid"', 'i18n:name="n1"', 'i18n:name="n2"', 'i18n:domain="dom"', 'i18n:context="ctx"', 'i18n:target="\'de\'"', 'i18n:attributes="title"',
 'metal:define-macro="m1"', 'metal:define-macro="m2"', 'metal:use-macro="template.macros[\'m1\']"', 'metal:use-macro="lib.macros[\'L\']"', 'metal:define-slot="s"', 'metal:fill-slot="s"', 'metal:extend-macro="lib.macros[\'L\']"',
 'meta:interpolation="false"', 'tal:content="string:${t} $$ x"', 'tal:replace="structure t"', 'tal:define="(a, b) (1, 2)"', 'tal:repeat="(k, v) d.items()"', 'tal:attributes="checked c; d"', 'tal:condition="not: c"', 'tal:condition="exists: zz"', 'tal:content="zz | t"', 'tal:on-error="structure t"', 'i18n:translate="" tal:content="t"', 'tal:comment="note"', 'tal:define="x repeat.i.index|0"', 'xml:lang="en"', 'tal:attributes="class default; title None"', 'title="T ${t}"', 'class="k"', 'checked="${c}"',
]
def gen(depth):
    attrs = rng.sample(ATTRS, rng.choice([0, 1, 1, 2, 2, 3, 4]))
    kids = ''
    for _ in range(rng.randint(0, 3)):
        kids += gen(depth + 1) if depth < 3 and rng.random() < .55 else rng.choice(['txt ', '${t} ', '\n  ', '${c} x', '<!-- ${t} -->', '<![CDATA[${t}]]>', '<?python q = 1 ?>', '<!--! x -->', '$${t}', '&amp;${structure: t}', '<br/>', '<input checked />'])
    tag = rng.choice(['div', 'p', 'tal:block', 'metal:block', 'span'])
    return '<%s %s>%s</%s>' % (tag, ' '.join(attrs), kids, tag)
lib = PageTemplate('<div metal:define-macro="L">L[<i metal:define-slot="s">ds</i>]</div>')
from collections import Counter
stats = Counter(); seen = set()
for case in range(int(sys.argv[2])):
    src = gen(0)
    try:
        t = PageTemplate(src)
    except TemplateError as e: stats['compile TemplateError'] += 1; continue
    except RecursionError: stats['compile RecursionError'] += 1; continue
    except Exception as e:
        key = 'COMPILE %s: %s' % (type(e).__name__, str(e).split('\n')[0][:60])
        stats[key] += 1
        if key not in seen: seen.add(key); print(key, '\n    ', src[:300])
        continue
    for env in (dict(c=1, xs=[1, 2], t='T<', d={'x': 'y'}), dict(c=0, xs=[], t=None, d={})):
        try: t(lib=lib, **env); stats['render ok'] += 1
        except RecursionError: stats['render RecursionError'] += 1
        except Exception as e:
            tb = traceback.extract_tb(e.__traceback__)
            where = tb[-1].name
            key = 'RENDER %s in %s: %s' % (type(e).__mro__[1].__name__ if type(e).__name__ == type(e).__mro__[1].__name__ else type(e).__name__, where, str(e).split('\n')[0][:50])
            stats[key] += 1
            if key not in seen and len(seen) < 40: seen.add(key); print(key, '\n    ', src[:300])
for k, v in stats.most_common(): print(v, k)
