"""Parent runner: spawn shards, merge, classify against known findings, verdict.

usage: python -m vlib.runner <ID> [quick|thorough] [--replay <path>]
exit 0 held (maybe with KNOWN-FINDING lines) / 1 violated / 2 inconclusive
"""
import collections
import hashlib
import importlib
import json
import os
import shutil
import subprocess
import sys
import tempfile
import time

from vlib import env

env.setup_paths()

KNOWN = os.path.join(env.VERIF, 'known_findings.json')


def load_known():
    try:
        with open(KNOWN) as f:
            data = json.load(f)
    except FileNotFoundError:
        return {}
    out = {}
    for ent in data.get('findings', []):
        if ent.get('status') == 'open':
            out[(ent['property'], ent['key'])] = ent
    return out


def run_shards(prop, tier, seed, nshards, jobs, timeout, tmpdir, debug_shards=False):
    pending = list(range(nshards))
    running = {}
    results = {}
    environ = env.child_env()
    while pending or running:
        while pending and len(running) < jobs:
            i = pending.pop(0)
            out = os.path.join(tmpdir, 'shard%d.json' % i)
            log = open(os.path.join(tmpdir, 'shard%d.log' % i), 'w')
            shard_env = environ
            if debug_shards and i % 8 == 5:
                # environment route: this shard runs the library in its debug mode (CHAMELEON_DEBUG: type-checking output
                # stream, modules written to a scratch directory and never reused, source and body kept) - every property
                # holds there as well
                # (debug mode makes a scratch directory per process and leaves it behind: it is put under this run's
                # own scratch directory, which is removed at the end)
                dbg_tmp = os.path.join(tmpdir, 'debug_shard_tmp_%d' % i)
                os.makedirs(dbg_tmp, exist_ok=True)
                shard_env = dict(environ, CHAMELEON_DEBUG='true', VERIF_DEBUG_SHARD='1', TMPDIR=dbg_tmp)
            p = subprocess.Popen(
                [env.PY, '-m', 'vlib.shard', prop, tier, str(seed), str(i),
                 str(nshards), out],
                cwd=env.VERIF, env=shard_env, stdout=log, stderr=subprocess.STDOUT)
            running[i] = (p, out, time.time(), log)
        time.sleep(0.05)
        for i, (p, out, t0, log) in list(running.items()):
            rc = p.poll()
            if rc is None:
                if time.time() - t0 > timeout:
                    p.kill()
                    p.wait()
                    log.close()
                    results[i] = {'status': 'watchdog', 'error': 'shard exceeded %ds' % timeout}
                    del running[i]
                continue
            log.close()
            del running[i]
            try:
                with open(out) as f:
                    results[i] = json.load(f)
            except Exception as e:
                with open(os.path.join(tmpdir, 'shard%d.log' % i)) as f:
                    tail = f.read()[-2000:]
                results[i] = {'status': 'crash', 'error': 'no result (rc=%s): %s\n%s' % (rc, e, tail)}
    return results


def main(argv):
    if not argv:
        print(__doc__)
        return 2
    prop = argv[0].upper()
    mod = importlib.import_module('checks.' + prop.lower())
    if '--replay' in argv:
        path = argv[argv.index('--replay') + 1]
        with open(path) as f:
            data = json.load(f)
        env.assert_chameleon_origin()
        still, text = mod.replay(data['replay'])
        print(text)
        if still:
            print('VIOLATION property=%s replay=%s' % (prop, path))
            return 1
        print('replay: no violation on the current tree')
        return 0

    tier = os.environ.get('VERIF_TIER') or 'quick'
    for a in argv[1:]:
        if a in ('quick', 'thorough'):
            tier = a
    seed = int(os.environ.get('VERIF_SEED', '0') or 0)
    jobs = int(os.environ.get('VERIF_JOBS', '16') or 16)
    env.ensure_deps()
    nshards = mod.SHARDS[tier] if isinstance(mod.SHARDS, dict) else mod.SHARDS
    timeout = getattr(mod, 'TIMEOUT', {'quick': 900, 'thorough': 7200})[tier]
    t0 = time.time()
    tmpdir = tempfile.mkdtemp(prefix='vcheck_%s_' % prop)
    try:
        results = run_shards(prop, tier, seed, nshards, jobs, timeout, tmpdir, getattr(mod, 'DEBUG_SHARDS', False))
    finally:
        shutil.rmtree(tmpdir, ignore_errors=True)

    # ---- merge
    evaluations = 0
    distinct = set()
    bulk = 0
    samples = []
    tables = collections.defaultdict(collections.Counter)
    monitors = collections.Counter()
    viol = collections.OrderedDict()
    notes = []
    inconclusive = []
    for i in sorted(results):
        r = results[i]
        if r.get('status') != 'ok':
            inconclusive.append('shard %d %s: %s' % (i, r.get('status'), (r.get('error') or '').strip().splitlines()[-1:] ))
            if r.get('error'):
                notes.append('shard %d: %s' % (i, r['error'][-1500:]))
        evaluations += r.get('evaluations', 0)
        distinct.update(r.get('distinct', []))
        bulk += r.get('bulk_distinct', 0)
        for s in r.get('samples', []):
            if len(samples) < 8:
                samples.append(s)
        for t, c in r.get('tables', {}).items():
            tables[t].update(c)
        monitors.update(r.get('monitors', {}))
        for k, ent in r.get('violations', {}).items():
            e = viol.setdefault(k, {'n': 0, 'cases': [], 'prop': ent.get('prop', prop)})
            e['n'] += ent['n']
            for c in ent['cases']:
                if len(e['cases']) < 3:
                    c['shard'] = i
                    e['cases'].append(c)
        notes.extend(r.get('notes', []))
        inconclusive.extend(r.get('inconclusive', []))

    n_distinct = len(distinct) + bulk
    floor = getattr(mod, 'FLOOR', {}).get(tier, 2)
    if n_distinct < floor:
        inconclusive.append('only %d distinct non-trivial cases (floor %d)' % (n_distinct, floor))
    for name, least in getattr(mod, 'REQUIRED_MONITORS', {}).items():
        if monitors.get(name, 0) < least:
            inconclusive.append('monitor %s evaluated %d times (needs >= %d)' % (name, monitors.get(name, 0), least))

    # ---- classify
    known = load_known()
    new_viol = []
    known_hits = []
    for key, ent in viol.items():
        if (prop, key) in known:
            known_hits.append((key, ent, known[(prop, key)]))
        else:
            new_viol.append((key, ent))

    lines = []
    for key, ent, kf in known_hits:
        lines.append('KNOWN-FINDING: property=%s %s: %s (%d cases this run)' % (
            prop, key, kf.get('what_fails', ''), ent['n']))
    replay_dir = os.path.join(os.environ.get('VERIF_REPLAY_DIR') or os.path.join(env.VERIF, 'replays'), prop)
    for key, ent in new_viol:
        os.makedirs(replay_dir, exist_ok=True)
        case = ent['cases'][0]
        blob = json.dumps({'property': prop, 'key': key, 'seed': seed, 'tier': tier,
                           'what': case['what'], 'replay': case['replay'],
                           'n_cases': ent['n'], 'other_cases': ent['cases'][1:]},
                          indent=1, sort_keys=True)
        name = hashlib.sha1((key + blob).encode()).hexdigest()[:12] + '.json'
        path = os.path.join(replay_dir, name)
        with open(path, 'w') as f:
            f.write(blob)
        lines.append('VIOLATION property=%s replay=%s' % (prop, path))
        lines.append('  class=%s cases=%d: %s' % (key, ent['n'], str(case['what'])[:600]))

    # ---- evidence
    wall = time.time() - t0
    level = getattr(mod, 'LEVEL', 'exploration')
    coverage = {
        'evaluations': evaluations,
        'distinct_nontrivial': n_distinct,
        'rule': getattr(mod, 'RULE', ''),
        'samples': samples or ['(no sample recorded)'],
        'monitor_evaluations': dict(monitors),
        'tables': {t: dict(sorted(c.items(), key=lambda kv: -kv[1])[:60]) for t, c in tables.items()},
        'shards': nshards,
        'known_findings_seen': {k: e['n'] for k, e, _ in known_hits},
        'new_violation_classes': {k: e['n'] for k, e in new_viol},
        'inconclusive_reasons': inconclusive,
        'notes': notes[:12],
        'chameleon_src': env.SRC,
    }
    if getattr(mod, 'EXHAUSTIVE', {}).get(tier):
        coverage['exhaustive_layer'] = mod.EXHAUSTIVE[tier]
    extra = getattr(mod, 'evidence_extra', None)
    if extra:
        coverage.update(extra(tier, tables, monitors))
    verdict = 'violated' if new_viol else ('inconclusive' if inconclusive else 'held')
    coverage['verdict'] = verdict
    ev = {
        'property_id': prop, 'tier': tier, 'seed': seed, 'level': level,
        'coverage': coverage,
        'assumptions': getattr(mod, 'ASSUMPTIONS', []),
        'wall_s': round(wall, 2),
        'violations': sum(e['n'] for _, e in new_viol),
    }
    evdir = os.environ.get('VERIF_EVIDENCE_DIR') or os.path.join(env.VERIF, 'evidence')
    os.makedirs(evdir, exist_ok=True)
    evp = os.path.join(evdir, prop + '.json')
    with open(evp + '.tmp', 'w') as f:
        json.dump(ev, f, indent=1, sort_keys=True)
    os.replace(evp + '.tmp', evp)

    for l in lines:
        print(l)
    print('%s %s tier=%s seed=%d: %s — %d cases, %d distinct non-trivial, monitors %s, %.1fs' % (
        prop, getattr(mod, 'TITLE', ''), tier, seed, verdict.upper(), evaluations, n_distinct,
        dict(monitors), wall))
    if new_viol:
        return 1
    if inconclusive:
        for r in inconclusive[:10]:
            print('INCONCLUSIVE property=%s reason=%s' % (prop, r))
        for n in notes[:5]:
            print('  note:', n)
        return 2
    return 0


if __name__ == '__main__':
    sys.exit(main(sys.argv[1:]))
