import random, sys, html
sys.path.insert(0, '/repo/src')
from chameleon import PageTemplate
from html.parser import HTMLParser
rng = random.Random(int(sys.argv[1]))
class R(HTMLParser):
    def __init__(s): super().__init__(convert_charrefs=False); s.ev = []
    def handle_starttag(s, t, a): s.ev.append(('S', t, tuple(a)))
    def handle_startendtag(s, t, a): s.ev.append(('SE', t, tuple(a)))
    def handle_endtag(s, t): s.ev.append(('E', t))
    def handle_data(s, d): s._text(d)
    def handle_entityref(s, n): s._text(html.unescape('&%s;' % n))
    def handle_charref(s, n): s._text(html.unescape('&#%s;' % n))
    def handle_comment(s, d): s.ev.append(('C', d))
    def _text(s, d):
        if s.ev and s.ev[-1][0] == 'T': s.ev[-1] = ('T', s.ev[-1][1] + d)
        else: s.ev.append(('T', d))
def rd(x):
    r = R(); r.feed(x); r.close(); return r.ev
class Obj:
    def __init__(s, v): s.v = v
    def __str__(s): return s.v
class SS(str): pass
HOST = ['&', '<', '>', '"', "'", '&<>"\'', ']]>', '-->', '&amp;', '&#38;', '<script>alert(1)</script>', '" onclick="x', "' onclick='x", 'é<', '\x00<', '</p>', '<!--', 'a&b']
SITES = [
 ('text', '<p>[${v}]</p>'), ('dq', '<p a="[${v}]">x</p>'), ('sq', "<p a='[${v}]'>x</p>"), ('talattr-new', '<p tal:attributes="a v">x</p>'),
 ('talattr-sq', "<p a='s' tal:attributes=\"a v\">x</p>"), ('dict', '<p tal:attributes="dd">x</p>'), ('content', '<p tal:content="v">x</p>'), ('replace', '<u><p tal:replace="v">x</p></u>'),
 ('string-content', '<p tal:content="string:[${v}]">x</p>'), ('string-attr', '<p tal:attributes="a string:[${v}]">x</p>'), ('comment', '<u><!-- [${v}] --></u>'),
 ('tr-body', '<p i18n:translate="">hello [${v}]</p>'), ('tr-name', '<p i18n:translate="">hello <b i18n:name="n">[${v}]</b></p>'), ('two', '<p a="${v}-${v}">${v}|${v}</p>'),
 ('content-text-kw', '<p tal:content="text v">x</p>'), ('pipe', '<p tal:content="nope | v">x</p>'), ('bool-off', '<p tal:attributes="title v" class="${v}">x</p>'),
]
def variants(h):
    yield 'str', h, h
    yield 'bytes', h.encode('utf-8'), h
    yield 'strsub', SS(h), h
    yield 'obj', Obj(h), h
from collections import Counter
stats = Counter(); shown = 0
for kind, tpl in SITES:
    t = PageTemplate(tpl)
    safe = rd(t(v='SAFE', dd={'k': 'SAFE'}))
    for h in HOST:
        for vk, val, sval in variants(h):
            if '\x00' in h and vk == 'bytes': pass
            out = t(v=val, dd={'k': val})
            ev = rd(out)
            # structure equal modulo SAFE -> sval
            def norm(e, rep):
                if e[0] in ('S', 'SE'): return (e[0], e[1], tuple((k, (v or '').replace('SAFE', rep)) for k, v in e[2]))
                if e[0] in ('T', 'C'): return (e[0], e[1].replace('SAFE', rep))
                return e
            want = [norm(e, sval) for e in safe]
            if kind == 'comment':
                # comments are not unescaped by the reader
                got = [(e[0], html.unescape(e[1])) if e[0] == 'C' else e for e in ev]
            else: got = ev
            if got == want: stats[kind, 'ok'] += 1
            else:
                stats[kind, 'BAD'] += 1
                if shown < 10: shown += 1; print('BAD', kind, vk, repr(h), '\n  out ', out, '\n  got ', got, '\n  want', want)
for k, v in sorted(stats.items()): print(k, v)
