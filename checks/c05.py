"""C05 — variable scoping: locals end with their element, globals persist.

(a) probe oracle: nestings (depth <= 4) of define / global define / tuple define /
    repeat / tuple repeat / macro-use elements with three colliding names per program
    drawn from a pool that includes builtins (len str id int list type float) and
    names used by the generated code (get getname re functools intern convert), each
    name pre-bound by the caller or not; every element is surrounded by probes of all
    three names (before, first child, between children, after); a reference
    interpreter predicts every probe.
(b) M-scope: the real variable scope object of every render (chameleon.template.Scope
    replaced by a recording subclass) is inspected when render() returns: its own keys
    are the caller's keys plus global definitions (plus the engine's slot bookkeeping),
    every caller value is the same object as at entry unless globally redefined.
(c) reserved names: econtext / rcontext / names starting with '__' must be rejected
    with a TemplateError at every binding site (define, tuple define, global define,
    repeat, tuple repeat); every other pool name must be accepted.
(d) random operation sequences on the real utils.Scope (set, delete, copy, set_global,
    get, contains, iterate) against a two-dictionary model.
"""
import builtins
import itertools

from vlib import monitors

PROP = 'C05'
TITLE = 'variable scoping'
LEVEL = 'exploration'
SHARDS = {'quick': 16, 'thorough': 16}
FLOOR = {'quick': 1500, 'thorough': 15000}
REQUIRED_MONITORS = {'probe-programs-compared': 2000, 'M-scope': 2000, 'reserved-name-sites': 100, 'scope-op-sequences': 300}
RULE = ('(a) a case = (nesting of binding elements, name triple, pre-binding vector); non-trivial iff some name is bound at '
        'two levels or pre-bound by the caller; distinct by (binding-site kinds along each path, collision pattern, '
        'pre-binding vector). (d) a case = an operation sequence of length <= 30 over 4 keys. Not generated (the statement\'s '
        'two clauses conflict): a global definition of a name inside an element holding a local binding of the same name; '
        'target_language / translate / decode / default / repeat / attrs / nothing / template / macros as probe names.')
ASSUMPTIONS = ['comprehension targets and <?python assignments are declared leaks (stored in the variable scope by design) and '
               'are not generated here']

BUILTIN_NAMES = ['len', 'str', 'id', 'int', 'list', 'type', 'float',
                 # the classes the engine's own generated code catches ('a | b', exists:): a variable of that name is just a variable
                 'AttributeError', 'NameError', 'TypeError', 'LookupError', 'ValueError', 'KeyError', 'Exception']
POOL = ['a', 'b', 'c'] + BUILTIN_NAMES + ['get', 'getname', 're', 'functools', 'intern', 'convert', 'econtextual', 'ns']


GK = 'gk'          # a global that the macro redefines with a new value on every call


def probe(names):
    parts = []
    for n in list(names) + [GK]:
        if n in BUILTIN_NAMES:
            parts.append("${'B' if %s is BI_%s else %s}" % (n, n, n))
        else:
            parts.append("${%s|'U'}" % n)
    return '[' + '|'.join(parts) + ']'


class El:
    def __init__(self, kind, binds, kids):
        self.kind, self.binds, self.kids = kind, binds, kids


def gen(rng, depth, names, cnt, active, path=()):
    """active: names locally bound by an enclosing element (a global define must not hit those)."""
    kind = rng.choice(['define', 'define', 'gdefine', 'gmixed', 'gtdefine', 'grepeat', 'repeat', 'trepeat', 'tdefine', 'plain', 'usemacro', 'define2', 'lambda'])
    if kind in ('gdefine', 'gmixed', 'grepeat', 'gtdefine'):
        cands = [n for n in names if n not in active]
        if not cands or (kind == 'gmixed' and len(names) < 2) or (kind == 'gtdefine' and len(cands) < 2):
            kind = 'plain'
    if kind in ('define',):
        binds = [(n, next(cnt) if rng.random() < .85 else None) for n in rng.sample(names, rng.randint(1, 2))]
        same = [p for p in path if p[0] == 'define']
        if same and rng.random() < .3:
            binds = list(rng.choice(same)[1])      # the very same clause text as on an ancestor
    elif kind == 'define2':
        n = rng.choice(names)
        binds = [(n, next(cnt)), (n, next(cnt))]          # "n 1; n 2": later parts see (and here rebind) earlier ones
    elif kind == 'gdefine':
        binds = [(n, next(cnt)) for n in rng.sample(cands, 1)]
    elif kind == 'gtdefine':
        # tal:define="global (a, b) (1, 2)": each name is a global definition of its own element of the value
        binds = [(n, next(cnt)) for n in rng.sample(cands, 2)]
    elif kind == 'grepeat':
        # tal:repeat="global n ...": the loop variable is a global definition (it persists, nothing is restored)
        binds = [(rng.choice(cands), next(cnt))]
    elif kind == 'gmixed':
        # "global g 1; l 2": the keyword belongs to its own part only - l is an ordinary local definition
        g = rng.choice(cands)
        binds = [(g, next(cnt)), (rng.choice([n for n in names if n != g]), next(cnt))]
    elif kind == 'repeat':
        binds = [(rng.choice(names), next(cnt))]
        same = [p for p in path if p[0] == 'repeat']
        if same and rng.random() < .3:
            binds = list(rng.choice(same)[1])
    elif kind in ('trepeat', 'tdefine'):
        binds = [(n, next(cnt)) for n in rng.sample(names, 2)]
    elif kind == 'lambda':
        # an expression-local name (lambda parameter) equal to a template variable: must not affect anything else
        binds = []
        lam = rng.choice([n for n in names if n not in BUILTIN_NAMES] or ['q9'])
        el = El(kind, binds, [gen(rng, depth + 1, names, cnt, set(active), path) for _ in range(rng.randint(0, 2))] if depth < 3 else [])
        el.lam = lam
        return el
    else:
        binds = []
    act2 = set(active)
    if kind in ('define', 'define2', 'repeat', 'trepeat', 'tdefine'):
        act2 |= {n for n, v in binds}
    if kind == 'gmixed':
        act2.add(binds[1][0])
    kids = []
    if depth < 3 and kind != 'usemacro':
        kids = [gen(rng, depth + 1, names, cnt, act2, path + ((kind, tuple(binds)),)) for _ in range(rng.randint(0, 2))]
    return El(kind, binds, kids)


def ser(n, names):
    a = ''
    if n.kind in ('define', 'define2'):
        a = ' tal:define="%s"' % '; '.join('%s %s' % b for b in n.binds)
    elif n.kind == 'gdefine':
        a = ' tal:define="%s"' % '; '.join('global %s %d' % b for b in n.binds)
    elif n.kind == 'gmixed':
        a = ' tal:define="global %s %d; %s %d"' % (n.binds[0] + n.binds[1])
    elif n.kind == 'gtdefine':
        a = ' tal:define="global (%s, %s) (%d, %d)"' % (n.binds[0][0], n.binds[1][0], n.binds[0][1], n.binds[1][1])
    elif n.kind == 'tdefine':
        a = ' tal:define="(%s, %s) (%d, %d)"' % (n.binds[0][0], n.binds[1][0], n.binds[0][1], n.binds[1][1])
    elif n.kind == 'repeat':
        a = ' tal:repeat="%s (%d, %d)"' % (n.binds[0][0], n.binds[0][1], n.binds[0][1] + 1000)
    elif n.kind == 'grepeat':
        a = ' tal:repeat="global %s (%d, %d)"' % (n.binds[0][0], n.binds[0][1], n.binds[0][1] + 1000)
    elif n.kind == 'trepeat':
        a = ' tal:repeat="(%s, %s) [(%d, %d)]"' % (n.binds[0][0], n.binds[1][0], n.binds[0][1], n.binds[1][1])
    elif n.kind == 'usemacro':
        return '<u metal:use-macro="template.macros[\'mac\']"/>'
    elif n.kind == 'lambda':
        a = ' tal:define="zz9 (lambda %s: %s)(7); zz8 sorted([3, 1], key=lambda %s: -%s)"' % (n.lam, n.lam, n.lam, n.lam)
    lead = '\n' if 'repeat' in n.kind else ''
    return lead + '<e%s>%s%s</e>' % (a, probe(names), ''.join(ser(k, names) + probe(names) for k in n.kids))


MACRO_G = 'gm'


def macro_src(names):
    return '<m metal:define-macro="mac">M%s<i tal:define="global %s 77; global gk next(ctr); %s 88">%s</i>%s</m>' % (
        probe(names), MACRO_G, names[0], probe(names + [MACRO_G]), probe(names + [MACRO_G]))


MISSING = object()


class Interp:
    def __init__(self, names, env, quirk_reimpose=False):
        self.names, self.env = names, env
        self.globals = {}
        self.out = []
        self.quirk = quirk_reimpose
        self.ctr = itertools.count(500)

    def pr(self, names=None):
        env = self.env
        parts = []
        for n_ in list(names or self.names) + [GK]:
            if n_ in env:
                parts.append('' if env[n_] is None else str(env[n_]))
            else:
                parts.append('B' if n_ in BUILTIN_NAMES else 'U')
        self.out.append('[' + '|'.join(parts) + ']')

    def macro_body(self):
        names = self.names
        self.out.append('<m>M')
        self.pr()
        # <i tal:define="global gm 77; names[0] 88">
        self.env[MACRO_G] = 77
        self.globals[MACRO_G] = 77
        self.env[GK] = self.globals[GK] = next(self.ctr)
        old = self.env.get(names[0], MISSING)
        self.env[names[0]] = 88
        self.out.append('<i>')
        self.pr(names + [MACRO_G])
        self.out.append('</i>')
        if old is MISSING:
            self.env.pop(names[0], None)
        else:
            self.env[names[0]] = old
        self.pr(names + [MACRO_G])
        self.out.append('</m>')

    def run(self, n):
        env = self.env
        saved = {}

        def bind(name, v):
            if name not in saved:
                saved[name] = env.get(name, MISSING)
            env[name] = v

        def body():
            self.out.append('<e>')
            self.pr()
            for k in n.kids:
                self.run(k)
                self.pr()
            self.out.append('</e>')
        if n.kind in ('define', 'tdefine', 'define2'):
            for name, v in n.binds:
                bind(name, v)
            body()
        elif n.kind in ('gdefine', 'gtdefine'):
            for name, v in n.binds:
                env[name] = v
                self.globals[name] = v
            body()
        elif n.kind == 'gmixed':
            (gname, gv), (lname, lv) = n.binds
            env[gname] = gv
            self.globals[gname] = gv
            bind(lname, lv)
            body()
        elif n.kind == 'repeat':
            name, v = n.binds[0]
            self.out.append('\n')
            for i, val in enumerate((v, v + 1000)):
                bind(name, val)
                body()
                if i == 0:
                    self.out.append('\n')
        elif n.kind == 'grepeat':
            name, v = n.binds[0]
            self.out.append('\n')
            for i, val in enumerate((v, v + 1000)):
                env[name] = val
                self.globals[name] = val
                body()
                if i == 0:
                    self.out.append('\n')
        elif n.kind == 'trepeat':
            self.out.append('\n')
            for name, v in n.binds:
                bind(name, v)
            body()
        elif n.kind == 'usemacro':
            # the macro runs on a copy of the variable scope: its locals never reach the caller,
            # its global definitions do
            self.env = dict(env)
            self.macro_body()
            self.env = env
            env[MACRO_G] = 77
            env[GK] = self.globals[GK]
            if self.quirk:
                # known mechanism: after a macro call ALL global definitions made so far are
                # re-imposed on the current scope, overriding local bindings of the same name
                env.update(self.globals)
        else:
            body()
        for name, old in saved.items():
            if old is MISSING:
                env.pop(name, None)
            else:
                env[name] = old


def has_collision(root, pre):
    seen = []

    def walk(n, path):
        mine = {b[0] for b in n.binds}
        hit = bool(mine & (path | set(pre)))
        return hit or any(walk(k, path | mine) for k in n.kids)
    return walk(root, set())


def shape(n):
    return (n.kind, len(n.binds)) + tuple(shape(k) for k in n.kids)


def uses_macro(n):
    return n.kind == 'usemacro' or any(uses_macro(k) for k in n.kids)


# --------------------------------------------------------------------------
class ScopeMonitor:
    """M-scope: records the Scope object created by each render()."""

    def __init__(self, ctx):
        import chameleon.template as T
        import chameleon.utils as U
        self.ctx = ctx
        self.last = None
        mon = self

        class RecordingScope(U.Scope):
            __slots__ = ()

            def __init__(self, *a, **kw):
                super().__init__(*a, **kw)
                mon.last = self
        T.Scope = RecordingScope

    def check(self, caller_kwargs, allowed_globals, what):
        sc = self.last
        self.last = None
        if sc is None:
            return
        self.ctx.mon('M-scope')
        own = set(dict.keys(sc))
        engine = {'repeat', 'target_language', 'translate', 'decode', 'on_error_handler'}
        extra = {k for k in own - set(caller_kwargs) - set(allowed_globals) - engine
                 if not k.startswith('__')}
        if extra:
            self.ctx.violation('M-scope:names-survive-render',
                               '%s: after render() the variable scope still holds %r (caller passed %r, globals %r)' % (
                                   what, sorted(extra), sorted(caller_kwargs), sorted(allowed_globals)),
                               {'kind': 'mscope', 'what': what})
        for k, v in caller_kwargs.items():
            if k in allowed_globals:
                continue
            if dict.get(sc, k, MISSING) is not v:
                self.ctx.violation('M-scope:caller-binding-not-restored',
                                   '%s: after render() caller variable %r is %r, was %r' % (what, k, dict.get(sc, k, MISSING), v),
                                   {'kind': 'mscope', 'what': what})


def layer_probes(ctx, n, mscope):
    from chameleon import PageTemplate
    rng = ctx.rng
    for case in range(n):
        names = rng.sample(POOL, 3)
        cnt = itertools.count(1)
        root = El('plain', [], [gen(rng, 0, names, cnt, set()) for _ in range(rng.randint(1, 2))])
        src = macro_src(names) + ser(root, names)
        pre = {n_: ('P' + n_ if rng.random() < .8 else None) for n_ in names if rng.random() < .4}
        want = []
        for quirk in (False, True):
            it = Interp(names, dict(pre), quirk)
            it.macro_body()          # the defining element renders in place, too
            it.env = dict(pre)
            it.env[MACRO_G] = 77
            it.env[GK] = it.globals[GK]
            it.run(root)
            want.append(''.join(it.out))
        kw = dict(pre)
        kw['ctr'] = itertools.count(500)
        for b in BUILTIN_NAMES:
            kw['BI_' + b] = getattr(builtins, b)
        try:
            got = __import__('vlib.routes').routes.make(PageTemplate, src, 8, __import__('vlib.state').state.CTX)(**kw)
        except Exception as e:
            got = 'RAISED %s %s' % (type(e).__name__, str(e).split('\n')[0][:100])
        ctx.mon('probe-programs-compared')
        ctx.case(key=(shape(root), tuple(n_ in BUILTIN_NAMES for n_ in names), tuple(sorted(pre))),
                 nontrivial=has_collision(root, pre),
                 sample={'source': src, 'prebound': pre, 'rendered': got} if case < 2 else None)
        globs = {b[0] for b in all_binds(root, 'gdefine')} | {b[0] for b in all_binds(root, 'gtdefine')} | {b[0] for b in all_binds(root, 'grepeat')} | {b[0] for b in list(all_binds(root, 'gmixed'))[::2]} | {MACRO_G, GK}
        mscope.check(kw, globs, 'probe program')
        if got != want[0]:
            key = 'probe-output-differs'
            if uses_macro(root) and got == want[1]:
                key = 'macro-call-reimposes-global-definitions-over-locals'
            elif got.startswith('RAISED'):
                key = 'raised-' + got.split()[1]
            ctx.violation(key, 'names %r pre-bound %r\n  template %r\n  rendered %r\n  expected %r' % (
                names, pre, src, got, want[0]), {'kind': 'probe', 'src': src, 'pre': pre, 'expected': want[0]})


def all_binds(n, kind):
    if n.kind == kind:
        yield from n.binds
    for k in n.kids:
        yield from all_binds(k, kind)


# --------------------------------------------------------------------------
def layer_reserved(ctx):
    from chameleon import PageTemplate
    from chameleon.exc import TemplateError
    sites = {
        'define': '<p tal:define="%s 1">x</p>',
        'define-second': '<p tal:define="zz 1; %s 2">x</p>',
        'define-global': '<p tal:define="global %s 1">x</p>',
        'define-tuple': '<p tal:define="(zz, %s) (1, 2)">x</p>',
        'repeat': '<p tal:repeat="%s (1, 2)">x</p>',
        'repeat-tuple': '<p tal:repeat="(zz, %s) [(1, 2)]">x</p>',
    }
    reserved = ['econtext', 'rcontext', '__x', '__stream', '__token', '__append']
    fine = ['a', 'len', 'get', 'getname', 're', 'functools', 'intern', 'convert', '_x', 'econtexts', 'x__']
    items = [(s, nme, True) for s in sites for nme in reserved] + [(s, nme, False) for s in sites for nme in fine]
    for i, (site, name, must_reject) in enumerate(items):
        if i % ctx.nshards != ctx.shard:
            continue
        src = sites[site] % name
        try:
            PageTemplate(src)()
            res = 'accepted'
        except TemplateError:
            res = 'TemplateError'
        except Exception as e:
            res = type(e).__name__
        ctx.mon('reserved-name-sites')
        ctx.case(key=('reserved', site, name), nontrivial=True)
        if must_reject and res != 'TemplateError':
            ctx.violation('reserved-name-not-rejected:%s' % site.split('-')[0],
                          'binding the reserved name %r at a %s site: %s (template %r)' % (name, site, res, src),
                          {'kind': 'reserved', 'src': src})
        if not must_reject and res != 'accepted':
            ctx.violation('ordinary-name-rejected', 'binding %r at a %s site: %s (template %r)' % (name, site, res, src),
                          {'kind': 'reserved', 'src': src})


# --------------------------------------------------------------------------
def layer_scope_ops(ctx, n):
    """Random operation sequences on the real utils.Scope against a two-dictionary model."""
    from chameleon.utils import Scope
    rng = ctx.rng
    KEYS = ['k0', 'k1', 'k2', 'k3']
    for case in range(n):
        real = [Scope({'k0': 'init'})]
        model = [({'k0': 'init'}, None)]       # (local dict, root index)
        roots = {0: 0}
        ops = []
        ok = True
        for step in range(rng.randint(5, 30)):
            i = rng.randrange(len(real))
            op = rng.choice(['set', 'set', 'del', 'copy', 'set_global', 'get', 'contains', 'iter', 'getitem'])
            k = rng.choice(KEYS)
            v = 'v%d' % step
            loc, root = model[i]
            rootd = model[root][0] if root is not None else None

            def mget(key):
                if key in loc:
                    return loc[key]
                if rootd is not None and key in rootd:
                    return rootd[key]
                return MISSING
            try:
                if op == 'set':
                    real[i][k] = v
                    loc[k] = v
                    res = want = None
                elif op == 'del':
                    want = 'KeyError' if k not in loc else None
                    try:
                        del real[i][k]
                        res = None
                    except KeyError:
                        res = 'KeyError'
                    loc.pop(k, None)
                elif op == 'copy':
                    if len(real) < 6:
                        real.append(real[i].copy())
                        model.append((dict(loc), root if root is not None else i))
                    res = want = None
                elif op == 'set_global':
                    real[i].set_global(k, v)
                    (rootd if rootd is not None else loc)[k] = v
                    res = want = None
                elif op == 'get':
                    res = real[i].get(k, 'DFLT')
                    want = mget(k)
                    want = 'DFLT' if want is MISSING else want
                elif op == 'getitem':
                    try:
                        res = real[i][k]
                    except KeyError:
                        res = 'KeyError'
                    want = mget(k)
                    want = 'KeyError' if want is MISSING else want
                elif op == 'contains':
                    res = k in real[i]
                    want = mget(k) is not MISSING
                else:
                    res = sorted(real[i])
                    want = sorted(set(loc) | set(rootd or ()))
            except Exception as e:
                res = 'RAISED %s' % type(e).__name__
            ops.append((i, op, k, res))
            if res != want:
                ctx.violation('scope-op-sequence', 'utils.Scope disagrees with the two-dictionary model after %r: '
                              'result %r, model %r' % (ops, res, want), {'kind': 'scopeops', 'ops': repr(ops)})
                ok = False
                break
        ctx.mon('scope-op-sequences')
        ctx.case(key=('ops', tuple(o[1] for o in ops)), nontrivial=len(ops) >= 5)


def run(ctx):
    monitors.install(ctx, tokalg=False)
    mscope = ScopeMonitor(ctx)
    layer_probes(ctx, 150 if ctx.quick else 2500, mscope)
    layer_reserved(ctx)
    layer_scope_ops(ctx, 40 if ctx.quick else 800)


def replay(data):
    if data.get('kind') == 'probe':
        from chameleon import PageTemplate
        kw = dict(data['pre'])
        kw['ctr'] = itertools.count(500)
        for b in BUILTIN_NAMES:
            kw['BI_' + b] = getattr(builtins, b)
        try:
            got = PageTemplate(data['src'])(**kw)
        except Exception as e:
            got = 'RAISED %s' % type(e).__name__
        return got != data['expected'], 'source %r\npre-bound %r\nrendered %r\nexpected %r' % (
            data['src'], data['pre'], got, data['expected'])
    if data.get('kind') == 'reserved':
        from chameleon import PageTemplate
        try:
            PageTemplate(data['src'])()
            return True, 'accepted: %r' % data['src']
        except Exception as e:
            return False, '%s raised for %r' % (type(e).__name__, data['src'])
    return True, repr(data)
