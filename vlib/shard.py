"""One shard of one check: runs checks.<id>.run(ctx) and writes a JSON summary.

usage: python -m vlib.shard <ID> <tier> <seed> <shard> <nshards> <outfile>
"""
import collections
import hashlib
import importlib
import json
import os
import random
import sys
import time
import traceback

from vlib import env

env.setup_paths()


def _h(key):
    return hashlib.blake2b(repr(key).encode('utf-8', 'backslashreplace'),
                           digest_size=8).hexdigest()


def jsonable(x, depth=0):
    if depth > 8:
        return repr(x)[:200]
    if isinstance(x, str):
        return x if len(x) <= 600 else x[:600] + '...(%d chars)' % len(x)
    if isinstance(x, (int, float, bool)) or x is None:
        return x
    if isinstance(x, bytes):
        return {'bytes': x.decode('latin-1')}
    if isinstance(x, dict):
        return {str(k): jsonable(v, depth + 1) for k, v in x.items()}
    if isinstance(x, (list, tuple, set, frozenset)):
        return [jsonable(v, depth + 1) for v in x]
    return repr(x)[:300]


class Ctx:
    MAX_SAMPLES = 6
    MAX_VIOL_PER_KEY = 3

    def __init__(self, prop, tier, seed, shard, nshards):
        self.prop, self.tier, self.seed = prop, tier, seed
        self.shard, self.nshards = shard, nshards
        self.rng = random.Random(seed * 1000 + shard)
        self.evaluations = 0
        self.distinct = set()
        self.bulk_distinct = 0
        self.samples = []
        self.violations = collections.OrderedDict()   # key -> {'n':, 'cases': [...]}
        self.tables = collections.defaultdict(collections.Counter)
        self.monitors = collections.Counter()
        self.notes = []
        self.inconclusive = []
        self.quick = tier == 'quick'

    # -- counting ---------------------------------------------------------
    def case(self, key=None, nontrivial=True, sample=None, n=1):
        """One executed case.  key identifies its *shape* for distinctness."""
        self.evaluations += n
        if nontrivial and key is not None:
            self.distinct.add(_h(key))
        if sample is not None and len(self.samples) < self.MAX_SAMPLES:
            self.samples.append(jsonable(sample))

    def bulk(self, evaluations, distinct_nontrivial):
        """Cases distinct by construction (enumeration), counted by the caller."""
        self.evaluations += evaluations
        self.bulk_distinct += distinct_nontrivial

    def cover(self, table, item, n=1):
        self.tables[table][str(item)] += n

    def mon(self, name, n=1):
        self.monitors[name] += n

    def note(self, text):
        if len(self.notes) < 20:
            self.notes.append(text)

    def mark_inconclusive(self, reason):
        self.inconclusive.append(reason)

    # -- verdicts ---------------------------------------------------------
    def violation(self, key, what, replay=None, prop=None):
        """A violation of this property, classified under mechanism `key`."""
        k = key
        ent = self.violations.setdefault(k, {'n': 0, 'cases': [], 'prop': prop or self.prop})
        ent['n'] += 1
        if len(ent['cases']) < self.MAX_VIOL_PER_KEY:
            ent['cases'].append({'what': what, 'replay': jsonable(replay or {})})

    def dump(self):
        return {
            'evaluations': self.evaluations,
            'distinct': sorted(self.distinct),
            'bulk_distinct': self.bulk_distinct,
            'samples': self.samples,
            'violations': self.violations,
            'tables': {t: dict(c) for t, c in self.tables.items()},
            'monitors': dict(self.monitors),
            'notes': self.notes,
            'inconclusive': self.inconclusive,
        }


def main(argv):
    prop, tier, seed, shard, nshards, out = argv[:6]
    ctx = Ctx(prop, tier, int(seed), int(shard), int(nshards))
    from vlib import state
    state.CTX = ctx
    t0 = time.time()
    status = 'ok'
    err = None
    try:
        env.assert_chameleon_origin()
        mod = importlib.import_module('checks.' + prop.lower())
        if os.environ.get('VERIF_DEBUG_SHARD'):
            ctx.mon('shards-run-in-debug-mode')
        if getattr(mod, 'HOSTILE_HISTORY', True):
            # every shard starts after a fixed set of hostile predecessor compilations / renderings (vlib/history.py)
            from vlib import history
            history.hostile_predecessors(ctx)
        mod.run(ctx)
    except BaseException as exc:
        status = 'crash'
        err = traceback.format_exc()
        # An exception the workload did not anticipate.  If it comes out of Chameleon (its source files or a
        # template it compiled) the real code misbehaved on an input this workload is known to handle on the
        # reference tree: that is an observation, not a harness failure.  Anything else stays a crash
        # (-> inconclusive).
        tb = exc.__traceback__
        frames = []
        while tb is not None:
            frames.append(tb.tb_frame.f_code.co_filename)
            tb = tb.tb_next
        inner = frames[-1] if frames else ''
        if isinstance(exc, Exception) and frames and (inner.startswith(env.SRC) or inner == '<string>' or inner.endswith('.pt') or
                                                      getattr(exc, '_original__str__', None) is not None):
            status = 'ok-aborted'
            ctx.violation('workload-raised-inside-chameleon:' + type(exc).__name__,
                          'the workload was aborted by %s raised inside Chameleon (never seen on the reference tree): %s\n%s' % (
                              type(exc).__name__, str(exc).split('\n')[0][:200], err[-1500:]), None)
    res = ctx.dump()
    res.update(status=status, error=err, wall_s=time.time() - t0, shard=int(shard))
    tmp = out + '.tmp'
    with open(tmp, 'w') as f:
        json.dump(res, f)
    os.replace(tmp, out)


if __name__ == '__main__':
    main(sys.argv[1:])
