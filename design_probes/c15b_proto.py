import subprocess, os, sys, json, tempfile, shutil, itertools
BASE = {}
NSBODY = '<p x:y="1">q</p>'
VARIANTS = {
 'boolean_attributes': {'boolean_attributes': ['foo']}, 'implicit_i18n_attributes': {'implicit_i18n_attributes': ['title']}, 'implicit_i18n_translate': {'implicit_i18n_translate': True},
 'trim_attribute_space': {'trim_attribute_space': True}, 'enable_data_attributes': {'enable_data_attributes': True}, 'enable_comment_interpolation': {'enable_comment_interpolation': False},
 'restricted_namespace': {'restricted_namespace': False, 'body': NSBODY, '_base': {'body': NSBODY}}, 'default_expression': {'default_expression': 'string'}, 'strict': {'strict': True, 'body': '<p tal:condition="False">${bad +}</p>ok', '_base': {'body': '<p tal:condition="False">${bad +}</p>ok'}},
 'cls-subclass': {'cls': 'MyPT'}, 'cls-text': {'cls': 'PageTextTemplate'}, 'filename': {'filename': '/x/other.pt'}, 'body': {'body': '<p>other</p>'}, 'extra_builtins': {'extra_builtins': {'zz': 1}},
 'mode': {'mode': 'text'},
}
def run(cfgs, cache):
    env = dict(os.environ, PYTHONDONTWRITEBYTECODE='1')
    if cache: env['CHAMELEON_CACHE'] = cache
    p = subprocess.run(['/venv/bin/python', '/tmp/exp/c15b_child.py', json.dumps(cfgs)], env=env, capture_output=True, text=True, timeout=120)
    if p.returncode: print(p.stderr[-500:])
    return json.loads(p.stdout)
BASES = {k: v.pop('_base', BASE) for k, v in VARIANTS.items()}
ref = {k: run([v], None)[0] for k, v in VARIANTS.items()}; ref0s = {k: run([BASES[k]], None)[0] for k in VARIANTS}
for k, v in VARIANTS.items():
    ref0 = ref0s[k]; BASEK = BASES[k]
    trivial = ref[k] == ref0
    res = {}
    for order in ('AB', 'BA'):
        for split in ('same-process', 'two-processes'):
            d = tempfile.mkdtemp(dir='/tmp/exp')
            pair = [BASEK, v] if order == 'AB' else [v, BASEK]
            if split == 'same-process': out = run(pair, d)
            else: out = run([pair[0]], d) + run([pair[1]], d)
            want = [ref0, ref[k]] if order == 'AB' else [ref[k], ref0]
            res[order, split] = (out == want)
            shutil.rmtree(d)
    print('%-30s %-9s %s' % (k, 'trivial' if trivial else 'differs', 'OK' if all(res.values()) else 'COLLISION ' + str([kk for kk, vv in res.items() if not vv])))
