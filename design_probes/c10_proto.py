"""Throw-away i18n model: predicts translate() call log + output."""
import random, sys, re
sys.path.insert(0, '/repo/src')
from chameleon import PageTemplate
rng = random.Random(int(sys.argv[1]))
WS = re.compile(r'\s+')
class El:
    def __init__(s, tag, kids, **st): s.tag, s.kids, s.st = tag, kids, st
def gen(depth, in_tr):
    st = {}
    if rng.random() < .35: st['translate'] = rng.choice(['', '', 'msg%d' % rng.randint(1, 9)])
    if in_tr and rng.random() < .5: st['name'] = 'n%d' % rng.randint(1, 3)
    if rng.random() < .2: st['domain'] = 'd%d' % rng.randint(1, 2)
    if rng.random() < .15: st['context'] = 'c%d' % rng.randint(1, 2)
    if rng.random() < .15 and 'name' not in st: st['target'] = rng.choice(["'de'", "'fr'", 'lang'])
    if rng.random() < .2: st['cond'] = rng.choice(['T', 'F'])
    if rng.random() < .15: st['omit'] = True
    if rng.random() < .25:
        st['sattr'] = rng.choice(['Tit le', 'Hello  there'])
        if rng.random() < .6: st['i18nattr'] = rng.choice([None, 'tid'])
    kids = []
    for _ in range(rng.randint(0, 3)):
        k = rng.random()
        if k < .45 and depth < 3: kids.append(gen(depth + 1, in_tr or 'translate' in st and True))
        elif k < .8: kids.append(rng.choice(['text', ' two  words ', '\n  line\n', 'x &amp; y']))
        else: kids.append('${v}')
    return El(rng.choice(['p', 'b', 'i']), kids, **st)
def dedupe_names(root):
    # names must be unique within the nearest enclosing translate; drop duplicates; names outside translate dropped
    def walk(n, scope):
        if isinstance(n, str): return
        if 'name' in n.st:
            if scope is None or n.st['name'] in scope: del n.st['name']
            else: scope.add(n.st['name'])
        sc = set() if 'translate' in n.st else scope
        for k in n.kids: walk(k, sc)
    walk(root, None)
def ser(n):
    if isinstance(n, str): return n
    a = ''
    st = n.st
    if 'sattr' in st: a += ' title="%s"' % st['sattr']
    if 'i18nattr' in st: a += ' i18n:attributes="title%s"' % ('' if st['i18nattr'] is None else ' ' + st['i18nattr'])
    if 'translate' in st: a += ' i18n:translate="%s"' % st['translate']
    if 'name' in st: a += ' i18n:name="%s"' % st['name']
    if 'domain' in st: a += ' i18n:domain="%s"' % st['domain']
    if 'context' in st: a += ' i18n:context="%s"' % st['context']
    if 'target' in st: a += ' i18n:target="%s"' % st['target']
    if 'cond' in st: a += ' tal:condition="%s"' % ('True' if st['cond'] == 'T' else 'False')
    if 'omit' in st: a += ' tal:omit-tag=""'
    return '<%s%s>%s</%s>' % (n.tag, a, ''.join(ser(k) for k in n.kids), n.tag)
def T(msgid, default, mapping):
    s = default if default is not None else msgid
    if mapping:
        s = re.sub(r'\$\{(\w+)\}', lambda m: str(mapping.get(m.group(1), m.group(0))), s)
    return '«' + s + '»'
class Model:
    def __init__(s, env): s.env, s.log = env, []
    def render(s, n, out, ctx, names):
        """out: list; ctx: (domain, context, target); names: dict for current translate or None"""
        if isinstance(n, str):
            t = n.replace('${v}', s.env['v_escaped']); out.append(t); return
        st = n.st
        # order: name (outermost) > condition > domain > context > target > element
        if 'name' in st and names is not None:
            sub = []
            s.render_inner(n, sub, ctx, names)
            names[st['name']] = ''.join(sub)
            out.append('${%s}' % st['name'])
        else:
            s.render_inner(n, out, ctx, names)
    def render_inner(s, n, out, ctx, names):
        st = n.st
        if st.get('cond') == 'F': return
        d, c, t = ctx
        if 'domain' in st: d = st['domain']
        if 'context' in st: c = st['context']
        if 'target' in st: t = {"'de'": 'de', "'fr'": 'fr', 'lang': s.env['lang']}[st['target']]
        ctx = (d, c, t)
        omit = 'omit' in st
        if not omit:
            a = ''
            if 'sattr' in st:
                v = st['sattr']
                if 'i18nattr' in st:
                    mid = st['i18nattr'] or v
                    s.log.append((mid, v, None, d, c, None)); v = T(mid, v, None)
                a = ' title="%s"' % v
            out.append('<%s%s>' % (n.tag, a))
        if 'translate' in st:
            sub = []; mynames = {}
            def collect(k):
                if isinstance(k, str): return
                if 'name' in k.st: mynames.setdefault(k.st['name'], '')
                if 'translate' in k.st: return
                for kk in k.kids: collect(kk)
            for k in n.kids: collect(k)
            for k in n.kids: s.render(k, sub, ctx, mynames)
            content = WS.sub(' ', ''.join(sub)).strip()
            mid = st['translate'] or content
            if mid:
                s.log.append((mid, content, mynames or None, d, c, t)); out.append(T(mid, content, mynames or None))
        else:
            for k in n.kids: s.render(k, out, ctx, names)
        if not omit: out.append('</%s>' % n.tag)
def run_real(src, env):
    log = []
    def tr(msgid, domain=None, mapping=None, context=None, target_language=None, default=None):
        log.append((msgid, default, dict(mapping) if mapping else None, domain, context, target_language))
        return T(msgid, default, mapping)
    try: return PageTemplate(src, translate=tr)(v=env['v'], lang=env['lang']), log
    except Exception as e: return 'ERR %s %s' % (type(e).__name__, str(e).split('\n')[0]), log
bad = n = shown = 0
for case in range(int(sys.argv[2])):
    root = El('div', [gen(0, False) for _ in range(rng.randint(1, 3))])
    dedupe_names(root)
    src = ser(root)
    env = {'v': rng.choice(['V', 'a<b', '']), 'lang': rng.choice(['it', None])}
    env['v_escaped'] = env['v'].replace('<', '&lt;')
    m = Model(env); out = []
    m.render(root, out, (None, None, None), None)
    exp = (''.join(out), m.log)
    got = run_real(src, env)
    n += 1
    if got != exp:
        bad += 1
        if shown < 8: shown += 1; print('--- MISMATCH', src, env, '\n exp', exp, '\n got', got)
print('cases', n, 'bad', bad)
