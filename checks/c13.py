"""C13 — tal:on-error replaces exactly the failed element's output with the fallback.

History + executable model (vlib/tmodel.py): C01 programs with tal:on-error on any
subset of elements (nested to depth 4, with repeat / define / switch / content /
replace / attributes in between), failure sets of 1..2 expression occurrences made to
raise (first / middle / last expression of an element, inside and after inner
handlers, in the fallback expression itself), fallback as text / structure / None.
Compared: output, evaluation log, the list of failures passed to the configured
on_error_handler (exactly once per handled failure), and whether the exception
escapes.  Visibility probes after each element observe the variable scope.
"""
import itertools
import random
import re

from checks import c01
from vlib import monitors, tmodel
from vlib.tmodel import El, Probe, Text

PROP = 'C13'
TITLE = 'tal:on-error'
DEBUG_SHARDS = True      # two of sixteen shards run the library in its debug mode (vlib/runner.py)
LEVEL = 'exploration'
SHARDS = {'quick': 16, 'thorough': 16}
FLOOR = {'quick': 1500, 'thorough': 20000}
REQUIRED_MONITORS = {'model-compared': 5000, 'handled-failures': 1500, 'error-variable-compared': 300,
                     'metal-shapes-compared': 300, 'fallback-start-tags-compared': 500, 'repeated-failures-compared': 300}
RULE = ('a case = (program with on-error on a random subset of elements, depth <= 3 (quick) / 4 (thorough), binding table, '
        'failure set of 1..2 raising expression occurrences chosen among ALL occurrences incl. fallback expressions); '
        'non-trivial iff >=1 failure is raised inside an on-error element (per the model); distinct by (handler nesting '
        'shape, failure position classes, statement kinds on the handling element). Not generated (statement silent): '
        'an unconditional tal:omit-tag on the on-error element (a conditional one is generated; both readings of its effect on the fallback tags are accepted), default as the on-error value, tal:attributes targeting a static attribute '
        'of the on-error element, reading the error variable after the element.')
ASSUMPTIONS = ['reference model vlib/tmodel.py; on-error restores the variable scope of the point where the element began']


class Gen(c01.Gen):
    def element(self, depth, in_switch):
        node = super().element(depth, in_switch)
        rng = self.rng
        if rng.random() < .5 and node.stmts.get('omit', 0) is not None:      # not with an unconditional omit-tag
            # keep tal:attributes away from the static names of an on-error element
            if 'attributes' in node.stmts:
                statics = {k.lower() for k, v in node.statics}
                if any(n.lower() in statics for n, r in node.stmts['attributes']):
                    return node
            node.stmts['on-error'] = (rng.choice(['text', 'text', 'structure']), self.rid('on-error'))
        return node


SITE_VALUES = dict(c01.SITE_VALUES)
SITE_VALUES['on-error'] = ['str', 'hostile', 'none', 'markup', 'one', 'empty', 'obj']
c01.SITE_VALUES['on-error'] = SITE_VALUES['on-error']


def handler_shape(node, depth=0):
    if not isinstance(node, El):
        return ()
    me = ('H' if 'on-error' in node.stmts else '-') + ''.join(sorted(k[0] for k in node.stmts if k != 'on-error'))
    return (me,) + tuple(handler_shape(k, depth + 1) for k in node.kids if isinstance(k, El))


def rids_inside_handlers(node, active=False, acc=None):
    if acc is None:
        acc = set()
    if isinstance(node, El):
        active = active or 'on-error' in node.stmts
        if active:
            for k, v in node.stmts.items():
                if k == 'on-error':
                    continue
                if k == 'define':
                    acc.update(r for _, _, r in v)
                elif k == 'attributes':
                    acc.update(r for _, r in v)
                elif k in ('repeat', 'content', 'replace'):
                    acc.add(v[1])
                elif v is not None:
                    acc.add(v)
        for kid in node.kids:
            rids_inside_handlers(kid, active, acc)
    return acc


def run(ctx):
    monitors.install(ctx, tokalg=False)
    rng = ctx.rng
    n = 250 if ctx.quick else 4000
    for i in range(n):
        g = Gen(rng, maxdepth=2 if ctx.quick else 3)
        root = g.element(0, False)
        c01.tal_block_fix(root)
        groups = tmodel.attribute_groups(root)
        rids = sorted(g.sites)
        inside = rids_inside_handlers(root)
        for b in range(4):
            table = g.table(rng)
            # the failure set
            for k, v in list(table.items()):
                if v == ('raise', 'Boom'):
                    site = g.sites[k]
                    table[k] = 'pair' if site == 'define-pair' else ('itpairs' if site == 'repeat-pair' else rng.choice(c01.SITE_VALUES[site]))
            cands = [r for r in rids if r not in g.multi_attr]
            guarded = [r for r in cands if r in inside]
            if guarded and rng.random() < .7:
                cands = guarded
            for r in rng.sample(cands, min(len(cands), rng.choice([1, 1, 2]))):
                table[r] = ('raise', 'Boom')
            want = tmodel.run_model(root, table)
            src = '<root>' + tmodel.serialise(root, random.Random(rng.randrange(1 << 30))) + '</root>'
            got = tmodel.run_real(src, table)
            w = dict(want)
            if w['out'] is not None:
                w['out'] = '<root>' + w['out'] + '</root>'
            ctx.mon('model-compared')
            ctx.mon('handled-failures', len(want['handled']))
            fail_sites = tuple(sorted(g.sites[r] for r, v in table.items() if v == ('raise', 'Boom')))
            ctx.case(key=(handler_shape(root), fail_sites, tuple(want['handled']) != ()), nontrivial=bool(want['handled']),
                     sample={'source': src, 'table': {str(k): v for k, v in table.items()}, 'rendered': got['out'],
                             'handler_calls': got['handled']} if i < 2 and b == 0 else None)
            ok = tmodel.same(got, w, with_handled=True, groups=groups)
            if not ok:
                # reading B for tal:omit-tag on the on-error element (the statement does not say which)
                wb = tmodel.run_model(root, table, quirks={'onerror-omit-reevaluated'})
                if wb['out'] is not None:
                    wb['out'] = '<root>' + wb['out'] + '</root>'
                ok = tmodel.same(got, wb, with_handled=True, groups=groups)
            if not ok:
                key = classify(root, table, got, w, groups)
                ctx.violation(key, 'template %r\n  table %r\n  real  %r\n  model %r' % (src, table, got, w),
                              {'kind': 'model', 'src': src, 'table': {str(k): v for k, v in table.items()}, 'model': w})
    layer_error_variable(ctx, 30 if ctx.quick else 500)
    layer_failing_omit_tag(ctx, 15 if ctx.quick else 150)
    layer_metal(ctx, 40 if ctx.quick else 600)
    layer_start_tag_options(ctx, 40 if ctx.quick else 800)
    layer_repeated_failures(ctx, 25 if ctx.quick else 400)
    layer_globals_in_abandoned_elements(ctx, 25 if ctx.quick else 400)


class Positioned(Exception):
    lineno = 40
    offset = 41
    pos = 42
    line = 43
    column = 44


def layer_error_variable(ctx, n):
    """The fallback expression can read error.type / value / lineno / offset of the failure."""
    from chameleon import PageTemplate
    rng = ctx.rng
    for case in range(n):
        lead = rng.choice(['', 'x\n', 'é\n\n   ', '<b>t</b>\n\t',
                           # a code block whose own exception handler binds the name the fallback reads
                           '<?python\ntry:\n    zq = int("7")\nexcept ValueError as error:\n    zq = 0\n?>\n'])
        site = rng.choice(['${f(1)}', '<i tal:content="f(1)">c</i>', '<i tal:attributes="a f(1)">c</i>', '<i tal:condition="f(1)">c</i>',
                           '<i tal:repeat="r f(1)">c</i>', 'a\n  b ${f(1)}',
                           # the failure happens inside a macro rendered in place, after the enclosing function has
                           # evaluated something else successfully
                           '${g(0)}<m metal:define-macro="mm%d">a ${f(1)}</m>' % case,
                           '<i tal:on-error="string:inner">${g(0)}${1/0}</i><m metal:define-macro="mm%d">\n ${f(1)}</m>' % case])
        # any Exception subclass is handled, whatever special treatment it gets elsewhere (RecursionError passes
        # render() unwrapped, StopIteration ends iterations, MemoryError ...)
        exc = rng.choice(['ZeroDivisionError', 'KeyError', 'CustomError', 'ValueError', 'RecursionError', 'StopIteration', 'MemoryError',
                          'AssertionError', 'OSError', 'NotImplementedError', 'ImportError', 'EOFError', 'UnboundLocalError', 'StopAsyncIteration',
                          # exceptions that carry a line and an offset of their own (of some other text): error.lineno / offset
                          # are the failing expression's place in the template all the same
                          'SyntaxError', 'JSONDecodeError', 'Positioned', 'SyntaxError', 'Positioned'])
        src = lead + '<div class="k" tal:on-error="string:T=${error.type.__name__};V=${type(error.value).__name__};L=${error.lineno};O=${error.offset}">before %s after</div>!' % site
        off = src.index('f(1)')
        line = src.count('\n', 0, off) + 1
        col = off - (src.rfind('\n', 0, off) + 1)
        calls = []

        def f(i, exc=exc):
            if exc == 'SyntaxError':
                raise SyntaxError('bad', ('other.py', 30, 17, 'x ='))
            if exc == 'JSONDecodeError':
                import json
                json.loads('{\n\n\n "a": }')
            if exc == 'Positioned':
                raise Positioned('p')
            raise tmodel.make_exc(exc, i)
        try:
            out = PageTemplate(src, on_error_handler=calls.append)(f=f, g=lambda i: 'g')
        except Exception as e:
            out = 'RAISED %s: %s' % (type(e).__name__, str(e).split('\n')[0][:80])
        lead_out = re.sub(r'<\?python.*?\?>', '', lead, flags=re.S)       # a code block leaves nothing in the output
        want = lead_out + '<div class="k">T=%s;V=%s;L=%d;O=%d</div>!' % (exc, exc, line, col)
        in_macro = 'define-macro' in site
        if in_macro:
            # the position of a failure inside an in-place macro is either not known (None) or the failing
            # expression's - never that of some other expression
            if out == lead_out + '<div class="k">T=%s;V=%s;L=;O=</div>!' % (exc, exc):
                want = out
            calls = [c for c in calls if type(c).__name__ != 'ZeroDivisionError' or exc == 'ZeroDivisionError'][-1:]
        if case % 6 == 0 and not in_macro:
            # what is not an Exception is not handled: it leaves render() as it is, no fallback, no handler call
            for base in (KeyboardInterrupt, SystemExit, GeneratorExit):
                calls2 = []

                def fb(i, base=base):
                    raise base()
                try:
                    got = 'rendered %r' % PageTemplate(src, on_error_handler=calls2.append)(f=fb, g=lambda i: 'g')[:60]
                except BaseException as e:      # noqa
                    got = type(e).__name__ if not isinstance(e, Exception) else 'Exception subclass %s' % type(e).__name__
                ctx.mon('non-exceptions-under-on-error')
                if got != base.__name__ or calls2:
                    ctx.violation('non-exception-handled-by-on-error', 'template %r, %s raised inside the element: %s, handler calls %r' % (
                        src, base.__name__, got, calls2), {'kind': 'errvar', 'src': src})
        ctx.mon('error-variable-compared')
        ctx.case(key=('errvar', site[:12], exc, bool(lead)), nontrivial=True)
        if out != want or len(calls) != 1 or type(calls[0]).__name__ != exc:
            ctx.violation('error-variable', 'template %r failing with %s\n  rendered %r (handler calls %r)\n  expected %r' % (
                src, exc, out, calls, want), {'kind': 'errvar', 'src': src})


def layer_failing_omit_tag(ctx, n):
    """The tal:omit-tag expression of the on-error element is part of what is guarded: when it raises, the fallback is
    rendered (with or without the element's tags - the statement leaves that open), the handler is called once, and nothing
    escapes."""
    from chameleon import PageTemplate
    rng = ctx.rng
    for case in range(n):
        expr = rng.choice(['nosuchname', 'd.nokey', '1/0', 'f(1)', "int('x')"])
        body = rng.choice(['x', '<b>x</b>', '${1}'])
        src = 'A<div class="k" tal:on-error="string:E" tal:omit-tag="%s">%s</div>B' % (expr, body)
        calls = []

        def f(i):
            raise KeyError(i)
        try:
            out = PageTemplate(src, on_error_handler=calls.append)(f=f, d={})
        except Exception as e:
            out = 'RAISED %s: %s' % (type(e).__name__, str(e).split('\n')[0][:80])
        ctx.mon('failing-omit-tag-compared')
        ctx.case(key=('failing-omit-tag', expr, body), nontrivial=True)
        if out not in ('AEB', 'A<div class="k">E</div>B') or len(calls) != 1:
            ctx.violation('failure-of-the-omit-tag-expression-escapes-the-element', 'template %r: rendered %r, handler calls %r' % (src, out, calls),
                          {'kind': 'errvar', 'src': src})



def layer_start_tag_options(ctx, n):
    """The fallback is wrapped in the element's start tag with its static attributes: for start tags with arbitrary
    lexical detail and under the options that touch start tags, that is the very text the element's start tag has
    when nothing fails (metamorphic: same template, body failing / not failing)."""
    from chameleon import PageTemplate
    rng = ctx.rng
    WS = [' ', '  ', '\n', '\n    ', '\t', ' \n ']
    ATTRS = ['class="c"', "id='x'", 'data-k=v7', 'hidden', 'title="a &amp; b"', 'xml:lang="en"', 'Style="x:y"', "alt='&quot;q&quot;'",
             'href=/a/b.c', 'lang=""']
    for case in range(n):
        attrs = rng.sample(ATTRS, rng.randint(0, 4))
        stmt = 'tal:on-error="%s"' % rng.choice(['string:E', "structure '<b>E</b>'", "'E'"])
        parts = attrs + [stmt]
        if rng.random() < .4:
            parts.append(rng.choice(['tal:define="q 1"', 'tal:condition="True"', 'i18n:domain="d"']))
        rng.shuffle(parts)
        tag = rng.choice(['div', 'p', 'x-y', 'SPAN'])
        start = '<' + tag + ''.join(rng.choice(WS) + a for a in parts) + rng.choice(['', '', ' ', '\n', '\n  ', '\t']) + '>'
        src = rng.choice(['', 'pre ', '<o>\n  ']) + start + 'body ${f(1)} <i>k</i>' + '</%s>' % tag + ' post'
        cfg = rng.choice([{}, {'trim_attribute_space': True}, {'trim_attribute_space': True}, {'boolean_attributes': {'hidden'}},
                          {'enable_data_attributes': True}, {'trim_attribute_space': True, 'enable_data_attributes': True}])
        if src.startswith('<o>'):
            src += '</o>'
        outs = {}
        for fail in (False, True):
            def f(i, fail=fail):
                if fail:
                    raise KeyError(i)
                return 'v'
            try:
                outs[fail] = PageTemplate(src, **cfg)(f=f)
            except Exception as e:
                outs[fail] = 'RAISED %s: %s' % (type(e).__name__, str(e).split('\n')[0][:80])
        ctx.mon('fallback-start-tags-compared')
        ctx.case(key=('starttag', len(attrs), tuple(sorted(cfg)), '\n' in start, start.endswith(('\n>', ' >', '\t>', '  >'))), nontrivial=True)
        ok, bad = outs[False], outs[True]
        i = ok.find('<' + tag)
        j = ok.find('>', i)
        st = ok[i:j + 1]
        fb = 'E' if "'<b>" not in stmt else '<b>E</b>'
        want = ok[:i] + st + fb + '</%s>' % tag + ok[ok.index('</%s>' % tag) + len(tag) + 3:]
        if i < 0 or ok.startswith('RAISED') or bad != want:
            ctx.violation('fallback-start-tag-differs-from-regular-start-tag',
                          'template %r options %r\n  body succeeds: %r\n  body fails:    %r\n  expected:      %r' % (src, cfg, ok, bad, want),
                          {'kind': 'starttag', 'src': src, 'cfg': {k: (sorted(v) if isinstance(v, set) else v) for k, v in cfg.items()}})



def layer_repeated_failures(ctx, n):
    """Several failures handled in ONE rendering: the handler is called once per handled failure - also when the
    failures raise the very same exception object (a prepared instance), or distinct objects that compare equal."""
    from chameleon import PageTemplate
    rng = ctx.rng

    class AlwaysEqual(Exception):
        def __eq__(self, other):
            return isinstance(other, AlwaysEqual)

        def __hash__(self):
            return 1
    for case in range(n):
        k = rng.randint(2, 5)
        kind = rng.choice(['same-object', 'equal-objects', 'fresh-objects', 'same-object-nested'])
        shared = KeyError('prepared')

        def f(i, kind=kind, shared=shared):
            if kind.startswith('same-object'):
                raise shared
            if kind == 'equal-objects':
                raise AlwaysEqual(i)
            raise KeyError(i)
        if kind == 'same-object-nested':
            src = '<r>' + '<div tal:on-error="string:O%d"><b tal:on-error="f(%d)">${f(%d)}</b></div>' * k % tuple(
                x for i in range(k) for x in (i, 100 + i, i)) + '</r>'
            want = '<r>' + ''.join('<div>O%d</div>' % i for i in range(k)) + '</r>'
            ncalls = 2 * k         # the inner failure is handled, its fallback fails and is handled by the outer element
        else:
            shape = rng.choice(['siblings', 'repeat'])
            if shape == 'siblings':
                src = '<r>' + ''.join('<p tal:on-error="string:E%d">${f(%d)}</p>' % (i, i) for i in range(k)) + '</r>'
                want = '<r>' + ''.join('<p>E%d</p>' % i for i in range(k)) + '</r>'
            else:
                src = '<r><tal:r repeat="i range(%d)"><p tal:on-error="string:E${i}">${f(i)}</p></tal:r></r>' % k
                want = '<r>' + ''.join('<p>E%d</p>' % i for i in range(k)) + '</r>'
            ncalls = k
        calls = []
        try:
            out = PageTemplate(src, on_error_handler=calls.append)(f=f)
        except Exception as e:
            out = 'RAISED %s: %s' % (type(e).__name__, str(e).split('\n')[0][:80])
        ctx.mon('repeated-failures-compared')
        ctx.case(key=('repeated', kind, k), nontrivial=True)
        if out != want or len(calls) != ncalls:
            ctx.violation('handler-calls-differ' if out == want else 'output-differs',
                          'template %r, failures raise %s: rendered %r, handler called %d time(s); expected %r and %d calls' % (
                              src, kind, out, len(calls), want, ncalls), {'kind': 'errvar', 'src': src})



def layer_globals_in_abandoned_elements(ctx, n):
    """Global definitions made inside an element that is later abandoned (tal:on-error takes over) persist with the
    value they were given there - also when the name was a global (or a local of an enclosing element) before - and a
    name that was never bound stays unbound; the output outside the element is otherwise untouched."""
    from chameleon import PageTemplate
    rng = ctx.rng
    for case in range(n):
        before = rng.choice(['', '<i tal:define="global g \'G0\'"/>', '<i tal:define="global g \'G0\'; global h \'H0\'"/>'])
        how = rng.choice(['define', 'macro'])
        if how == 'define':
            inner = '<b tal:define="global g \'G1\'"/>'
        else:
            inner = '<u metal:use-macro="template.macros[\'setg\']"/>'
        fails = rng.random() < .7
        body = inner + '${g}' + ('${1/0}' if fails else '')
        wrap = rng.choice(['<div tal:on-error="string:E">%s</div>', '<div tal:define="q 1" tal:on-error="string:E"><s>%s</s></div>'])
        src = ('<tal:c condition="False"><m metal:define-macro="setg"><b tal:define="global g \'G1\'"/></m></tal:c>'
               '<r>%s%s[${g|\'U\'}|${h|\'U\'}]<m2 metal:define-macro="show">(${g|\'U\'})</m2></r>' % (before, wrap % body))
        h = 'H0' if 'global h' in before else 'U'
        mid = '<div>E</div>' if fails else (wrap % ('<b/>G1' if how == 'define' else '<m><b/></m>G1')).replace(' tal:on-error="string:E"', '').replace(' tal:define="q 1"', '')
        want = '<r>%s%s[G1|%s]<m2>(G1)</m2></r>' % ('<i/>' if before else '', mid, h)      # (the element's own locals: the recorded open finding, not probed here)
        try:
            got = PageTemplate(src)()
        except Exception as e:
            got = 'RAISED %s: %s' % (type(e).__name__, str(e).split('\n')[0][:80])
        ctx.mon('globals-in-abandoned-elements-compared')
        ctx.case(key=('abandoned-globals', bool(before), 'global h' in before, how, fails, wrap[:24]), nontrivial=fails)
        if got != want:
            ctx.violation('global-defined-inside-an-abandoned-element', 'template %r rendered %r, expected %r' % (src, got, want), {'kind': 'errvar', 'src': src})


def layer_metal(ctx, n):
    """on-error combined with METAL and with dictionary attributes: the fallback replaces exactly the on-error element."""
    from chameleon import PageTemplate
    rng = ctx.rng
    lib_src = ('<lib><m metal:define-macro="m">[${g(1)}<i metal:define-slot="s">d</i>${g(2)}]</m>'
               '<m metal:define-macro="plain">(<i metal:define-slot="s">d</i>)</m></lib>')
    for case in range(n):
        shape = rng.choice(['inplace-macro', 'use-fails', 'filler-fails-outer-handler', 'handler-on-fill-slot',
                            'handler-on-use-macro', 'dict-attributes', 'filler-fails-after-macro-expr'])
        pre, post = rng.choice(['', 'pre ']), rng.choice(['', ' post'])
        fb = rng.choice(['string:FB', "structure string:<b>FB</b>", 'nothing'])
        fbtext = {'string:FB': 'FB', "structure string:<b>FB</b>": '<b>FB</b>', 'nothing': ''}[fb]
        fail = {'g1': False, 'g2': False}
        if shape == 'inplace-macro':
            src = '<x>%s<div class="c" tal:on-error="%s">a<p metal:define-macro="q">b${f(1)}</p>c</div>%s</x>' % (pre, fb, post)
            want = '<x>%s<div class="c">%s</div>%s</x>' % (pre, fbtext, post)
        elif shape == 'use-fails':
            fail['g1' if rng.random() < .5 else 'g2'] = True
            src = '<x>%s<div tal:on-error="%s">a<u metal:use-macro="lib.macros[\'m\']"/>c</div>%s</x>' % (pre, fb, post)
            want = '<x>%s<div>%s</div>%s</x>' % (pre, fbtext, post)
        elif shape == 'filler-fails-outer-handler':
            mac = rng.choice(['m', 'plain'])
            src = ('<x>%s<div tal:on-error="%s">a<u metal:use-macro="lib.macros[\'%s\']"><e metal:fill-slot="s">F${f(1)}</e></u>c</div>%s</x>'
                   % (pre, fb, mac, post))
            want = '<x>%s<div>%s</div>%s</x>' % (pre, fbtext, post)
        elif shape == 'filler-fails-after-macro-expr':
            src = ('<x>%s<div tal:on-error="%s"><u metal:use-macro="lib.macros[\'m\']"><e metal:fill-slot="s">${f(1)}</e></u></div>%s</x>'
                   % (pre, fb, post))
            want = '<x>%s<div>%s</div>%s</x>' % (pre, fbtext, post)
        elif shape == 'handler-on-fill-slot':
            src = ('<x>%s<u metal:use-macro="lib.macros[\'plain\']"><e class="k" metal:fill-slot="s" tal:on-error="%s">F${f(1)}</e></u>%s</x>'
                   % (pre, fb, post))
            want = '<x>%s<m>(<e class="k">%s</e>)</m>%s</x>' % (pre, fbtext, post)
        elif shape == 'handler-on-use-macro':
            fail['g1'] = True
            src = '<x>%s<u metal:use-macro="lib.macros[\'m\']" tal:on-error="%s"/>%s</x>' % (pre, fb, post)
            want = '<x>%s%s%s</x>' % (pre, fbtext, post)
        else:
            src = '<x>%s<p a="1" tal:attributes="d" tal:on-error="%s">t${f(1)}</p>%s</x>' % (pre, fb, post)
            want = '<x>%s<p a="1">%s</p>%s</x>' % (pre, fbtext, post)
        calls = []

        def f(i):
            raise tmodel.Boom(i)

        def g(i, fail=fail):
            if fail['g%d' % i]:
                raise tmodel.Boom('g%d' % i)
            return 'G%d' % i
        try:
            lib = PageTemplate(lib_src)
            out = PageTemplate(src, on_error_handler=calls.append)(f=f, g=g, lib=lib, d={'z': '9'})
        except Exception as e:
            out = 'RAISED %s: %s' % (type(e).__name__, str(e).split('\n')[0][:100])
        ctx.mon('metal-shapes-compared')
        ctx.case(key=('metal', shape, fb, bool(pre), bool(post)), nontrivial=True)
        if out != want or len(calls) != 1:
            key = 'on-error-with-metal:' + shape
            if shape == 'handler-on-fill-slot' and out.startswith('RAISED Boom'):
                key = 'on-error-on-fill-slot-element-ignored'
            if shape == 'dict-attributes' and out.startswith("RAISED AttributeError: 'NoneType' object has no attribute '_fields'"):
                key = 'on-error-with-dictionary-attributes-and-static-attribute-crashes-compiler'
            ctx.violation(key, 'template %r\n  rendered %r (handler calls %d)\n  expected %r' % (src, out, len(calls), want),
                          {'kind': 'metal', 'src': src, 'shape': shape})


def classify(root, table, got, want, groups):
    # known mechanism: local definitions of an abandoned element are not restored (restore code is
    # straight-line, not finally), so they stay visible after the on-error element
    for q in ({'onerror-keeps-locals'}, {'onerror-keeps-locals', 'onerror-omit-reevaluated'}):
        alt = tmodel.run_model(root, table, quirks=q)
        if alt['out'] is not None:
            alt['out'] = '<root>' + alt['out'] + '</root>'
        if tmodel.same(got, alt, with_handled=True, groups=groups):
            return 'locals-of-abandoned-element-stay-bound'
    if got['exc'] != want['exc']:
        return 'exception-differs:%s' % (got['exc'] or 'none').split(':')[0].replace(' ', '-')
    if got['out'] != want['out']:
        return 'output-differs'
    if got['handled'] != want['handled']:
        return 'handler-calls-differ'
    return 'evaluation-log-differs'


def replay(data):
    if data.get('kind') == 'starttag':
        from chameleon import PageTemplate
        cfg = dict(data.get('cfg') or {})
        if 'boolean_attributes' in cfg:
            cfg['boolean_attributes'] = set(cfg['boolean_attributes'])

        def boom(i):
            raise KeyError(i)
        ok = PageTemplate(data['src'], **cfg)(f=lambda i: 'v')
        bad = PageTemplate(data['src'], **cfg)(f=boom)
        st = ok[ok.find('<', ok.find('<o>') + 1 if '<o>' in ok else 0):]
        st = st[:st.find('>') + 1]
        return st not in bad, 'source %r options %r\nbody succeeds: %r\nbody fails:    %r' % (data['src'], cfg, ok, bad)
    if 'table' not in data:
        return True, 're-run ./vcheck C13 with the same seed; case: %r' % (data,)
    table = {int(k): (tuple(v) if isinstance(v, list) else v) for k, v in data['table'].items()}
    got = tmodel.run_real(data['src'], table)
    m = data['model']
    text = 'source %r\ntable %r\nreal  %r\nmodel %r' % (data['src'], table, got, m)
    return (got['out'], got['log'], got['exc'], got['handled']) != (m['out'], m['log'], m['exc'], m['handled']), text
