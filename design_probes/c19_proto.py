import random, sys
sys.path.insert(0, '/repo/src')
from chameleon import PageTemplate
from chameleon.exc import ExpressionError, TemplateError
rng = random.Random(int(sys.argv[1]))
BAD = 'bad7 +'
# sites: (template with {E}, reach condition as function of env)
SITES = [
 ('<p tal:condition="c">${{E}}</p>', lambda e: bool(e['c'])),
 ('<p tal:condition="c" tal:content="{E}">x</p>', lambda e: bool(e['c'])),
 ('<p tal:repeat="i xs">${{E}}</p>', lambda e: len(e['xs']) > 0),
 ('<p tal:repeat="i xs" tal:attributes="a {E}">x</p>', lambda e: len(e['xs']) > 0),
 ('<p tal:content="c | {E}">x</p>', lambda e: False),
 ('<p tal:content="nope | {E}">x</p>', lambda e: True),
 ('<p tal:replace="c" tal:attributes="a {E}">x</p>', lambda e: False),
 ('<p metal:define-macro="m">${{E}}</p>', lambda e: True),   # define-macro renders in place
 ('<tal:b condition="False"><p metal:define-macro="m">${{E}}</p></tal:b>', lambda e: False),
 ('<p tal:switch="c"><b tal:case="1">${{E}}</b><b tal:case="0">no</b></p>', lambda e: e['c'] == 1),
 ('<p tal:on-error="string:e" tal:content="{E}">x</p>', lambda e: 'handled'),
 ('<p tal:omit-tag="c" tal:attributes="a {E}">x</p>', lambda e: not e['c']),
 ('<p tal:define="q {E}">x</p>', lambda e: True),
 ('<p tal:content="string:a ${{E}}">x</p>', lambda e: True),
 ('<p tal:content="not: {E}">x</p>', lambda e: True),
 ('<p tal:content="exists: {E}">x</p>', lambda e: True),
 ('<p class="${{E}}">x</p>', lambda e: True),
 ('<!-- ${{E}} -->', lambda e: True),
 ('<p i18n:translate="">a ${{E}}</p>', lambda e: True),
 ('<p tal:condition="c"><b tal:content="1">x</b></p>${{E}}', lambda e: True),
]
from collections import Counter
stats = Counter()
for tpl, reach in SITES:
    src = '<r>' + tpl.replace('{E}', BAD) + '</r>'
    valid = '<r>' + tpl.replace('{E}', "'ok'") + '</r>'
    off = src.index(BAD)
    # strict must fail at compile
    try: PageTemplate(src, strict=True); stats['strict-accepted!'] += 1; print('STRICT ACCEPTED', src)
    except ExpressionError as e:
        if e.offset == off and str(e.token) == BAD: stats['strict-ok'] += 1
        else: stats['strict-badloc'] += 1; print('STRICT LOC', src, e.offset, off, repr(str(e.token)))
    try: t = PageTemplate(src, strict=False)
    except Exception as e: stats['nonstrict-compile-fail'] += 1; print('NONSTRICT COMPILE FAIL', src, type(e).__name__); continue
    tv_s = PageTemplate(valid, strict=True); tv_n = PageTemplate(valid, strict=False)
    for c in (0, 1):
        for xs in ([], [1]):
            env = dict(c=c, xs=xs)
            r = reach(env)
            a, b = tv_s(**env), tv_n(**env)
            if a != b: stats['valid-differs'] += 1; print('VALID DIFFERS', valid, env)
            try:
                out = t(**env); res = 'rendered'
            except ExpressionError as e:
                res = 'raised' if (e.offset == off and str(e.token) == BAD) else 'raised-badloc(%s,%r)' % (e.offset, str(e.token))
            except Exception as e: res = 'other ' + type(e).__name__
            want = 'rendered' if (r is False or r == 'handled') else 'raised'
            if res == want: stats['iff-ok'] += 1
            else: stats['iff-BAD'] += 1; print('IFF BAD', src, env, 'want', want, 'got', res)
print(dict(stats))
