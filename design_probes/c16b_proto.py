"""Loader resolution model over random directory layouts."""
import random, sys, os, shutil, tempfile
sys.path.insert(0, '/repo/src')
from chameleon import PageTemplateLoader, PageTemplateFile
from chameleon.loader import TemplateLoader
rng = random.Random(int(sys.argv[1]))
from collections import Counter
stats = Counter(); shown = 0
for case in range(int(sys.argv[2])):
    root = tempfile.mkdtemp(dir='/tmp/exp/ld')
    dirs = [os.path.join(root, 'd%d' % i) for i in range(rng.randint(1, 3))]
    files = {}
    names = ['a.pt', 'b.pt', 'c', 'c.pt', 'x.y.pt', 'sub/a.pt', 'a.txt', 'b']
    for d in dirs:
        os.makedirs(os.path.join(d, 'sub'), exist_ok=True)
        for nm in names:
            if rng.random() < .45:
                p = os.path.join(d, nm); open(p, 'w').write('F:%s:%s' % (os.path.basename(d), nm)); files[p] = True
    ext = rng.choice([None, '.pt', 'pt', '.txt'])
    L = PageTemplateLoader(list(dirs), default_extension=ext) if ext else PageTemplateLoader(list(dirs))
    def resolve(spec):
        s = spec.strip()
        if ext and '.' not in s: s += '.' + ext.lstrip('.')
        if os.path.isabs(s): return s if os.path.exists(s) else 'OPENFAIL'
        for d in dirs:
            p = os.path.join(d, s)
            if os.path.exists(p): return p
        return None
    seen = {}
    for q in range(8):
        k = rng.random()
        if k < .7: spec = rng.choice(['a.pt', 'a', 'b', 'b.pt', 'c', 'c.pt', 'x.y.pt', 'x.y', 'sub/a.pt', 'sub/a', 'a.txt', ' a.pt ', 'nope', 'nope.pt'])
        else:
            cand = list(files) or [os.path.join(dirs[0], 'zz.pt')]
            spec = rng.choice(cand)
        want = resolve(spec)
        try:
            t = L.load(spec); got = t.filename
            try: out = t()
            except OSError: out = 'OPENFAIL'; got = 'OPENFAIL' if want == 'OPENFAIL' else got
        except ValueError as e: got = None; out = None
        ok = (got == want) and (want in (None, 'OPENFAIL') or out == open(want).read())
        if ok and spec in seen and want not in (None,) and seen[spec] is not t: ok = False; got = 'NOT-SAME-INSTANCE'
        if want is not None and got == want: seen[spec] = t
        stats['ok' if ok else 'BAD'] += 1
        if not ok and shown < 8: shown += 1; print('BAD ext=%r spec=%r want=%s got=%s' % (ext, spec, want, got))
    # load: inside file template looks next to the template first
    d_other = dirs[-1]
    inc = os.path.join(d_other, 'inc.pt'); open(inc, 'w').write('<i tal:define="t load: a.pt" tal:replace="structure t()"/>')
    try:
        got = L.load('inc.pt')()
        near = os.path.join(d_other, 'a.pt')
        wantp = near if os.path.exists(near) else resolve('a.pt')
        want = open(wantp).read() if wantp else 'VALUEERR'
    except Exception as e: got = 'VALUEERR' if isinstance(e, ValueError) else 'ERR %s' % type(e).__name__
    if got == want: stats['load-ok'] += 1
    else:
        stats['load-BAD'] += 1
        if shown < 8: shown += 1; print('LOAD BAD want', want, 'got', got, 'dirs', [os.path.basename(d) for d in dirs])
    shutil.rmtree(root)
print(dict(stats))
