"""A Python-expression grammar rich in braces, quotes and '$', with an
independent oracle: the expected value of a generated expression is
eval(expr, builtins + ENV) in plain Python (never Chameleon).

Expressions are complete and bracket-balanced by construction, which is what
makes the by-construction expectation of C06/C20 sound (DESIGN.md §3 C06).
"""
import html
import html.entities
import re


class Obj:
    """Object with a hostile __str__ (no __html__)."""
    def __init__(self, s='O<&>"\''):
        self.s = s

    def __str__(self):
        return self.s

    def __repr__(self):
        return 'Obj(%r)' % self.s


class Markup:
    """Object offering __html__ (opt-out of escaping)."""
    def __init__(self, s='<b class="m">M&amp;</b>'):
        self.s = s

    def __html__(self):
        return self.s

    def __repr__(self):
        return 'Markup(%r)' % self.s


class SafeStr(str):
    """a 'safe string' in the style of markupsafe.Markup: a str subclass offering __html__ whose + and % escape the OTHER
    operand - whatever the engine concatenates it with must not go through these operators"""

    def __html__(self):
        return self

    def __add__(self, other):
        return SafeStr(str.__add__(self, escape_text(str(other))))

    def __radd__(self, other):
        return SafeStr(str.__add__(escape_text(str(other)), self))

    def __mod__(self, other):
        return SafeStr(str.__mod__(self, escape_text(str(other))))


class Ticker:
    """${tick()} - an expression whose value differs from evaluation to evaluation (1, 2, 3 ...): the same source text
    written several times stands for several evaluations."""

    def __init__(self):
        self.n = 0

    def __call__(self):
        self.n += 1
        return self.n

    def reset(self):
        self.n = 0


def make_env():
    return dict(v='VAL<&>', n=7, d={'k': 'KV', 'b': '}', 'q': '"\''}, s='a"b', lst=[1, 2, 3],
                t="it's", e='', z=0, fl=2.5, by=b'by<', nn=None, o=Obj(), h=Markup(),
                uni='é日', dd={'x': {'y': 'deep}'}}, ss=SafeStr('<safe&>'), tick=Ticker())


STR_BODIES = ['}', '{', '${', '$', '{}', '}}', '}${', 'a}b', '$$', ' ', 'x', '{0}', '${v}', '&', '<', '>',
              'é', '$${', ';', '\\\\', ':', '&copy=2', '&reg', '?a=1&currency=2', '&lt', '\x96', '&notin ', '&amp=',
              # runs of white space inside a literal are part of the value, wherever the expression is written
              '  ', 'a   b', '\t', ' \t ', '\xa0 ', ' - ']


def gen_string_literal(rng, avoid=''):
    body = ''.join(rng.choice(STR_BODIES) for _ in range(rng.randint(0, 3)))
    quotes = [q for q in ('"', "'") if q not in avoid] or ['"']
    q = rng.choice(quotes)
    # optionally embed the other quote
    other = "'" if q == '"' else '"'
    if other not in avoid and rng.random() < .3:
        body += other
    return q + body + q


def gen_expr(rng, depth=0, avoid=''):
    """Return python source of an expression (no newlines unless multi-line knob)."""
    r = rng.random()
    if depth > 2 or r < .18:
        return rng.choice(['v', 'n', 's', 't', 'z', 'fl', 'uni', 'e', "d['k']" if "'" not in avoid else 'd["k"]',
                           '42', '-1', 'True', 'lst'] + ([
                               # literals holding empty lines: one character per line break, whatever it is turned into
                               "len('''a\n\nb''')", 'len("""p\n \n\nq""")', "len('''x\n\n\n''') + n"] if not avoid else []))
    if r < .34:
        return gen_string_literal(rng, avoid)
    if r < .42:
        k = gen_string_literal(rng, avoid)
        return '{%s: %s}[%s]' % (k, gen_expr(rng, depth + 1, avoid), k)
    if r < .48:
        return '{1: {2: %s}}[1][2]' % gen_expr(rng, depth + 1, avoid)
    if r < .53:
        return 'len({%s, %s})' % (rng.choice(['n', 'v', 's', 'fl']), gen_string_literal(rng, avoid))
    if r < .63:
        if '"' in avoid and "'" in avoid:
            return 'n'
        q = rng.choice([x for x in ('"', "'") if x not in avoid])
        inner = rng.choice(['{n}', '{n:>3}', '{{}}', '{{{n}}}', '{v!r:.6}', '{lst[0]}', 'a}}b', '{n + 1}',
                            '{dd}', '$$', '${{n}}', '{fl:.1f}'])
        return 'f' + q + inner + q
    if r < .69:
        return '(lambda: {"q": %s})()["q"]' % gen_expr(rng, depth + 1, avoid) if '"' not in avoid else \
               "(lambda: {'q': %s})()['q']" % gen_expr(rng, depth + 1, avoid)
    if r < .75:
        return '[x for x in (%s, %s)]' % (gen_expr(rng, 3, avoid), gen_expr(rng, 3, avoid))
    if r < .80:
        return '%s if %s else %s' % (gen_expr(rng, depth + 1, avoid), rng.choice(['n', 'z', 'e', 'v']),
                                     gen_expr(rng, depth + 1, avoid))
    if r < .85:
        return 'str(%s) + %s' % (gen_expr(rng, depth + 1, avoid), gen_string_literal(rng, avoid))
    if r < .89:
        q = '"' if "'" in avoid else "'"
        return rng.choice(["Q%s}Q % (n,)", "Q{%d}Q % n", "Q{}Q.format(n)", "Q{0}}}Q.format(v)",
                           "Q${%s}Q % v"]).replace('Q', q)
    if r < .93:
        return rng.choice(['1 < 2', 'n > 3 and v', 'n & 6', '(n >> 1)', 'not z', 'n <= 7 < 8'])
    if r < .96:
        return '{%s: %s}' % (gen_string_literal(rng, avoid), gen_expr(rng, 3, avoid))
    return '(%s, %s)[%d]' % (gen_expr(rng, depth + 1, avoid), gen_expr(rng, depth + 1, avoid), rng.randint(0, 1))


def spread(rng, expr):
    """The same expression written over several lines: line breaks (plus indentation) are inserted after operators
    and brackets OUTSIDE string literals; the value is that of the one-line spelling."""
    import io
    import tokenize
    try:
        toks = list(tokenize.generate_tokens(io.StringIO(expr).readline))
    except (tokenize.TokenError, SyntaxError, IndentationError):
        return expr
    out = []
    pos = 0
    infstr = 0
    for t in toks:
        if t.type in (tokenize.NEWLINE, tokenize.ENDMARKER, tokenize.NL):
            continue
        if t.start[0] != 1:
            return expr
        out.append(expr[pos:t.end[1]])
        pos = t.end[1]
        name = tokenize.tok_name[t.type]
        if name == 'FSTRING_START':
            infstr += 1
        elif name == 'FSTRING_END':
            infstr -= 1
        if not infstr and ((t.type == tokenize.OP and t.string in (',', '+', '(', '[', '{', ':', '%', '&', '<', '>', '==')) or
                           (t.type == tokenize.NAME and t.string in ('and', 'or', 'if', 'else', 'in', 'not'))) and rng.random() < .5:
            out.append(rng.choice(['\n', '\n  ', '\n\t', '\n\n ', '\r\n ']))
    out.append(expr[pos:])
    res = ''.join(out)
    if res == expr:
        return expr
    return rng.choice(['', '\n ']) + res + rng.choice(['', '\n'])


def evaluate(expr, env):
    """Independent oracle: plain Python eval, template variables over builtins."""
    import builtins
    ns = dict(vars(builtins))
    ns.update(env)
    return eval(expr, ns)


def to_text(value):
    """String form of an inserted value (before escaping), per C02/C20's conversion rule."""
    if value is None:
        return ''
    if isinstance(value, bytes):
        return value.decode('utf-8')
    if isinstance(value, str):
        return str.__str__(value)
    if hasattr(value, '__html__'):
        return value.__html__()
    return str(value)


def escape_text(s):
    return s.replace('&', '&amp;').replace('<', '&lt;').replace('>', '&gt;')


def escape_attr(s, quote):
    s = escape_text(s)
    if quote == '"':
        s = s.replace('"', '&quot;')
    elif quote == "'":
        s = s.replace("'", '&#39;')
    return s


def encode_expr_for_markup(rng, expr, quote=None):
    """Write expression source inside XML text/attribute: '<' and '&' must be
    entity-encoded (they would otherwise end the text token / be ambiguous),
    '>' and quotes optionally.  The property says entities are decoded before
    evaluation, so the oracle evaluates the *original* expr."""
    out = []
    for i, ch in enumerate(expr):
        if ch == '&':
            # a '&' that does not start a terminated reference may also stand as it is
            if rng.random() < .4 and not re.match(r'#?\w{1,8};', expr[i + 1:i + 11]):
                out.append('&')
            else:
                out.append('&amp;')
        elif ch == '\x96':
            out.append(rng.choice(['\x96', '&#150;', '&#x96;']))
        elif ch == '<':
            out.append(rng.choice(['&lt;', '&#60;']))
        elif ch == '>':
            out.append(rng.choice(['>', '&gt;']))
        elif quote is not None and ch == quote:
            out.append('&quot;' if quote == '"' else rng.choice(['&#39;', '&apos;']))
        elif ch == '"' and rng.random() < .15:
            out.append('&quot;')
        else:
            out.append(ch)
    return ''.join(out)


def decode_terminated(s):
    """Decode character references that are terminated by ';' (and only those): the documented rule for
    the text of an expression."""
    return re.sub(r'&(#?)(x?)(\d{1,5}|\w{1,8});', lambda m: html.unescape(m.group()) if (
        m.group(1) or m.group(3) in html.entities.name2codepoint or m.group(3) == 'apos') and not (
        m.group(1) and 128 <= _num(m) <= 159) else (chr(_num(m)) if m.group(1) else m.group()), s)


def _num(m):
    try:
        return int(m.group(3), 16 if m.group(2) else 10)
    except ValueError:
        return -1


def undouble(lit):
    """'$$' -> '$' scanning left to right (the documented escape)."""
    out = []
    i = 0
    while i < len(lit):
        if lit.startswith('$$', i):
            out.append('$')
            i += 2
        else:
            out.append(lit[i])
            i += 1
    return ''.join(out)


def trailing_dollars(s):
    n = 0
    while n < len(s) and s[-n - 1] == '$':
        n += 1
    return n
