"""C15 — the on-disk module cache is sound and crash-safe.

(a) soundness histories: pairs of template configurations differing in exactly one
    constructor option (or body / class / filename), compiled in either order into
    ONE cache directory, in one process and across two processes; every render must
    equal the no-cache render of the same configuration.  Only pairs whose no-cache
    renders differ count (measured).
(b) crash points, enumerated from a complete run of the current tree:
      - every file-system audit event raised inside ModuleLoader.build/_load/get
        (os._exit just before the k-th one),
      - every LINE event of ModuleLoader.build/_load (os._exit at the k-th one: the
        points *between* open / write / close / rename),
      - in-process aborts: KeyboardInterrupt / MemoryError raised at each LINE event,
      - SIGKILL injected by strace at the N-th write/rename/close/openat syscall that
        touches the cache directory (truncated temp-file states), quick: a sample.
    After each crash: a fresh process using the same directory must render exactly
    the reference, and every *.py entry in the directory must be identical (after normalising the id()-derived numbers in generated identifiers) to the
    complete module a clean run stores under that name.
(c) two writers: process A parked at its k-th file-system step of storing the entry
    while process B stores the same entry to completion, then A resumes; A, B and a
    fresh third process must all render the reference.
"""
import json
import os
import shutil
import subprocess
import tempfile

from vlib import env

PROP = 'C15'
TITLE = 'module cache sound and crash-safe'
LEVEL = 'fault_enumeration'
SHARDS = {'quick': 16, 'thorough': 16}
TIMEOUT = {'quick': 1200, 'thorough': 7200}
FLOOR = {'quick': 60, 'thorough': 150}
REQUIRED_MONITORS = {'pairs-compared': 30, 'crashes-survived-check': 40, 'child-died-at-step': 40, 'two-writer-schedules': 8, 'sigkill-crashes': 3}
RULE = ('(a) one pair per option in {boolean_attributes, implicit_i18n_attributes, implicit_i18n_translate, '
        'trim_attribute_space, enable_data_attributes, enable_comment_interpolation, restricted_namespace, '
        'default_expression, strict, extra_builtins, mode, body, class (subclass, other subclass, text class), filename} x '
        'order {AB, BA} x split {same process, two processes}; non-trivial iff the two no-cache renders differ (measured); '
        '(b) one case per crash step k = 1..K for each injector (K measured from a complete run of the current tree), '
        'non-trivial iff the child actually died at that step; (c) one case per (parked step, role). Distinct by '
        '(option, order, split) / (injector, step, template) / (parked step, template).')
ASSUMPTIONS = ['POSIX rename atomicity; os._exit / SIGKILL as the crash model (no power-loss reordering of directory '
               'operations: the file system is assumed to apply operations in program order)',
               'strace -e inject delivers the signal on syscall entry (verified in this sandbox)']

CHILD = os.path.join(env.VERIF, 'vlib', 'c15_child.py')

SRC = ('<?python q = 1 ?><input data-tal-content="1" foo="${1}" checked="${1}" tal:attributes="foo v" title="T"  '
       'class="a   b"/><!-- ${1} --><p>text  here</p><p tal:content="string:lit">x</p>')
NSBODY = '<p x:y="1">q</p>'
STRICTBODY = '<p tal:condition="False">${bad +}</p>ok'
VARIANTS = {
    'boolean_attributes': ({}, {'cfg': {'boolean_attributes': ['foo']}}),
    'implicit_i18n_attributes': ({}, {'cfg': {'implicit_i18n_attributes': ['title']}}),
    'implicit_i18n_translate': ({}, {'cfg': {'implicit_i18n_translate': True}}),
    'trim_attribute_space': ({}, {'cfg': {'trim_attribute_space': True}}),
    'enable_data_attributes': ({}, {'cfg': {'enable_data_attributes': True}}),
    'enable_comment_interpolation': ({}, {'cfg': {'enable_comment_interpolation': False}}),
    'restricted_namespace': ({'body': NSBODY}, {'body': NSBODY, 'cfg': {'restricted_namespace': False}}),
    'default_expression': ({}, {'cfg': {'default_expression': 'string'}}),
    'strict': ({'body': STRICTBODY, 'cfg': {'strict': False}}, {'body': STRICTBODY, 'cfg': {'strict': True}}),
    'cls-subclass': ({}, {'cls': 'MyPT'}),
    'cls-two-subclasses': ({'cls': 'OtherPT'}, {'cls': 'MyPT'}),
    'cls-text': ({'body': 'a <b tal:content="1">x</b> ${v}'}, {'body': 'a <b tal:content="1">x</b> ${v}', 'cls': 'PageTextTemplate'}),
    'mode': ({'body': 'a <b tal:content="1">x</b> ${v}'}, {'body': 'a <b tal:content="1">x</b> ${v}', 'cfg': {'mode': 'text'}}),
    'filename': ({}, {'cfg': {'filename': '/x/other.pt'}}),
    # the file name is part of every render error message: same basename, different directory
    'filename-same-basename-in-error': ({'body': '<p>${v}</p>\n<p>${1/0}</p>', 'cfg': {'filename': '/x/default/page.pt'}},
                                        {'body': '<p>${v}</p>\n<p>${1/0}</p>', 'cfg': {'filename': '/x/custom/page.pt'}}),
    'filename-in-error': ({'body': '<p>${v}</p>\n<p>${1/0}</p>', 'cfg': {'filename': '/x/a.pt'}},
                          {'body': '<p>${v}</p>\n<p>${1/0}</p>', 'cfg': {'filename': '/x/b.pt'}}),
    'body': ({}, {'body': '<p>other</p>'}),
    'body-crlf-vs-lf-xml': ({'body': '<?xml version="1.0"?>\r\n<p>a\r\nb ${v}</p>\r\n'}, {'body': '<?xml version="1.0"?>\n<p>a\nb ${v}</p>\n'}),
    'body-cr-vs-lf-xml': ({'body': '<?xml version="1.0"?>\r<p>a\rb ${v}</p>'}, {'body': '<?xml version="1.0"?>\n<p>a\nb ${v}</p>'}),
    'body-crlf-vs-lf-html': ({'body': '<p>a\r\nb ${v}</p>\r\n'}, {'body': '<p>a\nb ${v}</p>\n'}),
    'body-inner-whitespace': ({'body': '<p class="a  b">a  b ${v}</p>'}, {'body': '<p class="a b">a b ${v}</p>'}),
    'body-letter-case': ({'body': '<P Title="T">x ${v}</P>'}, {'body': '<p title="T">x ${v}</p>'}),
    # the same document as str and as bytes: how it is classified (XML or HTML) is not part of the cache key,
    # so both inputs must be classified alike
    'input-str-vs-bytes-space-before-xml-declaration': (
        {'body': '\n <?xml version="1.0"?>\r\n<input checked="${1}" tal:attributes="selected v"/>\r\n'},
        {'body': '\n <?xml version="1.0"?>\r\n<input checked="${1}" tal:attributes="selected v"/>\r\n', 'as_bytes': 'utf-8'}),
    'input-str-vs-bytes-xml-declaration': (
        {'body': '<?xml version="1.0"?>\r\n<input checked="${1}"/>\r\n<p>\xe9</p>'},
        {'body': '<?xml version="1.0"?>\r\n<input checked="${1}"/>\r\n<p>\xe9</p>', 'as_bytes': 'utf-8'}),
    'input-str-vs-bytes-html': ({'body': '<input checked="${1}"/>\r\n<p>\xe9</p>'}, {'body': '<input checked="${1}"/>\r\n<p>\xe9</p>', 'as_bytes': 'utf-8'}),
    # file templates with very long names (the module name is built from the file name and the digest)
    'long-file-name-edited': ({'file_name': 'report_' + 'x' * 150 + '.pt', 'body': '<p>version ONE ${v}</p>'},
                              {'file_name': 'report_' + 'x' * 150 + '.pt', 'body': '<p>version TWO ${v}</p>'}),
    'long-file-name-two-directories': ({'file_name': 'page_' + 'y' * 130 + '.pt', 'file_sub': 'site_a', 'body': '<p>site A ${v}</p>'},
                                       {'file_name': 'page_' + 'y' * 130 + '.pt', 'file_sub': 'site_b', 'body': '<p>site B ${v}</p>'}),
    'long-file-name-option': ({'file_name': 'form_' + 'z' * 160 + '.pt', 'body': SRC}, {'file_name': 'form_' + 'z' * 160 + '.pt', 'body': SRC, 'cfg': {'trim_attribute_space': True}}),
    'file-name-edited': ({'file_name': 'short.pt', 'body': '<p>version ONE ${v}</p>'}, {'file_name': 'short.pt', 'body': '<p>version TWO ${v}</p>'}),
    # debug mode writes the template's file name into the first line of the stored module: whatever that name looks like,
    # the module is read back as the UTF-8 text it was written as
    'debug-file-name-looking-like-a-coding-declaration': (
        {'body': '<p>\xe9\u65e5\u672c ${v}</p>', 'cfg': {'debug': True, 'filename': '/x/charset-encoding=latin-1/page.pt'}, 'expect': '<p>\xe9\u65e5\u672c 1</p>'},
        {'body': '<p>\xe9\u65e5\u672c ${v}</p>', 'cfg': {'debug': True, 'filename': '/x/page.pt?coding:cp1251'}, 'expect': '<p>\xe9\u65e5\u672c 1</p>'}),
    # a long-lived template object that is re-configured after its first compilation and then given a new document: what it
    # stores is what a fresh template of the new configuration and document stores
    'long-lived-object-reconfigured-then-rewritten': (
        {'body': '<p tal:content="v">x</p>', 'then': {'set': {'default_expression': 'string'}, 'write': '<p class="note" tal:content="title">x</p>'},
         'expect': '<p class="note">title</p>'},
        {'body': '<p class="note" tal:content="title">x</p>', 'cfg': {'default_expression': 'string'}, 'expect': '<p class="note">title</p>'}),
    'long-lived-object-option-switched-then-rewritten': (
        {'body': '<input data-tal-content="1" checked="${v}"/>', 'then': {'set': {'enable_data_attributes': True, 'boolean_attributes': ['checked']},
                                                                            'write': '<input data-tal-content="2" checked="${v}" />'},
         'expect': '<input checked="checked">2</input>'},
        {'body': '<input data-tal-content="2" checked="${v}" />', 'cfg': {'enable_data_attributes': True, 'boolean_attributes': ['checked']},
         'expect': '<input checked="checked">2</input>'}),
    'body-trailing-newline': ({'body': '<p>x ${v}</p>\n'}, {'body': '<p>x ${v}</p>'}),
    'extra_builtins': ({'body': '<p>${zz|0}</p>'}, {'body': '<p>${zz|0}</p>', 'cfg': {'extra_builtins': {'zz': 1}}}),
    'extra_builtins-names-concatenate': ({'body': '<p>${ab|"-"};${c|"-"};${a|"-"};${bc|"-"}</p>', 'cfg': {'extra_builtins': {'ab': 'AB', 'c': 'C'}}},
                                         {'body': '<p>${ab|"-"};${c|"-"};${a|"-"};${bc|"-"}</p>', 'cfg': {'extra_builtins': {'a': 'A', 'bc': 'BC'}}}),
    # the same names and values, the mapping filled in another order (two call sites; a mapping built from a set)
    'extra_builtins-same-mapping-other-insertion-order': ({'body': '<p>${ka} - ${kb} - ${kc}</p>', 'cfg': {'extra_builtins': {'ka': 'A', 'kb': 'B', 'kc': 'C'}}},
                                                          {'body': '<p>${ka} - ${kb} - ${kc}</p>', 'cfg': {'extra_builtins': {'kc': 'C', 'ka': 'A', 'kb': 'B'}}}),
    'extra_builtins-same-names-other-values': ({'body': '<p>${zz|0}</p>', 'cfg': {'extra_builtins': {'zz': 1}}},
                                               {'body': '<p>${zz|0}</p>', 'cfg': {'extra_builtins': {'zz': 2}}}),
    'boolean_attributes-unset-vs-empty': ({}, {'cfg': {'boolean_attributes': []}}),
    'boolean_attributes-empty-vs-set': ({'cfg': {'boolean_attributes': []}}, {'cfg': {'boolean_attributes': ['checked']}}),
    'default_expression-two': ({'cfg': {'default_expression': 'string'}}, {'cfg': {'default_expression': 'structure'}}),
    'boolean_attributes-two-sets': ({'cfg': {'boolean_attributes': ['foo']}}, {'cfg': {'boolean_attributes': ['title']}}),
    'implicit_i18n_attributes-two-sets': ({'cfg': {'implicit_i18n_attributes': ['title']}},
                                          {'cfg': {'implicit_i18n_attributes': ['class']}}),
}
CRASH_TEMPLATES = {
    'small': '<p tal:content="v">q</p><b>é</b>',
    'macro': '<div metal:define-macro="m"><i metal:define-slot="s">d</i></div><p metal:use-macro="template.macros[\'m\']"><b metal:fill-slot="s">${v}</b></p>',
    'large': '<ul>' + ''.join('<li class="c%d" tal:attributes="id %d">item ${v + %d} é</li>\n' % (i, i, i) for i in range(260)) + '</ul>',
}


def job(spec):
    j = {'body': SRC, 'cls': 'PageTemplate', 'cfg': {}}
    j.update(spec)
    return j


def run_child(jobs, cache=None, extra_env=None, timeout=120, strace=None):
    e = env.child_env(extra_env)
    if cache:
        e['CHAMELEON_CACHE'] = cache
    cmd = [env.PY, CHILD, json.dumps(jobs)]
    if strace:
        cmd = strace + cmd
    try:
        p = subprocess.run(cmd, env=e, capture_output=True, text=True, timeout=timeout, cwd=env.VERIF)
    except subprocess.TimeoutExpired:
        return {'rc': 'timeout', 'results': None, 'steps': {}, 'trace': [], 'stderr': ''}
    out = {'rc': p.returncode, 'results': None, 'steps': {}, 'trace': [], 'stderr': p.stderr[-600:]}
    try:
        d = json.loads(p.stdout)
        out.update(d)
    except Exception:
        pass
    return out


def normalise_module(data):
    # generated identifiers embed id()-derived numbers that differ from process to process
    import re
    return re.sub(rb'(0x)?[0-9a-f]{6,}', b'N', data)   # decimal ids and hex addresses in comments


def py_files(d):
    res = {}
    for fn in sorted(os.listdir(d)):
        if fn.endswith('.py'):
            with open(os.path.join(d, fn), 'rb') as f:
                res[fn] = normalise_module(f.read())
    return res


def listing(d):
    out = sorted(os.listdir(d))
    pc = os.path.join(d, '__pycache__')
    if os.path.isdir(pc):
        out += sorted('__pycache__/' + f for f in os.listdir(pc))
    return out


# --------------------------------------------------------------------------
def layer_soundness(ctx, tmp):
    names = sorted(VARIANTS)
    for idx, name in enumerate(names):
        if idx % ctx.nshards != ctx.shard:
            continue
        a, b = (job(x) for x in VARIANTS[name])
        for j in (a, b):
            if j.get('file_name'):
                j['file_dir'] = os.path.join(tmp, 'files_' + name, j.pop('file_sub', ''))
        ref_a = run_child([a])['results']
        ref_b = run_child([b])['results']
        if not ref_a or not ref_b:
            ctx.mark_inconclusive('no-cache reference run failed for %s' % name)
            continue
        ref_a, ref_b = ref_a[0], ref_b[0]
        for j, r in ((a, ref_a), (b, ref_b)):
            if 'expect' in j and r != j['expect']:
                ctx.violation('stored-module-read-back-differently:' + name, 'configuration %r renders %r, expected %r' % (j['cfg'], r, j['expect']),
                              {'kind': 'pair', 'option': name})
        trivial = ref_a == ref_b and 'expect' not in a
        ctx.cover('option-changes-nocache-output', '%s:%s' % (name, not trivial))
        for order in ('AB', 'BA'):
            for split in ('same-process', 'two-processes'):
                d = tempfile.mkdtemp(prefix='cache_', dir=tmp)
                pair = [a, b] if order == 'AB' else [b, a]
                want = [ref_a, ref_b] if order == 'AB' else [ref_b, ref_a]
                if split == 'same-process':
                    got = run_child(pair, d)['results']
                else:
                    r1 = run_child([pair[0]], d)['results'] or [None]
                    r2 = run_child([pair[1]], d)['results'] or [None]
                    got = r1 + r2
                ctx.mon('pairs-compared')
                ctx.case(key=('pair', name, order, split), nontrivial=not trivial,
                         sample={'option': name, 'order': order, 'split': split, 'no_cache': want, 'with_cache': got}
                         if order == 'AB' and split == 'two-processes' and idx < 3 else None)
                if got != want:
                    ctx.violation('cache-collision:' + name,
                                  'configurations differing in %s share a cache entry (%s, %s): with cache %r, without %r'
                                  % (name, order, split, got, want),
                                  {'kind': 'pair', 'option': name, 'order': order, 'split': split})
                shutil.rmtree(d, ignore_errors=True)


# --------------------------------------------------------------------------
# processes that differ in how the interpreter was started (python -O, an ASCII locale without UTF-8 mode, another hash
# seed) share one cache directory: each of them renders with the cache exactly as without, and what one of them stored
# serves the others
ENV_TEMPLATES = {
    'default': SRC,
    'non-ascii': '<p title="\u00e9\u65e5">\u00fc ${v} \u20ac<!-- \u00e7 --></p>',
    'nested-translation': ('<div i18n:translate="">Hello <span i18n:name="first"><b i18n:translate="">inner</b></span> and '
                           '<span i18n:name="second">two ${v}</span>!</div>'),
    'macro': CRASH_TEMPLATES['macro'],
    'switch-and-repeat': '<ul tal:switch="v"><li tal:case="1" tal:repeat="i (1, 2)">${i} ${repeat.i.end}</li><li tal:case="default">d</li></ul>',
}
PROCESS_ENVS = {
    'python -O': {'PYTHONOPTIMIZE': '1'},
    'python -OO': {'PYTHONOPTIMIZE': '2'},
    'ascii locale': {'LC_ALL': 'C', 'LANG': 'C', 'PYTHONCOERCECLOCALE': '0', 'PYTHONUTF8': '0'},
    'latin-1 io': {'LC_ALL': 'C', 'PYTHONCOERCECLOCALE': '0', 'PYTHONUTF8': '0', 'PYTHONIOENCODING': 'latin-1'},
    'other hash seed': {'PYTHONHASHSEED': '12345'},
}


def layer_process_environments(ctx, tmp):
    work = [(t, e) for t in sorted(ENV_TEMPLATES) for e in sorted(PROCESS_ENVS)]
    for idx, (tname, ename) in enumerate(work):
        if idx % ctx.nshards != ctx.shard:
            continue
        j = job({'body': ENV_TEMPLATES[tname]})
        ref = run_child([j])['results']
        if not ref:
            ctx.mark_inconclusive('no-cache reference run failed for %s' % tname)
            continue
        for order in ('other-writes-first', 'ordinary-writes-first'):
            d = tempfile.mkdtemp(prefix='cache_env_', dir=tmp)
            first_env, second_env = (PROCESS_ENVS[ename], None) if order == 'other-writes-first' else (None, PROCESS_ENVS[ename])
            r1 = run_child([j], d, extra_env=first_env)
            r2 = run_child([j], d, extra_env=second_env)
            ctx.mon('process-environment-pairs')
            ctx.case(key=('process-env', tname, ename, order), nontrivial=True)
            for which, r in (('first', r1), ('second', r2)):
                if r['results'] != ref:
                    ctx.violation('cache-shared-between-differently-started-processes:' + ename,
                                  'template %s, cache directory shared by an ordinary process and one started with %s (%s): the %s process rendered %r '
                                  '(rc %r, stderr %r), without a cache directory %r' % (tname, ename, order, which, r['results'], r['rc'], r['stderr'][-200:], ref),
                                  {'kind': 'process-env', 'template': tname, 'env': ename, 'order': order})
                    break
            shutil.rmtree(d, ignore_errors=True)


# --------------------------------------------------------------------------
def after_crash_check(ctx, d, jobs, ref, ref_files, what):
    """A fresh process on the same directory must render the reference; entries must be complete."""
    ctx.mon('crashes-survived-check')
    bad = []
    for fn, data in py_files(d).items():
        if fn in ref_files and data != ref_files[fn]:
            bad.append('entry %s is not the complete module (%d bytes, complete %d)' % (fn, len(data), len(ref_files[fn])))
        elif fn not in ref_files:
            bad.append('foreign entry %s' % fn)
    later = run_child(jobs, d)
    if later['results'] != ref:
        bad.append('a later process renders %r (rc %s, %s) instead of %r' % (
            later['results'], later['rc'], later['stderr'][-200:].strip().splitlines()[-1:] , ref))
    if bad:
        ctx.violation('crash-leaves-bad-entry:' + what.split(':')[0],
                      '%s; directory %r: %s' % (what, listing(d), '; '.join(bad)), {'kind': 'crash', 'what': what})
    return not bad


def layer_crash(ctx, tmp):
    work = []
    for tname, body in sorted(CRASH_TEMPLATES.items()):
        jobs = [job({'body': body})]
        work.append((tname, jobs))
    item = 0
    for tname, jobs in work:
        # complete run: reference output, reference entry, number of steps
        d0 = tempfile.mkdtemp(prefix='cache_ref_', dir=tmp)
        full = run_child(jobs, d0, {'C15_COUNT_LINES': '1'})
        ref = run_child(jobs)['results']
        if not full['results'] or full['results'] != ref:
            ctx.violation('cache-changes-output', 'with cache %r without %r' % (full['results'], ref), {'kind': 'ref', 't': tname})
            continue
        ref_files = py_files(d0)
        n_audit, n_line = full['steps']['audit'], full['steps']['line']
        ctx.cover('steps-audit', '%s:%d' % (tname, n_audit))
        ctx.cover('steps-line', '%s:%d' % (tname, n_line))
        if ctx.shard == 0:
            ctx.note('%s: file-system steps of a complete store: %s' % (tname, full['trace']))
        plans = [('audit', k) for k in range(1, n_audit + 1)] + [('line', k) for k in range(1, n_line + 1)]
        # an exception at every line step on both tiers (a stride would leave out single statements, and the statement between
        # two others is exactly where an ordering mistake shows); the second exception type alternates in the quick tier
        plans += [('raise-KeyboardInterrupt', k) for k in range(1, n_line + 1)]
        plans += [('raise-MemoryError', k) for k in range(1, n_line + 1, 1 if not ctx.quick else 2)]
        # a file-size limit reached while the module is stored (disk full / quota): limits from a few bytes up to the module size
        size = max(len(x) for x in ref_files.values()) if ref_files else 4000
        limits = sorted({1, 60, 1000, size // 3, size // 2, size - 1000, size - 1, size, size + 50} - {0}) if not ctx.quick else \
            sorted({60, size // 2, size - 1, size + 50})
        plans += [('fsize', k) for k in limits if k > 0]
        for inj, k in plans:
            item += 1
            if item % ctx.nshards != ctx.shard:
                continue
            d = tempfile.mkdtemp(prefix='cache_', dir=tmp)
            if inj == 'audit':
                r = run_child(jobs, d, {'C15_CRASH_AUDIT': str(k)})
                died = r['rc'] == 97
            elif inj == 'line':
                r = run_child(jobs, d, {'C15_CRASH_LINE': str(k)})
                died = r['rc'] == 97
            elif inj == 'fsize':
                r = run_child(jobs, d, {'C15_FSIZE': str(k)})
                died = r['results'] != ref          # the writer was hit by the limit
                if died:
                    ctx.mon('file-size-limit-hit-while-storing')
            else:
                # the process survives the injected exception and uses the same template again: the second use renders
                # what it renders without a cache directory
                r = run_child(jobs + jobs, d, {'C15_RAISE_LINE': '%d:%s' % (k, inj.split('-')[1])})
                died = bool(r['results']) and str(r['results'][0]).startswith('RAISED')
                if r['results'] and len(r['results']) == 2 * len(jobs):
                    ctx.mon('retries-in-the-surviving-process')
                    if r['results'][len(jobs):] != ref:
                        ctx.violation('retry-after-an-interrupted-load-fails', '%s injected at line step %d while %s was stored / loaded: the same process, '
                                      'using the template again, got %r; without a cache directory %r' % (inj, k, tname, r['results'][len(jobs):], ref),
                                      {'kind': 'crash', 'injector': inj, 'step': k, 'template': tname})
            if died:
                ctx.mon('child-died-at-step')
            ctx.case(key=('crash', inj, k, tname), nontrivial=died,
                     sample={'injector': inj, 'step': k, 'template': tname, 'left_behind': listing(d)} if k in (3, 4) and tname == 'small' else None)
            after_crash_check(ctx, d, jobs, ref, ref_files, '%s:%s step %d of %s' % (inj, tname, k, n_audit if inj == 'audit' else n_line))
            shutil.rmtree(d, ignore_errors=True)
        # the entry exists already (a later process loads it instead of storing it): an exception at every line step of
        # that load; the process survives, uses the template again and must get what it gets without a cache directory
        if tname != 'large':
            n_load = run_child(jobs, d0, {'C15_COUNT_LINES': '1'})['steps'].get('line', 0)
            ctx.cover('steps-line-load-of-stored-entry', '%s:%d' % (tname, n_load))
            for exc in ('KeyboardInterrupt', 'MemoryError'):
                for k in range(1, n_load + 1):
                    item += 1
                    if item % ctx.nshards != ctx.shard:
                        continue
                    d = os.path.join(tempfile.mkdtemp(prefix='cache_', dir=tmp), 'c')
                    shutil.copytree(d0, d)
                    r = run_child(jobs + jobs, d, {'C15_RAISE_LINE': '%d:%s' % (k, exc)})
                    died = bool(r['results']) and str(r['results'][0]).startswith('RAISED')
                    if r['results'] and len(r['results']) == 2 * len(jobs):
                        ctx.mon('retries-after-an-interrupted-load-of-a-stored-entry')
                        if r['results'][len(jobs):] != ref:
                            ctx.violation('retry-after-an-interrupted-load-fails', '%s injected at line step %d while the stored entry of %s was loaded: the '
                                          'same process, using the template again, got %r; without a cache directory %r'
                                          % (exc, k, tname, r['results'][len(jobs):], ref),
                                          {'kind': 'crash', 'injector': 'raise-%s-on-load' % exc, 'step': k, 'template': tname})
                    ctx.case(key=('crash', 'raise-on-load-' + exc, k, tname), nontrivial=died)
                    after_crash_check(ctx, d, jobs, ref, ref_files, 'raise-%s-on-load:%s step %d of %d' % (exc, tname, k, n_load))
                    shutil.rmtree(os.path.dirname(d), ignore_errors=True)
        shutil.rmtree(d0, ignore_errors=True)


def other_filesystem(tmp):
    """A writable directory on another file system than the temporary directory, or None."""
    for cand in ('/dev/shm', '/run/shm', os.path.expanduser('~'), '/var/tmp'):
        try:
            if os.path.isdir(cand) and os.access(cand, os.W_OK) and os.stat(cand).st_dev != os.stat(tmp).st_dev:
                return cand
        except OSError:
            continue
    return None


def layer_crash_other_filesystem(ctx, tmp):
    """The cache directory on another file system than the process's temporary directory (a mounted volume, a
    tmpfs): an entry must still be published atomically - crash at every file-system step of the store."""
    base = other_filesystem(tmp)
    if base is None:
        ctx.note('no second writable file system in this sandbox: cross-file-system crash points skipped')
        ctx.cover('other-filesystem', 'unavailable')
        return
    ctx.cover('other-filesystem', base)
    root = tempfile.mkdtemp(prefix='verif_c15_', dir=base)
    try:
        item = 0
        for tname in ('small', 'large'):
            jobs = [job({'body': CRASH_TEMPLATES[tname]})]
            d0 = tempfile.mkdtemp(prefix='cache_ref_', dir=root)
            full = run_child(jobs, d0, {'C15_COUNT_LINES': '1'})
            ref = run_child(jobs)['results']
            if not full['results'] or full['results'] != ref:
                ctx.violation('cache-changes-output', 'cache on %s: with cache %r without %r' % (base, full['results'], ref), {'kind': 'ref', 't': tname})
                continue
            ref_files = py_files(d0)
            n_audit = full['steps']['audit']
            for k in range(1, n_audit + 1):
                item += 1
                if item % ctx.nshards != ctx.shard:
                    continue
                d = tempfile.mkdtemp(prefix='cache_', dir=root)
                r = run_child(jobs, d, {'C15_CRASH_AUDIT': str(k)})
                died = r['rc'] == 97
                if died:
                    ctx.mon('child-died-at-step')
                    ctx.mon('other-filesystem-crashes')
                ctx.case(key=('crash-xfs', k, tname), nontrivial=died)
                after_crash_check(ctx, d, jobs, ref, ref_files, 'audit-other-filesystem:%s step %d of %d (cache on %s)' % (tname, k, n_audit, base))
                shutil.rmtree(d, ignore_errors=True)
            shutil.rmtree(d0, ignore_errors=True)
    finally:
        shutil.rmtree(root, ignore_errors=True)


def layer_strace(ctx, tmp, cache_root=None):
    """SIGKILL at the N-th syscall touching the cache directory (cache_root: where the cache directories are
    made - by default next to everything else, else a directory on another file system)."""
    if not shutil.which('strace'):
        ctx.note('strace not available: syscall-level crash points skipped')
        return
    tag = '' if cache_root is None else '-other-filesystem'
    logdir = tmp
    tmp = cache_root or tmp
    tname = 'large'
    jobs = [job({'body': CRASH_TEMPLATES[tname]})]
    ref = run_child(jobs)['results']
    d0 = tempfile.mkdtemp(prefix='cache_ref_', dir=tmp)
    full = run_child(jobs, d0)
    ref_files = py_files(d0)
    shutil.rmtree(d0, ignore_errors=True)
    if not ref or full['results'] != ref:
        return
    # count matching syscalls in a complete traced run.  strace -P selects syscalls on the named paths
    # (and descriptors opened on them): the temporary file (name pinned through C15_TMPNAMES) and the entry.
    entry = sorted(ref_files)[0]
    base = entry[:-3]

    def paths(d):
        return ['-P', os.path.join(d, base + 'fixed0001.tmp'), '-P', os.path.join(d, entry)]
    d = tempfile.mkdtemp(prefix='cache_', dir=tmp)
    logf = os.path.join(logdir, 'strace_count%s_%d.log' % (tag, ctx.shard))
    calls = 'openat,write,rename,renameat,renameat2,close,unlink,fsync,sendfile,copy_file_range,ftruncate'
    pin = {'C15_TMPNAMES': '1'}
    r = run_child(jobs, d, pin, strace=['strace', '-f', '-qq', '-o', logf] + paths(d) + ['-e', 'trace=' + calls], timeout=300)
    try:
        with open(logf) as f:
            lines = [line for line in f if '(' in line and 'resumed' not in line]
        total = len(lines)
    except OSError:
        lines, total = [], 0
    shutil.rmtree(d, ignore_errors=True)
    if r['results'] != ref or total == 0:
        ctx.note('strace counting run failed (rc %s, %d syscalls): %s' % (r['rc'], total, r['stderr'][-200:]))
        return
    ctx.cover('strace-syscalls-on-entry-paths' + tag, total)
    if ctx.shard == 0:
        ctx.note('syscalls on the entry paths: ' + ' | '.join(l.split('(')[0].split()[-1] for l in lines))
    # strace counts "when=" per syscall name: address the k-th syscall of the run as (name, occurrence)
    seq = [l.split('(')[0].split()[-1] for l in lines]
    plan = []
    seen = {}
    for name in seq:
        seen[name] = seen.get(name, 0) + 1
        plan.append((name, seen[name]))
    ks = list(range(1, total + 1))
    if ctx.quick and total > 32:
        ks = ks[::max(1, total // 32)]
    if tag and ctx.quick:
        ks = ks[:16]
    for i, k in enumerate(ks):
        if i % ctx.nshards != ctx.shard:
            continue
        d = tempfile.mkdtemp(prefix='cache_', dir=tmp)
        name, occ = plan[k - 1]
        cmd = ['strace', '-f', '-qq', '-o', '/dev/null'] + paths(d) + ['-e', 'trace=' + calls,
               '-e', 'inject=%s:signal=KILL:when=%d' % (name, occ)]
        r = run_child(jobs, d, pin, strace=cmd, timeout=300)
        died = r['results'] is None
        if died:
            ctx.mon('child-died-at-step')
            ctx.mon('sigkill-crashes')
        ctx.case(key=('crash', 'strace' + tag, k, tname), nontrivial=died,
                 sample={'injector': 'strace SIGKILL', 'syscall_index': k, 'of': total, 'left_behind': listing(d)} if k == 2 else None)
        after_crash_check(ctx, d, jobs, ref, ref_files, 'sigkill-at-syscall%s:%s syscall %d of %d (%s #%d)' % (tag, tname, k, total, name, occ))
        shutil.rmtree(d, ignore_errors=True)


# --------------------------------------------------------------------------
def layer_two_writers(ctx, tmp):
    item = 0
    for tname in ('small', 'large'):
        jobs = [job({'body': CRASH_TEMPLATES[tname]})]
        ref = run_child(jobs)['results']
        d0 = tempfile.mkdtemp(prefix='cache_ref_', dir=tmp)
        full = run_child(jobs, d0)
        ref_files = py_files(d0)
        shutil.rmtree(d0, ignore_errors=True)
        n_audit = full['steps'].get('audit', 0)
        for k in range(1, n_audit + 1):
            item += 1
            if item % ctx.nshards != ctx.shard:
                continue
            d = tempfile.mkdtemp(prefix='cache_', dir=tmp)
            sync = os.path.join(tmp, 'sync_%d_%d' % (ctx.shard, item))
            e = env.child_env({'C15_PARK_AUDIT': str(k), 'C15_SYNC': sync})
            e['CHAMELEON_CACHE'] = d
            pa = subprocess.Popen([env.PY, CHILD, json.dumps(jobs)], env=e, stdout=subprocess.PIPE,
                                  stderr=subprocess.PIPE, text=True, cwd=env.VERIF)
            import time
            t0 = time.time()
            while not os.path.exists(sync + '.parked') and pa.poll() is None and time.time() - t0 < 60:
                time.sleep(0.01)
            parked = os.path.exists(sync + '.parked')
            rb = run_child(jobs, d)            # writer B runs to completion while A is parked
            open(sync + '.go', 'w').close()
            try:
                out_a, err_a = pa.communicate(timeout=120)
                ra = json.loads(out_a)['results']
            except Exception:
                pa.kill()
                ra = None
            ctx.mon('two-writer-schedules')
            ctx.case(key=('writers', k, tname), nontrivial=parked,
                     sample={'parked_at_step': k, 'trace_of_B': rb['trace'], 'A': ra, 'B': rb['results']} if k == 4 else None)
            bad = []
            if ra != ref:
                bad.append('writer A (parked at step %d) rendered %r' % (k, ra))
            if rb['results'] != ref:
                bad.append('writer B rendered %r (%s)' % (rb['results'], rb['stderr'][-150:]))
            if bad:
                ctx.violation('two-writers', '; '.join(bad) + '; reference %r' % (ref,), {'kind': 'writers', 'k': k, 't': tname})
            after_crash_check(ctx, d, jobs, ref, ref_files, 'two-writers:%s A parked at step %d' % (tname, k))
            for suffix in ('.parked', '.go'):
                try:
                    os.remove(sync + suffix)
                except OSError:
                    pass
            shutil.rmtree(d, ignore_errors=True)


def run(ctx):
    tmp = tempfile.mkdtemp(prefix='c15_')
    try:
        layer_soundness(ctx, tmp)
        layer_process_environments(ctx, tmp)
        layer_crash(ctx, tmp)
        layer_crash_other_filesystem(ctx, tmp)
        layer_two_writers(ctx, tmp)
        layer_strace(ctx, tmp)
        base = other_filesystem(tmp)
        if base is not None:
            xroot = tempfile.mkdtemp(prefix='verif_c15s_', dir=base)
            try:
                layer_strace(ctx, tmp, cache_root=xroot)
            finally:
                shutil.rmtree(xroot, ignore_errors=True)
    finally:
        shutil.rmtree(tmp, ignore_errors=True)


def replay(data):
    return True, 're-run ./vcheck C15 (deterministic enumeration): %r' % (data,)
