"""C12 — render errors keep their type and name the failing expression and position.

Planted render failures.  (A) string templates from the C01 generator: for every
binding table one expression occurrence that the reference model reaches is made to
raise each of a set of exception classes; (B) file templates: a three-file
load: / use-macro / fill-slot chain with randomised layout, where each expression
occurrence in turn is made to raise.  The serialiser knows the exact text, line and
column of every occurrence and of every enclosing call site.
Monitor M-exc at the `except` in the harness:
  - the exception is an instance of the planted class AND of RenderError, with the planted args
    (and extra attributes);
  - str(exc) parsed into (expression, filename, line, column) records equals the failing
    occurrence followed by the enclosing call sites, innermost first;
  - RecursionError arrives unwrapped; KeyboardInterrupt / SystemExit / GeneratorExit are never
    Exception instances and keep their attributes (SystemExit.code).
"""
import os
import random
import re
import shutil
import tempfile

from checks import c01
from vlib import monitors, tmodel

PROP = 'C12'
TITLE = 'render errors: type, expression, position'
LEVEL = 'exploration'
SHARDS = {'quick': 16, 'thorough': 16}
FLOOR = {'quick': 400, 'thorough': 4000}
REQUIRED_MONITORS = {'M-exc': 2500, 'records-compared': 2000, 'chain-records-compared': 400, 'non-exception-classes': 100, 'deferred-messages-rechecked': 2000, 'entity-written-compared': 400, 'attribute-failures-compared': 300, 'literal-use-failures-compared': 300}
RULE = ('(A) a case = (program, binding table, failing occurrence among those the model reaches, exception class from '
        '{KeyError, ValueError, ZeroDivisionError, CustomError(2 args + attribute), StrOverride, UnicodeDecodeError, '
        'RecursionError, KeyboardInterrupt, SystemExit, GeneratorExit}); (B) a case = (layout of the 3-file chain, failing '
        'occurrence in {macro body, slot default, slot filler, after the macro call, outermost template}, class). Every case '
        'plants a failure; distinct by (site kind, call-chain depth, exception class, line/column class).')
ASSUMPTIONS = ['message records are parsed with a regex from " - Expression / - Filename / - Location" triples; file names are '
               'compared on their last 40 characters (the formatter ellipsifies long names)']

REC = re.compile(r' - Expression: "(.*?)"\n - Filename:   (.*?)\n - Location:   \(line (\d+): col (\d+)\)', re.S)


class StrOverride(Exception):
    def __str__(self):
        return 'custom-str'


class AppOSError(OSError):
    pass


class SlotsError(Exception):
    __slots__ = ('code',)

    def __init__(self, msg, code):
        super().__init__(msg, code)
        self.code = code


class TwoArgs(Exception):
    def __init__(self, a, b):
        super().__init__(a, b)
        self.extra = a


def _app_render_error():
    # an application class deriving from the library's marker class (so that one `except RenderError` clause catches every
    # render failure): raised by an expression it is an ordinary exception - nothing has formatted it yet
    if not _APP:
        from chameleon.exc import RenderError

        class AppRenderError(RenderError):
            pass
        _APP.append(AppRenderError)
    return _APP[0]('widget', 7)


_APP = []


MAKERS = {
    'AppRenderError': _app_render_error,
    'KeyError': lambda: KeyError('k'),
    'ValueError': lambda: ValueError('bad value', 3),
    'ZeroDivisionError': lambda: ZeroDivisionError('division by zero'),
    'TwoArgs': lambda: TwoArgs(1, 'two'),
    'StrOverride': lambda: StrOverride('hidden'),
    'UnicodeDecodeError': lambda: UnicodeDecodeError('ascii', b'\xff', 0, 1, 'r'),
    # classes with a C-level __new__ / __init__ of their own, keyword-only state, or unusual constructors
    'OSError': lambda: OSError(5, 'Input/output error'),
    'FileNotFoundError': lambda: FileNotFoundError(2, 'No such file or directory', 'missing.txt'),
    'TimeoutError': lambda: TimeoutError('timed out'),
    'ConnectionResetError': lambda: ConnectionResetError(104, 'reset'),
    'BlockingIOError': lambda: BlockingIOError(11, 'would block', 3),
    'AppOSError': lambda: AppOSError(13, 'denied'),
    'UnicodeEncodeError': lambda: UnicodeEncodeError('ascii', 'é', 0, 1, 'r'),
    'StopIteration': lambda: StopIteration('payload'),
    'ImportError': lambda: ImportError('no module', name='m', path='/p'),
    'SyntaxError': lambda: SyntaxError('bad', ('f.py', 3, 7, 'x =')),
    'AttributeError': lambda: AttributeError('no attr', name='a', obj=7),
    'ExceptionGroup': lambda: ExceptionGroup('several', [ValueError(1), KeyError('k')]),
    'SlotsError': lambda: SlotsError('s', 9),
    'RecursionError': lambda: RecursionError('deep'),
    'KeyboardInterrupt': lambda: KeyboardInterrupt(),
    'SystemExit': lambda: SystemExit(3),
    'GeneratorExit': lambda: GeneratorExit(),
}
NON_EXCEPTION = ('KeyboardInterrupt', 'SystemExit', 'GeneratorExit')


class GetattrKeyError:
    """A mapping-backed proxy: unknown attributes raise KeyError, not AttributeError."""

    def __getattr__(self, name):
        raise KeyError(name)


class ReprRaises:
    def __repr__(self):
        raise RuntimeError('no repr')


class GetattrRuntimeError:
    def __getattr__(self, name):
        raise RuntimeError(name)


def hostile_context():
    # objects that merely sit in the variable context while something else fails
    return {'ctx_proxy': GetattrKeyError(), 'ctx_norepr': ReprRaises(), 'ctx_rt': GetattrRuntimeError(), 'ctx_big': 'x' * 3000,
            'ctx_bytes': b'\xff\xfe', 'ctx_none': None}


def line_col(src, off):
    return src.count('\n', 0, off) + 1, off - (src.rfind('\n', 0, off) + 1)


def uncombinable(cls):
    from chameleon.exc import RenderError
    try:
        new = type('Probe', (cls, RenderError), {})
    except TypeError:
        return True
    for maker in (BaseException.__new__, cls.__new__):
        try:
            maker(new)
            return False
        except TypeError:
            continue
    return True


def check_exception(ctx, e, clsname, want_records, what, replay):
    """M-exc + record comparison.  want_records: [(expression, filename-suffix, line, col)] innermost first."""
    from chameleon.exc import RenderError
    ctx.mon('M-exc')
    planted = MAKERS[clsname]()
    problems = []
    if clsname == 'RecursionError':
        if type(e) is not RecursionError:
            problems.append('RecursionError was wrapped into %r' % (type(e).__mro__,))
        return finish(ctx, problems, 'recursion-error-wrapped', what, replay)
    if clsname in NON_EXCEPTION:
        ctx.mon('non-exception-classes')
        if isinstance(e, Exception):
            problems.append('%s left render() as an Exception subclass %r' % (clsname, type(e).__mro__[:4]))
        if not isinstance(e, type(planted)):
            problems.append('not an instance of %s' % clsname)
        if clsname == 'SystemExit' and getattr(e, 'code', None) != 3:
            problems.append('SystemExit.code is %r, was 3' % (getattr(e, 'code', None),))
        return finish(ctx, problems, 'non-exception-turned-into-exception', what, replay)
    if not isinstance(e, type(planted)):
        problems.append('class %r lost: got %r' % (clsname, type(e).__mro__[:3]))
    if not isinstance(e, RenderError):
        if isinstance(e, type(planted)) and repr(e.args) == repr(planted.args) and uncombinable(type(planted)):
            # known mechanism: no instance of a class derived from (this class, RenderError) can be made without
            # running the class's own constructor, so the engine lets the original exception pass as it is
            return finish(ctx, ['%s left render() as the original object: not a RenderError, no expression / position in its message' % clsname],
                          'exception-class-that-cannot-be-combined-with-RenderError-passes-unwrapped', what, replay)
        problems.append('not a RenderError')
    if repr(e.args) != repr(planted.args):
        problems.append('args %r != %r' % (e.args, planted.args))
    if clsname == 'TwoArgs' and getattr(e, 'extra', None) != 1:
        problems.append('attribute lost')
    if problems:
        return finish(ctx, problems, 'exception-class-or-args-not-preserved', what, replay)
    try:
        msg = str(e)
    except Exception as e2:
        return finish(ctx, ['str(exception) raised %s: %s' % (type(e2).__name__, e2)], 'message-formatting-fails', what, replay)
    recs = [(a, b[-40:], int(c), int(d)) for a, b, c, d in REC.findall(msg)]
    want = [(a, b[-40:], c, d) for a, b, c, d in want_records]
    ctx.mon('records-compared')
    if len(want) > 1:
        ctx.mon('chain-records-compared')
    if recs != want:
        key = 'message-records-differ'
        if recs[1:] == want[1:] and recs[:1] != want[:1]:
            key = 'innermost-record-differs'
        elif len(recs) != len(want):
            key = 'record-count-differs'
        # known mechanism: a failure inside a metal:fill-slot body is not attributed to its expression - the
        # filler function records nothing and the macro function hosting the slot blames the expression IT
        # evaluated last (or adds no record); the call-site records after it are right
        if '(slot-filler)' in what and len(want) >= 2 and (recs == want[1:] or (
                len(recs) == len(want) and recs[1:] == want[1:] and recs[0][1:2] != want[0][1:2])):
            key = 'slot-filler-failure-not-attributed-to-its-expression'
        return finish(ctx, ['records %r, expected %r' % (recs, want)], key, what, replay)
    if clsname == 'StrOverride' and 'custom-str' not in msg:
        return finish(ctx, ['the original message is missing from %r' % msg[:80]], 'original-message-lost', what, replay)
    # deferred formatting: an error collected earlier and reported only now (batch job, logging handler)
    # must still describe ITS failure, whatever failed since
    for old_e, old_want, old_what in PENDING:
        ctx.mon('deferred-messages-rechecked')
        try:
            old_msg = str(old_e)
        except Exception as e2:
            old_msg = 'str() raised %s' % type(e2).__name__
        old_recs = [(a, b[-40:], int(c), int(d)) for a, b, c, d in REC.findall(old_msg)]
        if old_recs != old_want:
            finish(ctx, ['formatted again after a later failure (%s) the records are %r, expected %r' % (what[:200], old_recs, old_want)],
                   'earlier-error-message-changes-after-a-later-failure', old_what, replay)
    PENDING.append((e, want, what))
    del PENDING[:-3]
    return True


PENDING = []


def finish(ctx, problems, key, what, replay):
    if problems:
        ctx.violation(key, '%s: %s' % (what, '; '.join(problems)), replay)
        return False
    return True


# --------------------------------------------------------------------------
def layer_string_templates(ctx, n):
    from chameleon import PageTemplate
    rng = ctx.rng
    for i in range(n):
        g = c01.Gen(rng, maxdepth=1 if ctx.quick else 2)
        root = g.element(0, False)
        c01.tal_block_fix(root)
        lead = rng.choice(['', '\n', 'é日\n  ', '<!-- c -->\n\t',
                           # CRLF / CR line endings (HTML mode reads them as LF: positions refer to that text)
                           '<!-- c -->\r\n\t<i>t</i>\r\n  ', 'x\r  ', 'a\r\nb\rc\n ',
                           # characters that str.splitlines() treats as line boundaries but templates do not: lines end at \n only
                           'a\x0cb ', 'x\u2028y\n ', 'n\x85m \n', 'p\x1cq\x1d\x1e\n\t', 'v\x0bw', '\u2029\n\x0c ',
                           # expression tokens spanning several lines BEFORE the failing one
                           '<i tal:define="zq (1,\n   2,\n 3)" tal:attributes="a {\'k\':\n 1}">m</i>\n  ',
                           '<?python\nzp = [1,\n  2]\nzr = 3\n?>\n <i tal:content="zp[0] +\n zr">m</i> '])
        src = lead + '<root>' + tmodel.serialise(root, random.Random(rng.randrange(1 << 30))) + '</root>'
        try:
            t = __import__('vlib.routes').routes.make(PageTemplate, src, 8, __import__('vlib.state').state.CTX)
        except Exception as e:
            ctx.violation('valid-template-rejected', 'template %r: %s' % (src, e), {'src': src})
            continue
        for b in range(2):
            table = {k: v for k, v in g.table(rng).items()}
            for k, v in list(table.items()):
                if isinstance(v, tuple):
                    table[k] = 'str'
            base = tmodel.run_model(root, table)
            reached = list(dict.fromkeys(base['log']))
            reached = [r for r in reached if r not in g.multi_attr]
            if not reached or base['exc']:
                continue
            for rid in rng.sample(reached, min(len(reached), 2)):
                clsname = rng.choice(sorted(MAKERS))

                def f(x, rid=rid, clsname=clsname):
                    if x == rid:
                        raise MAKERS[clsname]()
                    return tmodel.build_value(table[x], real=True)
                needle = 'f(%d)' % rid
                nsrc = src.replace('\r\n', '\n').replace('\r', '\n')
                off = nsrc.index(needle)
                want = [(needle, '<string>') + line_col(nsrc, off)]
                what = 'template %r, %s raised by %s (site %s)' % (src, clsname, needle, g.sites[rid])
                replay = {'kind': 'string', 'src': src, 'rid': rid, 'cls': clsname}
                ctx.case(key=('string', g.sites[rid], clsname, bool(lead), c01.stmt_shape(root)), nontrivial=True,
                         sample={'source': src, 'failing': needle, 'class': clsname} if i < 1 and b == 0 else None)
                try:
                    out = t(f=f, **hostile_context())
                    ctx.violation('failure-swallowed', what + ': render returned %r' % out[:80], replay)
                except BaseException as e:       # noqa: the monitor must see everything
                    check_exception(ctx, e, clsname, want, what, replay)


# --------------------------------------------------------------------------
def chain_files(rng):
    ws = lambda: rng.choice(['', '\n', '\n  ', ' ', '\n\t'])
    pad = lambda: rng.choice(['', 'é text ', 'plain ', '<b>t</b>'])
    inner = ('<div>%s<p metal:define-macro="m">%s%s<b tal:content="f(1)">x</b> ${f(2)}%s<i metal:define-slot="s">d ${f(3)}</i></p>%s</div>'
             % (ws(), pad(), ws(), ws(), ws()))
    # the macro expression in several value-preserving spellings: the call-site record names the whole expression as written
    macexpr = rng.choice(["inner.macros['m']", "inner.macros['m']", "python: inner.macros['m']", "nothing.x | python: inner.macros['m']",
                          "nosuchname | inner.macros['m']", "(inner.macros['m'])", "inner.macros[g('m')]"])
    mid = ('<div tal:define="inner load: inner.pt">%s<span metal:use-macro="%s">%s<u metal:fill-slot="s">filled %s${f(4)}</u>%s</span>%s${f(5)}</div>'
           % (ws(), macexpr, ws(), pad(), ws(), ws()))
    midexpr = rng.choice(['mid', 'mid', 'nothing.x | mid', 'python: mid'])
    outer = ('<html tal:define="mid load: mid.pt">%s<body>%s<x metal:use-macro="%s" />%s${f(6)}%s</body></html>'
             % (ws(), ws(), midexpr, ws(), ws()))
    return {'inner.pt': inner, 'mid.pt': mid, 'outer.pt': outer, '__macexpr': macexpr, '__midexpr': midexpr}


def layer_inplace_macro(ctx, n):
    """A metal:define-macro element rendered where it stands: a failure inside it names that expression only."""
    from chameleon import PageTemplate
    rng = ctx.rng
    for i in range(n):
        before = rng.choice(['', '<h1>${f(1)}</h1>', '<p tal:content="f(1)">x</p>', '\n ${f(1)}\n'])
        inside = rng.choice(['${f(2)}', '<b tal:content="f(2)">x</b>', '<i tal:condition="f(2)">y</i>', 'x\n  ${f(2)}'])
        after = rng.choice(['', '${f(3)}'])
        nested = rng.random() < .4
        body = '<div metal:define-macro="m">%s</div>' % inside
        if nested:
            body = '<section tal:define="q f(4)">%s</section>' % body
        src = '<html>%s%s%s</html>' % (before, body, after)
        fail = rng.choice([2, 2, 3]) if after else 2
        clsname = rng.choice(['KeyError', 'ValueError', 'TwoArgs', 'ZeroDivisionError'])

        def f(x, fail=fail, clsname=clsname):
            if x == fail:
                raise MAKERS[clsname]()
            return 'v%d' % x
        needle = 'f(%d)' % fail
        want = [(needle, '<string>') + line_col(src, src.index(needle))]
        what = 'template %r, %s raised by %s (in-place macro)' % (src, clsname, needle)
        replay = {'kind': 'inplace', 'src': src, 'fail': fail, 'cls': clsname}
        ctx.case(key=('inplace', bool(before), inside[:6], fail, nested, clsname), nontrivial=True)
        try:
            out = PageTemplate(src)(f=f)
            ctx.violation('failure-swallowed', what + ': render returned %r' % out[:80], replay)
        except BaseException as e:   # noqa
            check_exception(ctx, e, clsname, want, what, replay)


def layer_handled_then_later(ctx, n):
    """A failure handled by tal:on-error (inside a macro, so that records were taken on its way out) followed by an
    unrelated, unhandled failure: the message names the second failure only."""
    from chameleon import PageTemplate
    rng = ctx.rng
    lib = PageTemplate('<lib><m metal:define-macro="m">[${f(1)}]</m></lib>')
    for i in range(n):
        shape = rng.choice(['external-macro', 'inplace-macro', 'nested-render'])
        if shape == 'external-macro':
            first = '<u metal:use-macro="lib.macros[\'m\']"/>'
        elif shape == 'inplace-macro':
            first = '<q metal:define-macro="q%d">${f(1)}</q>' % i
        else:
            first = '${structure: inner(f=f)}'
        sep = rng.choice(['', '\n', ' text\n  '])
        later = rng.choice(['${f(2)}', '<b tal:content="f(2)">x</b>', '<i tal:attributes="a f(2)">y</i>'])
        src = '<html><div tal:on-error="string:FB">%s</div>%s%s</html>' % (first, sep, later)
        clsname = rng.choice(['KeyError', 'ValueError', 'TwoArgs', 'ZeroDivisionError'])

        def f(x, clsname=clsname):
            if x == 1:
                raise RuntimeError('handled failure')
            raise MAKERS[clsname]()
        inner = PageTemplate('<i>${f(1)}</i>')
        off = src.index('f(2)')
        want = [('f(2)', '<string>') + line_col(src, off)]
        what = 'template %r: a failure handled by on-error (%s), then %s raised by f(2)' % (src, shape, clsname)
        replay = {'kind': 'handled-then-later', 'src': src, 'cls': clsname}
        ctx.case(key=('handled-then-later', shape, later[:4], bool(sep), clsname), nontrivial=True)
        try:
            out = PageTemplate(src)(f=f, lib=lib, inner=inner)
            ctx.violation('failure-swallowed', what + ': render returned %r' % out[:80], replay)
        except BaseException as e:   # noqa
            if isinstance(e, RuntimeError):
                ctx.violation('on-error-did-not-handle', what + ': the first failure propagated', replay)
            else:
                check_exception(ctx, e, clsname, want, what, replay)


class TreeNode:
    def __init__(self, name, child=None):
        self.name, self.child = name, child


def layer_recursive_render(ctx, n):
    """A template that renders itself (tree / menu rendering through ${structure: template.render(...)}): every
    enclosing level is a call site and is recorded, however alike the records look."""
    from chameleon import PageTemplate
    rng = ctx.rng
    for i in range(n):
        depth = rng.randint(0, 5)
        lead = rng.choice(['', '\n', '<!-- c -->\n  '])
        # the nested rendering is made directly, or through a helper that looks at the error on its way out
        # (logs it, i.e. formats it) and lets it pass
        via = rng.choice(['direct', 'direct', 'logged'])
        expr = ('template.render(node=node.child, f=f, show=show) if node.child else f(node)' if via == 'direct' else
                'show(template, node=node.child, f=f, show=show) if node.child else f(node)')
        src = lead + '<div>${node.name}' + rng.choice(['', '\n  ']) + '${structure: %s}</div>' % expr
        clsname = rng.choice(['KeyError', 'ValueError', 'TwoArgs', 'ZeroDivisionError', 'StrOverride'])

        def f(node, clsname=clsname):
            raise MAKERS[clsname]()
        node = None
        for k in range(depth + 1):
            node = TreeNode('n%d' % k, node)
        rec = (expr, '<string>') + line_col(src, src.index(expr))
        want = [rec] * (depth + 1)
        what = 'template %r rendering itself %d level(s) deep, %s raised at the innermost level (recursive, %s)' % (src, depth, clsname, via)
        replay = {'kind': 'recursive', 'src': src, 'depth': depth, 'cls': clsname}
        ctx.case(key=('recursive', depth, bool(lead), clsname, via), nontrivial=True)
        seen_on_the_way = []

        def show(t, **kw):
            try:
                return t.render(**kw)
            except Exception as exc:
                seen_on_the_way.append(str(exc))        # what a logging helper does
                raise
        try:
            out = PageTemplate(src)(node=node, f=f, show=show)
            ctx.violation('failure-swallowed', what + ': render returned %r' % out[:80], replay)
        except BaseException as e:   # noqa
            check_exception(ctx, e, clsname, want, what, replay)


def layer_file_chain(ctx, n):
    from chameleon import PageTemplateFile
    rng = ctx.rng
    d = tempfile.mkdtemp(prefix='c12_')
    try:
        for i in range(n):
            files = chain_files(rng)
            macexpr, midexpr = files.pop('__macexpr'), files.pop('__midexpr')
            for k, v in files.items():
                with open(os.path.join(d, k), 'w', encoding='utf-8') as fh:
                    fh.write(v)

            def loc(fn, needle, start=0):
                src = files[fn]
                off = src.index(needle, start)
                return (needle, os.path.join(d, fn)) + line_col(src, off)
            use_mid = files['outer.pt'].index('use-macro="%s"' % midexpr) + len('use-macro="')
            midloc = (midexpr, os.path.join(d, 'outer.pt')) + line_col(files['outer.pt'], use_mid)
            macloc = loc('mid.pt', macexpr)
            chains = {
                1: ('macro-body', [loc('inner.pt', 'f(1)'), macloc, midloc]),
                2: ('macro-body-interpolation', [loc('inner.pt', 'f(2)'), macloc, midloc]),
                4: ('slot-filler', [loc('mid.pt', 'f(4)'), macloc, midloc]),
                5: ('after-macro-call', [loc('mid.pt', 'f(5)'), midloc]),
                6: ('outermost', [loc('outer.pt', 'f(6)')]),
            }
            for fail_id in (1, 2, 4, 5, 6):
                clsname = rng.choice(sorted(MAKERS))
                position, want = chains[fail_id]

                def f(x, fail_id=fail_id, clsname=clsname):
                    if x == fail_id:
                        raise MAKERS[clsname]()
                    return 'v%d' % x
                t = PageTemplateFile(os.path.join(d, 'outer.pt'))
                what = 'file chain %r, %s raised by f(%d) (%s)' % (files, clsname, fail_id, position)
                replay = {'kind': 'chain', 'files': files, 'fail': fail_id, 'cls': clsname}
                ctx.case(key=('chain', position, clsname, want[0][2] > 1), nontrivial=True)
                try:
                    out = t(f=f, g=lambda x: x)
                    ctx.violation('failure-swallowed', what + ': render returned %r' % out[:80], replay)
                except BaseException as e:   # noqa
                    ok = check_exception(ctx, e, clsname, want, what, replay)
    finally:
        shutil.rmtree(d, ignore_errors=True)


def layer_entity_written(ctx, n):
    """The failing expression (or a list part before it) is written with character entities.  Reference: the message
    names the expression as it stands in the source, at its line and column.  Alternate model of the known mechanism
    (same root as the two open C11 findings: attribute values and ${...} expressions are decoded before they are parsed,
    positions are not mapped back): the message shows the source slice that starts `drift` characters early (drift as in
    C11) and has the length of the DECODED expression."""
    import html
    from chameleon import PageTemplate
    from checks.c11 import predicted_drift
    rng = ctx.rng
    EXPRS = ['1 &lt; f(2)', "'&amp;' + f(2)", 'f(2) &gt; 1', 'f(2) &amp; 1', "f(2) or '&quot;'", 'f(2)', "'&#60;' in f(2)",
             '(1 &lt;= 2) and f(2)']
    for i in range(n):
        e = rng.choice(EXPRS)
        lead = rng.choice(['', '\n', 'é\n  ', '<i>${g(1)}</i>', '<p tal:content="g(1)">x</p>\n '])
        ctxk = rng.choice(['content', 'condition', 'define', 'define-second', 'define-third', 'attributes-second', 'text-interp',
                           'attr-interp', 'replace', 'repeat', 'omit-tag', 'string-part'])
        first = rng.choice(["a 1 &lt; 2", "a '&amp;'", "a 'x;;y'", 'a 1', "a '&#38;&lt;'"])
        tpl = {'content': '<p tal:content="%s">x</p>', 'condition': '<p tal:condition="%s">x</p>', 'define': '<p tal:define="w %s">x</p>',
               'define-second': '<p tal:define="' + first + '; b %s">x</p>',
               'define-third': '<p tal:define="' + first + "; c '&gt;'; b %s\">x</p>",
               'attributes-second': '<p tal:attributes="' + first + '; b %s">x</p>', 'text-interp': '<p>t ${%s} u</p>',
               'attr-interp': '<p a="t ${%s}">x</p>', 'replace': '<p tal:replace="%s">x</p>', 'repeat': '<p tal:repeat="r %s">x</p>',
               'omit-tag': '<p tal:omit-tag="%s">x</p>', 'string-part': '<p tal:content="string:&lt;${%s}">x</p>'}[ctxk]
        if ctxk in ('define-second', 'define-third', 'attributes-second', 'string-part') and e == 'f(2)' and first == 'a 1' and ctxk != 'string-part':
            continue        # nothing written with an entity: the other layers' business
        src = lead + '<root>' + tpl % e + '</root>'
        off = src.index(tpl % e) + (tpl % '\x00').index('\x00')
        q = src.rfind('="', 0, off)
        seg = src[q + 2:off] if ctxk not in ('text-interp', 'attr-interp') else ''
        drift = predicted_drift(seg)
        dec = html.unescape(e)
        want = [(e, '<string>') + line_col(src, off)]
        alt = [(src[off + drift:off + drift + len(dec)], '<string>') + line_col(src, off + drift)]
        clsname = rng.choice(['KeyError', 'ValueError', 'TwoArgs', 'ZeroDivisionError'])

        def f(x, clsname=clsname):
            raise MAKERS[clsname]()
        what = 'template %r, %s raised by f(2) inside the expression %r written with entities (%s)' % (src, clsname, e, ctxk)
        replay = {'kind': 'entity', 'src': src, 'cls': clsname}
        ctx.mon('entity-written-compared')
        ctx.case(key=('entity', ctxk, e, first if 'second' in ctxk or 'third' in ctxk else '', bool(lead), clsname), nontrivial=True)
        try:
            out = PageTemplate(src)(f=f, g=lambda i: 'g')
            ctx.violation('failure-swallowed', what + ': render returned %r' % out[:80], replay)
            continue
        except BaseException as ex:   # noqa
            exc = ex
        if not isinstance(exc, type(MAKERS[clsname]())) or exc.args != MAKERS[clsname]().args:
            ctx.violation('exception-class-or-args-not-preserved', what + ': got %r' % (exc,), replay)
            continue
        try:
            msg = str(exc)
        except Exception as e2:
            ctx.violation('message-formatting-fails', what + ': str() raised %r' % (e2,), replay)
            continue
        recs = [(a, b[-40:], int(c), int(d)) for a, b, c, d in REC.findall(msg)]
        if recs == want:
            continue
        if recs == alt and alt != want:
            ctx.violation('expression-written-with-entities-named-by-a-shifted-or-truncated-source-slice',
                          what + ': records %r, expected %r' % (recs, want), replay)
        else:
            ctx.violation('entity-written-expression-record-differs', what + ': records %r, expected %r (known mechanism predicts %r)'
                          % (recs, want, alt), replay)


def layer_attribute_failures(ctx, n):
    """The failure is raised by the attribute access itself (obj.name on records offering attributes, items, both or
    neither): the exception that leaves render() is the one plain attribute access raises - the object's own
    AttributeError (subclass, arguments) also when the item fallback was tried and failed with KeyError - and the
    message names the expression."""
    from chameleon import PageTemplate
    from chameleon.exc import RenderError
    from checks.c04 import Guarded, PathAttrError, Rec, Row, ref_attr
    rng = ctx.rng

    class ItemBoom:
        def __getitem__(self, k):
            raise ZeroDivisionError('item lookup failed')

    OBJS = {'guarded': Guarded(a=1), 'row': Row(a=1), 'rec': Rec(a=1), 'dct': {'a': 1}, 'itemboom': ItemBoom(), 'lst': [1], 'num': 7}
    for i in range(n):
        name = rng.choice(sorted(OBJS))
        attr = rng.choice(['nosuch', 'missing_1', 'b'])
        expr = rng.choice(['%s.%s', '%s.%s.deeper', 'str(%s.%s)', '(%s.%s or 1)']) % (name, attr)
        lead = rng.choice(['', '\n', 'é\n  ', '<i>${g(1)}</i>'])
        tpl = rng.choice(['<p tal:content="%s">x</p>', '<p>${%s}</p>', '<p tal:define="w %s">x</p>', '<p tal:attributes="a %s">x</p>',
                          '<p tal:condition="%s">x</p>'])
        src = lead + '<root>' + tpl % expr + '</root>'
        try:
            ref_attr(OBJS[name], attr)
            continue
        except Exception as ex:
            planted = ex
        off = src.index(expr)
        want = [(expr, '<string>') + line_col(src, off)]
        what = 'template %r, %s.%s fails with %r' % (src, name, attr, planted)
        replay = {'kind': 'attrfail', 'src': src}
        ctx.mon('attribute-failures-compared')
        ctx.case(key=('attrfail', name, expr.replace(attr, 'A'), tpl[:12], bool(lead)), nontrivial=True)
        try:
            out = PageTemplate(src)(g=lambda i: 'g', **OBJS)
            ctx.violation('failure-swallowed', what + ': render returned %r' % out[:80], replay)
            continue
        except BaseException as e:      # noqa
            exc = e
        problems = []
        if not isinstance(exc, type(planted)) or not isinstance(exc, RenderError):
            problems.append('class %r, expected an instance of %s and of RenderError' % (type(exc).__mro__[:3], type(planted).__name__))
        if exc.args != planted.args:
            problems.append('args %r != %r' % (exc.args, planted.args))
        if isinstance(planted, PathAttrError) and getattr(exc, 'code', None) != 42:
            problems.append('attribute of the exception lost')
        if problems:
            finish(ctx, problems, 'exception-class-or-args-not-preserved', what, replay)
            continue
        recs = [(a, b[-40:], int(c), int(d)) for a, b, c, d in REC.findall(str(exc))]
        if recs != want:
            finish(ctx, ['records %r, expected %r' % (recs, want)], 'innermost-record-differs', what, replay)


def layer_literal_use_failures(ctx, n):
    """The expression is a literal that evaluates fine; what fails is the USE the statement makes of its value (a number
    to repeat over, a string to unpack, a string where a mapping of attributes is wanted): the failure belongs to that
    expression - text, line, column - not to whatever was evaluated before it."""
    from chameleon import PageTemplate
    from chameleon.exc import RenderError
    rng = ctx.rng
    SHAPES = [('<p tal:repeat="n %s">x</p>', '3', TypeError), ('<p tal:define="(a, b) %s">x</p>', "'1.2'", ValueError),
              ('<p tal:repeat="(a, b) %s">x</p>', "('xyz',)", ValueError), ('<p tal:attributes="%s">x</p>', 'string:checked', Exception),
              ('<p tal:repeat="n %s">x</p>', 'None or 7', TypeError), ('<p tal:define="(a, b) %s">x</p>', 'string:abc', ValueError)]
    # (an expression with sub-expressions of its own, e.g. string:ab${1}, is not generated: which of them a failing USE is
    # attributed to is not specified)
    for case in range(n):
        tpl, expr, cls = rng.choice(SHAPES)
        lead = rng.choice(['', '<i>${g(1)}</i>', '<i tal:content="g(1)">c</i>\n  ', '\n<b tal:define="zz g(1)">${zz}</b> é '])
        src = lead + '<root>' + tpl % expr + '</root>'
        off = src.index(tpl % expr) + (tpl % '\x00').index('\x00')
        want = [(expr, '<string>') + line_col(src, off)]
        what = 'template %r: the value of %r cannot be used the way the statement needs' % (src, expr)
        ctx.mon('literal-use-failures-compared')
        ctx.case(key=('literal-use', tpl[:22], expr, bool(lead)), nontrivial=True)
        try:
            out = PageTemplate(src)(g=lambda i: 'g')
            finish(ctx, ['render returned %r' % out[:80]], 'failure-swallowed', what, {'kind': 'literal-use', 'src': src})
            continue
        except Exception as e:
            exc = e
        problems = []
        if not isinstance(exc, cls) or not isinstance(exc, RenderError):
            problems.append('raised %r, expected a %s that is also a RenderError' % (type(exc).__mro__[:3], cls.__name__))
        else:
            recs = [(a, b[-40:], int(c), int(d)) for a, b, c, d in REC.findall(str(exc))]
            if recs != want:
                problems.append('records %r, expected %r' % (recs, want))
        finish(ctx, problems, 'innermost-record-differs', what, {'kind': 'literal-use', 'src': src})


# --------------------------------------------------------------------------
def layer_instruction_sites(ctx, n):
    """${...} inside processing instructions (other than the code block) are expressions like any other: a failure in one
    of them names that expression and the place where it is written."""
    from chameleon import PageTemplate
    rng = ctx.rng
    for i in range(n):
        lead = rng.choice(['', '\n', '<!-- c -->\n  ', '<b>é</b> ', 'l1\nl2\n   '])
        k = rng.randint(1, 3)
        parts = ['${f(%d)}' % (j + 1) for j in range(k)]
        target = rng.choice(['php', 'xml-stylesheet', 'x', 'php-x'])
        glue = rng.choice([' ', ' and ', '\n  ', ' href='])
        pi = '<?%s %s%s?>' % (target, glue.join(parts), rng.choice(['', ' ', '\n']))
        src = lead + '<p>' + rng.choice(['', 'text ${f(0)} ']) + pi + '</p>' + rng.choice(['', '\n${f(9)}'])
        rid = rng.randint(1, k)
        clsname = rng.choice(sorted(MAKERS))

        def f(x, rid=rid, clsname=clsname):
            if x == rid:
                raise MAKERS[clsname]()
            return 'v%d' % x
        needle = 'f(%d)' % rid
        off = src.index(needle)
        want = [(needle, '<string>') + line_col(src, off)]
        what = 'template %r, %s raised by %s (inside a processing instruction)' % (src, clsname, needle)
        replay = {'kind': 'pi', 'src': src, 'rid': rid, 'cls': clsname}
        ctx.mon('instruction-sites')
        ctx.case(key=('pi', k, rid, clsname, target, bool(lead)), nontrivial=True)
        try:
            t = PageTemplate(src)
        except Exception as e:
            ctx.violation('valid-template-rejected', 'template %r: %s: %s' % (src, type(e).__name__, e), replay)
            continue
        try:
            out = t(f=f, **hostile_context())
            ctx.violation('failure-swallowed', what + ': render returned %r' % out[:80], replay)
        except BaseException as e:       # noqa: the monitor must see everything
            check_exception(ctx, e, clsname, want, what, replay)


def run(ctx):
    monitors.install(ctx, tokalg=False)
    layer_instruction_sites(ctx, 40 if ctx.quick else 400)
    layer_string_templates(ctx, 150 if ctx.quick else 1000)
    layer_file_chain(ctx, 30 if ctx.quick else 200)
    layer_inplace_macro(ctx, 60 if ctx.quick else 400)
    layer_recursive_render(ctx, 50 if ctx.quick else 300)
    layer_handled_then_later(ctx, 50 if ctx.quick else 300)
    layer_entity_written(ctx, 80 if ctx.quick else 600)
    layer_attribute_failures(ctx, 80 if ctx.quick else 600)
    layer_literal_use_failures(ctx, 40 if ctx.quick else 400)


def replay(data):
    return True, 're-run ./vcheck C12 with the same seed; case: %r' % ({k: v for k, v in data.items() if k != 'files'},)
