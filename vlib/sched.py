"""Controlled line-level scheduler on sys.monitoring (source-free yield points).

Worker threads park at every LINE event of the monitored code objects until the
controller releases them.  A schedule is a list of thread names; step i releases
schedule[i] for one line-step (if that thread is finished, or does not reach its
next event within `block_timeout` because it waits on one of the program's own
locks, the controller runs another runnable thread instead, so no interleaving is
invented that the program cannot have).  After the schedule is exhausted the
remaining threads run to completion in name order.

Every executed schedule is recorded as its (thread, function:line) sequence.
"""
import sys
import threading

TOOL = 4


class Scheduler:
    def __init__(self, code_objects, block_timeout=0.25):
        self.codes = set(code_objects)
        self.block_timeout = block_timeout
        self.cv = threading.Condition()
        self.gate = {}        # thread name -> Event
        self.waiting = {}     # thread name -> (func, line) | 'DONE'
        self.trace = []
        self.active = False
        mon = sys.monitoring
        try:
            mon.use_tool_id(TOOL, 'verif-sched')
        except ValueError:
            pass
        mon.register_callback(TOOL, mon.events.LINE, self._on_line)
        for c in self.codes:
            mon.set_local_events(TOOL, c, mon.events.LINE)

    def close(self):
        mon = sys.monitoring
        for c in self.codes:
            try:
                mon.set_local_events(TOOL, c, 0)
            except Exception:
                pass
        mon.register_callback(TOOL, mon.events.LINE, None)
        try:
            mon.free_tool_id(TOOL)
        except Exception:
            pass

    def _on_line(self, code, line):
        if not self.active:
            return
        name = threading.current_thread().name
        ev = self.gate.get(name)
        if ev is None:
            return
        with self.cv:
            self.waiting[name] = (code.co_name, line)
            self.cv.notify_all()
        ev.wait()
        ev.clear()
        self.trace.append((name, '%s:%d' % (code.co_name, line)))

    def _step(self, name):
        """Release `name` for one step; return True if it parked again or finished in time."""
        with self.cv:
            self.waiting.pop(name, None)
        self.gate[name].set()
        with self.cv:
            return self.cv.wait_for(lambda: name in self.waiting, timeout=self.block_timeout)

    def run(self, workers, schedule, total_timeout=30.0):
        """workers: {name: callable}; returns ({name: result | exception}, trace, blocked_events)."""
        results = {}
        self.trace = []
        self.waiting = {}
        self.gate = {n: threading.Event() for n in workers}
        blocked = 0

        def wrap(n, fn):
            try:
                results[n] = ('ok', fn())
            except BaseException as e:   # noqa
                results[n] = ('exc', '%s: %s' % (type(e).__name__, str(e).split('\n')[0][:120]))
            with self.cv:
                self.waiting[n] = 'DONE'
                self.cv.notify_all()
        self.active = True
        threads = {n: threading.Thread(target=wrap, args=(n, fn), name=n, daemon=True) for n, fn in workers.items()}
        for t in threads.values():
            t.start()
        with self.cv:
            self.cv.wait_for(lambda: len(self.waiting) == len(workers), timeout=5)
        names = sorted(workers)
        inflight = set()     # released but not yet parked again (blocked on a real lock)

        def runnable():
            return [n for n in names if self.waiting.get(n) not in (None, 'DONE')]

        def do_step(pref):
            nonlocal blocked
            cands = [pref] + [n for n in names if n != pref]
            for n in cands:
                if self.waiting.get(n) in (None, 'DONE'):
                    continue
                if self._step(n):
                    return True
                blocked += 1
                inflight.add(n)
            return False
        import time
        t0 = time.time()
        for pref in schedule:
            if time.time() - t0 > total_timeout:
                break
            if not runnable():
                break
            do_step(pref)
        # run everything to completion
        while time.time() - t0 < total_timeout:
            with self.cv:
                if all(self.waiting.get(n) == 'DONE' for n in names):
                    break
            r = runnable()
            if not r:
                with self.cv:
                    self.cv.wait_for(lambda: any(self.waiting.get(n) is not None for n in names
                                                 if self.waiting.get(n) != 'DONE') or
                                     all(self.waiting.get(n) == 'DONE' for n in names), timeout=0.5)
                continue
            do_step(r[0])
        self.active = False
        for n in names:                       # release anything still parked (timeout path)
            self.gate[n].set()
        for t in threads.values():
            t.join(timeout=5)
        finished = all(n in results for n in names)
        return results, list(self.trace), blocked, finished
