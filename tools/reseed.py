#!/usr/bin/env python3
"""Re-evaluate seeded changes kept under seeded/<id>/ against the checks as they stand now and bring
seeded/<id>/meta.json up to date (summary / needs / files are kept).

usage: tools/reseed.py [--uncaught] [--tier quick|thorough] [--extra C15,C16] [ids...]

--uncaught   only the changes whose meta.json lists no catching check
--extra      additional properties to run for every change given (besides its own and the EXTRA table)
"""
import glob
import json
import os
import subprocess
import sys

ROOT = os.path.dirname(os.path.dirname(os.path.abspath(__file__)))
EXTRA = {'C19_2': ['C15'], 'C14_1': ['C16'], 'C01_2': ['C05'], 'C04_1': ['C05'], 'C05_1': ['C04'], 'C11_2': ['C05'],
         'C12_5': ['C15'], 'C06_6': ['C03'], 'C03_3': ['C06'], 'C20_6': ['C16'], 'C02_6': ['C06'], 'C14_6': ['C15'], 'C18_6': ['C06'],
         # round 4: cross-cutting changes (cache key, loader registry, reload flag, class-level state)
         'C02_7': ['C20', 'C16'], 'C03_7': ['C18'], 'C04_7': ['C15'], 'C05_7': ['C14'], 'C06_7': ['C18'], 'C07_7': ['C03'],
         'C08_7': ['C04', 'C05'], 'C09_7': ['C16'], 'C11_7': ['C16'], 'C12_7': ['C11'], 'C13_7': ['C18'], 'C14_7': ['C20', 'C16'],
         'C15_7': ['C17'], 'C18_7': ['C15'], 'C19_7': ['C16'], 'C20_7': ['C14'], 'C02_8': ['C10'], 'C03_8': ['C15'],
         'C06_8': ['C14'], 'C07_8': ['C15'], 'C08_8': ['C14'], 'C09_8': ['C16', 'C14'], 'C10_8': ['C15'], 'C11_8': ['C18'],
         'C12_8': ['C04'], 'C14_8': ['C16'], 'C15_8': ['C14'], 'C16_8': ['C20'], 'C19_8': ['C16'],
         'C01_9': ['C08'], 'C05_11': ['C08'], 'C08_12': ['C05'],
         'C05_15': ['C04'], 'C05_16': ['C13'], 'C03_15': ['C18'], 'C03_16': ['C09'], 'C06_15': ['C10'], 'C06_16': ['C04'], 'C01_15': ['C07'],
         'C13_18': ['C10'], 'C20_17': ['C06'], 'C06_18': ['C09'], 'C03_17': ['C06'], 'C11_17': ['C19'], 'C17_18': ['C20'], 'C11_18': ['C04'],
         'C13_16': ['C02'], 'C07_16': ['C01'], 'C02_16': ['C06'], 'C17_15': ['C03'], 'C15_15': ['C14'], 'C11_16': ['C04']}


def main():
    args = sys.argv[1:]
    tier = 'quick'
    extra = []
    uncaught = False
    if '--uncaught' in args:
        args.remove('--uncaught'); uncaught = True
    if '--tier' in args:
        i = args.index('--tier'); tier = args[i + 1]; del args[i:i + 2]
    if '--extra' in args:
        i = args.index('--extra'); extra = args[i + 1].split(','); del args[i:i + 2]
    only = args
    for d in sorted(glob.glob(os.path.join(ROOT, 'seeded', 'C??_*'))):
        mid = os.path.basename(d)
        if only and mid not in only:
            continue
        mp = os.path.join(d, 'meta.json')
        meta = json.load(open(mp)) if os.path.exists(mp) else {}
        if uncaught and meta.get('caught_by'):
            continue
        prop = mid[:3]
        props = [prop] + [p for p in EXTRA.get(mid, []) + extra if p != prop]
        r = subprocess.run([sys.executable, os.path.join(ROOT, 'tools', 'evalmut.py'), os.path.join(d, 'patch.diff'),
                            os.path.join(d, 'demo.py'), '--tier', tier] + props, capture_output=True, text=True)
        try:
            res = json.loads(r.stdout)
        except Exception:
            print(mid, 'EVAL FAILED', r.stdout[-300:], r.stderr[-300:], flush=True)
            continue
        if 'apply' in res:
            print(mid, res['apply'][:200], flush=True)
            continue
        caught = [p for p, v in res['props'].items() if v['rc'] == 1]
        if tier != 'quick' and not caught:
            print(mid, 'tier', tier, 'not caught', flush=True)
            continue
        meta.update({
            'id': mid, 'property': prop,
            'origin': meta.get('origin') or 'independent sub-agent given only the property text and a scratch worktree',
            'confirmed': {'pinned_tests_with_change': res.get('tests'),
                          'demo_exit_with_change': res.get('demo', {}).get('with_change'),
                          'demo_exit_without_change': res.get('demo', {}).get('without')},
            'ran': ['tools/evalmut.py seeded/%s/patch.diff seeded/%s/demo.py %s  (scratch worktree of /repo HEAD, %s tier, seed 0)'
                    % (mid, mid, ' '.join(props), tier)],
            'caught_by': caught,
            'violation_classes': {p: [l.strip()[:200] for l in v['lines'] if l.strip().startswith('class=')][:3]
                                  for p, v in res['props'].items()},
        })
        json.dump(meta, open(mp, 'w'), indent=1)
        print(mid, 'tests:', str(res.get('tests'))[:11], 'demo:', meta['confirmed']['demo_exit_with_change'],
              meta['confirmed']['demo_exit_without_change'], 'caught_by:', caught,
              {p: (v['rc'], v['summary'][:80]) for p, v in res['props'].items() if v['rc'] != 1}, flush=True)


if __name__ == '__main__':
    main()
