"""C10 — i18n: message ids, mappings and translation context are computed correctly.

History + executable model.  The translation function passed to the real engine
records every call (msgid, default, mapping, domain, context, target_language) and
returns a rewriting of its input ('«...»' with ${name} interpolated); the reference
model predicts the call list and the output for generated i18n templates:
i18n:translate with / without explicit id, nested translate blocks, 0..3 named
children (possibly under tal:condition / tal:omit-tag), i18n:domain / context / target
on any ancestor, i18n:attributes with and without ids, tal:content + i18n:translate="",
implicit translation options, and a METAL layer (a macro body starts from its
caller's settings, a slot filler keeps those of the place where it is written).
"""
import random
import re

from vlib import monitors

PROP = 'C10'
TITLE = 'i18n message ids, mappings, context'
DEBUG_SHARDS = True      # two of sixteen shards run the library in its debug mode (vlib/runner.py)
LEVEL = 'exploration'
SHARDS = {'quick': 16, 'thorough': 16}
FLOOR = {'quick': 1000, 'thorough': 15000}
REQUIRED_MONITORS = {'templates-compared': 2000, 'translate-calls-compared': 3000, 'macro-layer-compared': 200, 'abandoned-settings-compared': 300, 'macro-boundary-settings-compared': 300,
                     'implicit-layer-compared': 200, 'message-objects-compared': 200}
RULE = ('a case = (generated i18n element tree of depth <= 3 with the statements above, binding (v in {plain, hostile, empty}, '
        'lang in {it, None}), translation function in {rewriting, identity}); non-trivial iff >=1 translate call predicted; '
        'distinct by (statement kinds per element, scoping pattern domain/context/target, translator). Not generated: an empty '
        'static value for a translated attribute; i18n:name under tal:repeat; i18n:translate with explicit id together with '
        'tal:content.')
ASSUMPTIONS = ['a missing keyword argument of the translation call is the same as None']

WS = re.compile(r'\s+')


class El:
    def __init__(self, tag, kids, **st):
        self.tag, self.kids, self.st = tag, kids, st


def gen(rng, depth, in_tr):
    st = {}
    if rng.random() < .35:
        st['translate'] = rng.choice(['', '', 'msg%d' % rng.randint(1, 9)])
    if in_tr and rng.random() < .5:
        # (names that differ only in a character outside identifiers are different names)
        st['name'] = rng.choice(['n1', 'n2', 'n3', 'n1', 'n2', 'n3', 'n-1', 'n_1', 'n.1'])
    if rng.random() < .2:
        st['domain'] = 'd%d' % rng.randint(1, 2)
    if rng.random() < .15:
        st['context'] = 'c%d' % rng.randint(1, 2)
    if rng.random() < .2:
        st['target'] = rng.choice(["'de'", "'fr'", 'lang'])
    if rng.random() < .2:
        st['cond'] = rng.choice(['T', 'F'])
    if rng.random() < .15:
        st['omit'] = True
    if rng.random() < .25:
        st['sattr'] = rng.choice(['Tit le', 'Hello  there', 'x &amp; y', ''])
        if rng.random() < .6:
            st['i18nattr'] = rng.choice([None, 'tid'])
            st['i18npad'] = rng.randrange(28)
        if st['sattr'] == '':
            # an attribute that is empty as written: with an explicit message id it is translated like any other
            # (without one the statement does not say whether '' is a message)
            st['i18nattr'] = 'tid'
            st['i18npad'] = rng.randrange(28)
    if 'translate' in st and st['translate'] == '' and rng.random() < .15:
        st['content'] = True         # tal:content="v" + i18n:translate=""
    kids = []
    for _ in range(rng.randint(0, 3)):
        k = rng.random()
        if k < .45 and depth < 3:
            kids.append(gen(rng, depth + 1, in_tr or 'translate' in st))
        elif k < .8:
            kids.append(rng.choice(['text', ' two  words ', '\n  line\n', 'x &amp; y', 'é', ' ', '\n   ', '\n',
                                    # white space is white space: no-break and typographic spaces, form feed, line separator ...
                                    'Bonjour\xa0 !', 'a\u2003 b', '\x0c x\x0b', 'p\u2028q \x85', '\xa0', '\u202f\n']))
        else:
            kids.append('${v}')
    return El(rng.choice(['p', 'b', 'i']), kids, **st)


def dedupe_names(root):
    """Names must be unique within the nearest enclosing translate block; names outside any are dropped."""
    def walk(n, scope):
        if isinstance(n, str):
            return
        if 'name' in n.st:
            if scope is None or n.st['name'] in scope:
                del n.st['name']
            else:
                scope.add(n.st['name'])
        sc = set() if ('translate' in n.st and 'content' not in n.st) else scope
        if 'content' in n.st:
            sc = None
        for k in n.kids:
            walk(k, sc)
    walk(root, None)


def ser(n):
    if isinstance(n, str):
        return n
    a = ''
    st = n.st
    if 'sattr' in st:
        a += ' title="%s"' % st['sattr']
    if 'i18nattr' in st:
        # white space around the items of the statement (a blank or a line break before the closing
        # quote, several blanks between name and id) is no part of a name or of a message id
        pad = ['', '', ' ', '\t', '\n   ', '  ', '\n'][st.get('i18npad', 0) % 7]
        gap = [' ', ' ', '  ', '\n  '][st.get('i18npad', 0) % 4]
        a += ' i18n:attributes="title%s%s"' % ('' if st['i18nattr'] is None else gap + st['i18nattr'], pad)
    if 'translate' in st:
        a += ' i18n:translate="%s"' % st['translate']
    if 'content' in st:
        a += ' tal:content="v"'
    if 'name' in st:
        a += ' i18n:name="%s"' % st['name']
    if 'domain' in st:
        a += ' i18n:domain="%s"' % st['domain']
    if 'context' in st:
        a += ' i18n:context="%s"' % st['context']
    if 'target' in st:
        a += ' i18n:target="%s"' % st['target']
    if 'cond' in st:
        a += ' tal:condition="%s"' % ('True' if st['cond'] == 'T' else 'False')
    if 'omit' in st:
        a += ' tal:omit-tag=""'
    return '<%s%s>%s</%s>' % (n.tag, a, ''.join(ser(k) for k in n.kids), n.tag)


def make_T(kind):
    def T(msgid, default, mapping):
        s = default if default is not None else msgid
        if mapping:
            s = re.sub(r'\$\{([\w.-]+)\}', lambda m: str(mapping.get(m.group(1), m.group(0))), s)
        return '«' + s + '»' if kind == 'rewriting' else s
    return T


def esc(s):
    return s.replace('&', '&amp;').replace('<', '&lt;').replace('>', '&gt;')


class Model:
    def __init__(self, env, T):
        self.env, self.log, self.T = env, [], T

    def render(self, n, out, ctx, names):
        if isinstance(n, str):
            out.append(n.replace('${v}', esc(self.env['v'])))
            return
        st = n.st
        if 'name' in st and names is not None:
            sub = []
            self.render_inner(n, sub, ctx, names)
            names[st['name']] = ''.join(sub)
            out.append('${%s}' % st['name'])
        else:
            self.render_inner(n, out, ctx, names)

    def render_inner(self, n, out, ctx, names):
        st = n.st
        if st.get('cond') == 'F':
            return
        d, c, t = ctx
        if 'domain' in st:
            d = st['domain']
        if 'context' in st:
            c = st['context']
        if 'target' in st:
            t = {"'de'": 'de', "'fr'": 'fr', 'lang': self.env['lang']}[st['target']]
        ctx = (d, c, t)
        omit = 'omit' in st
        if not omit:
            a = ''
            if 'sattr' in st:
                v = st['sattr']
                if 'i18nattr' in st:
                    mid = st['i18nattr'] or v
                    self.log.append((mid, v, None, d, c, t))
                    v = self.T(mid, v, None)
                a = ' title="%s"' % v
            out.append('<%s%s>' % (n.tag, a))
        if 'content' in st:
            v = self.env['v']
            self.log.append((v, None, None, d, c, t))      # content translation: the value is the message id
            out.append(esc(self.T(v, None, None)))
        elif 'translate' in st:
            sub = []
            mynames = {}

            def collect(k):
                if isinstance(k, str):
                    return
                if 'name' in k.st:
                    mynames.setdefault(k.st['name'], '')
                if 'translate' in k.st and 'content' not in k.st:
                    return
                if 'content' in k.st:
                    return
                for kk in k.kids:
                    collect(kk)
            for k in n.kids:
                collect(k)
            for k in n.kids:
                self.render(k, sub, ctx, mynames)
            content = WS.sub(' ', ''.join(sub)).strip()
            mid = st['translate'] or content
            if mid:
                self.log.append((mid, content, mynames or None, d, c, t))
                out.append(self.T(mid, content, mynames or None))
        else:
            for k in n.kids:
                self.render(k, out, ctx, names)
        if not omit:
            out.append('</%s>' % n.tag)


VIA = [0]


def run_real(src, env, T, **cfg):
    from chameleon import PageTemplate
    log = []
    render_kw = {}
    if 'render_target_language' in cfg:
        render_kw['target_language'] = cfg.pop('render_target_language')

    def tr(msgid, domain=None, mapping=None, context=None, target_language=None, default=None):
        log.append((msgid, default, dict(mapping) if mapping else None, domain, context, target_language))
        return T(msgid, default, mapping)

    class FalsyTranslator(list):
        """a recording translator that is a (still empty, hence falsy) container"""
        def __call__(self, *a, **kw):
            return tr(*a, **kw)
    VIA[0] += 1
    via = VIA[0] % 3
    if (VIA[0] // 3) % 3 == 0:
        # an output encoding in effect (byte message ids would be decoded): the translation contract is the same
        cfg = dict(cfg, encoding='utf-8')
    try:
        if via == 0:
            from vlib import routes, state
            return routes.make(PageTemplate, src, 4, state.CTX, translate=tr, **cfg)(v=env['v'], lang=env['lang'], **render_kw), log
        # the translation function given per rendering wins over the template's own
        def wrong(*a, **kw):
            log.append(('TEMPLATE-LEVEL TRANSLATE USED',) + a)
            return 'WRONG'
        t = PageTemplate(src, translate=wrong, **cfg)
        if (VIA[0] // 9) % 2 == 0:
            # the same instance was rendered before with another per-rendering translation function
            def earlier(*a, **kw):
                return 'EARLIER-TRANSLATOR'
            try:
                t(v=env['v'], lang=env['lang'], translate=earlier, **render_kw)
            except Exception:
                pass
        return t(v=env['v'], lang=env['lang'], translate=tr if via == 1 else FalsyTranslator(), **render_kw), log
    except Exception as e:
        return 'RAISED %s %s' % (type(e).__name__, str(e).split('\n')[0][:120]), log


def shape(n):
    if isinstance(n, str):
        return 't'
    return (tuple(sorted(k for k in n.st if k not in ('sattr',))),) + tuple(shape(k) for k in n.kids if not isinstance(k, str))


def has(n, key):
    return not isinstance(n, str) and (key in n.st or any(has(k, key) for k in n.kids))


def layer_trees(ctx, n):
    rng = ctx.rng
    for case in range(n):
        root = El('div', [gen(rng, 0, False) for _ in range(rng.randint(1, 3))])
        dedupe_names(root)
        src = ser(root)
        env = {'v': rng.choice(['V', 'a<b', 'two  words']), 'lang': rng.choice(['it', None])}
        tkind = rng.choice(['rewriting', 'rewriting', 'identity'])
        T = make_T(tkind)
        m = Model(env, T)
        out = []
        m.render(root, out, (None, None, None), None)
        exp = (''.join(out), m.log)
        got = run_real(src, env, T)
        ctx.mon('templates-compared')
        ctx.mon('translate-calls-compared', len(m.log))
        ctx.case(key=(shape(root), tkind, env['lang']), nontrivial=bool(m.log),
                 sample={'source': src, 'binding': env, 'calls': got[1], 'rendered': got[0]} if case < 2 else None)
        if got != exp:
            key = 'translate-calls-differ' if got[1] != exp[1] else 'output-differs'
            if got[0].startswith('RAISED'):
                key = 'raised-' + got[0].split()[1]
            # narrow classification of two mechanisms seen on the unchanged tree
            if has(root, 'target') and (has(root, 'i18nattr') or has(root, 'content')) and calls_differ_only_in_target(got[1], exp[1]):
                key = 'i18n-target-ignored-by-attribute-and-content-translation'
            ctx.violation(key, 'template %r binding %r translator %s\n  real  %r\n  model %r' % (src, env, tkind, got, exp),
                          {'kind': 'tree', 'src': src, 'env': env, 'tkind': tkind, 'expected': [exp[0], exp[1]]})


def calls_differ_only_in_target(a, b):
    return len(a) == len(b) and all(x[:5] == y[:5] for x, y in zip(a, b)) and any(x[5] != y[5] for x, y in zip(a, b))


def layer_macros(ctx, n):
    """A macro body starts from its caller's settings; a slot filler keeps those of the place where it is written."""
    rng = ctx.rng
    T = make_T('rewriting')
    for case in range(n):
        dm, dc, df = (rng.choice([None, 'dm', 'dx']), rng.choice([None, 'dcall']), rng.choice([None, 'dfill']))
        cc = rng.choice([None, 'ctxcall'])
        tc = rng.choice([None, "'de'"])

        def dom(d):
            return ' i18n:domain="%s"' % d if d else ''
        tm = rng.choice([None, "'fr'"])          # i18n:target around the macro's defining element (rendered in place)
        rt = rng.choice([None, 'it'])            # render-time target_language argument
        macro = ('<div%s%s><p metal:define-macro="m"><b i18n:translate="">in macro</b>'
                 '<i metal:define-slot="s" i18n:translate="">slot default</i></p></div>' % (
                     dom(dm), ' i18n:target="%s"' % tm if tm else ''))
        use = ('<div%s%s%s><u metal:use-macro="template.macros[\'m\']"><q metal:fill-slot="s"%s>'
               '<em i18n:translate="">filler text</em></q></u></div>' % (
                   dom(dc), ' i18n:context="%s"' % cc if cc else '', ' i18n:target="%s"' % tc if tc else '', dom(df)))
        filled = rng.random() < .7
        if not filled:
            use = use.replace('<q metal:fill-slot="s"%s><em i18n:translate="">filler text</em></q>' % dom(df), '')
        src = macro + use
        tl = 'de' if tc else rt
        tlm = 'fr' if tm else rt
        want = [('in macro', 'in macro', None, dm, None, tlm), ('slot default', 'slot default', None, dm, None, tlm)]
        want.append(('in macro', 'in macro', None, dc, cc, tl))
        if filled:
            want.append(('filler text', 'filler text', None, df or dc, cc, tl))
        else:
            want.append(('slot default', 'slot default', None, dc, cc, tl))
        cfgkw = {'render_target_language': rt} if rt else {}
        got = run_real(src, {'v': 'V', 'lang': None}, T, **cfgkw)
        ctx.mon('macro-layer-compared')
        ctx.case(key=('macro', dm, dc, df, cc, tc, tm, rt, filled), nontrivial=True)
        if got[1] != want:
            ctx.violation('macro-translation-context', 'template %r\n  calls    %r\n  expected %r' % (src, got[1], want),
                          {'kind': 'macro', 'src': src})


def layer_implicit(ctx, n):
    rng = ctx.rng
    T = make_T('rewriting')
    for case in range(n):
        texts = [rng.choice(['Hello  world', ' padded ', 'x', '\n  multi\n  line ', 'é', 'Bonjour\xa0 !', '\u2003x\xa0', 'price: $$5', '$$ only']) for _ in range(rng.randint(1, 3))]
        attrs = rng.choice([None, 'title', 'TITLE', 'alt'])
        aval, aval_r = rng.choice([('Tip  text', 'Tip  text'), ('Tip ${v}', 'Tip V'), ('${v}', 'V')])
        explicit = rng.choice([None, None, '', ' tid']) if attrs else None
        src = '<div%s%s>' % (' %s="%s"' % (attrs, aval) if attrs else '',
                             ' i18n:attributes="%s%s"' % (attrs, explicit) if explicit is not None else '')
        for i, t in enumerate(texts):
            src += t + '<b/>'
        expl = rng.choice([None, '', 'gid'])
        if expl is not None:
            # an element with an explicit i18n:translate under the implicit option: still ONE call for it
            src += '<p i18n:translate="%s">Greet  <b i18n:name="n" tal:content="v"/> now</p>' % expl
        src += 'tail ${v}<i>${v}</i></div>'
        impl_t = rng.random() < .7
        impl_a = rng.choice([None, ['title'], ['alt', 'title']])
        cfg = {}
        if impl_t:
            cfg['implicit_i18n_translate'] = True
        if impl_a:
            cfg['implicit_i18n_attributes'] = set(impl_a)
        want = []
        out = '<div'
        if attrs:
            if explicit is not None:
                # listed in i18n:attributes: exactly one call, with the interpolated value as default (and as id
                # when none is given), whether or not the attribute is also configured as implicit
                call = ('tid' if explicit else aval_r, aval_r, None, None, None, None)
                want.append(call)
                out += ' %s="%s"' % (attrs, T(call[0], call[1], None))
            elif impl_a and attrs.lower() in impl_a and aval != '${v}':
                if '${' in aval:
                    want.append((aval, None, {'v': 'V'}, None, None, None))
                    out += ' %s="%s"' % (attrs, T(aval, None, {'v': 'V'}))
                else:
                    want.append((aval, aval, None, None, None, None))
                    out += ' %s="%s"' % (attrs, T(aval, aval, None))
            else:
                out += ' %s="%s"' % (attrs, aval_r)
        out += '>'
        for i, t in enumerate(texts):
            t = t.replace('$$', '$')        # the escape for a dollar sign is resolved before the text is a message (C06)
            if impl_t and t.strip():
                norm = WS.sub(' ', t.strip())
                m = re.match(r'(\s*)(.*\S)(\s*)', t, re.S)
                want.append((norm, norm, None, None, None, None))
                out += m.group(1) + T(norm, norm, None) + m.group(3)
            else:
                out += t
            out += '<b/>'
        if expl is not None:
            want.append((expl or 'Greet ${n} now', 'Greet ${n} now', {'n': '<b>V</b>'}, None, None, None))
            out += '<p>' + T(expl or 'Greet ${n} now', 'Greet ${n} now', {'n': '<b>V</b>'}) + '</p>'
        # a text node made of literal text and ${name} parts is sent as msgid with a mapping and no default;
        # a text node that is a single ${name} is not translated
        if impl_t:
            want.append(('tail ${v}', None, {'v': 'V'}, None, None, None))
            out += T('tail ${v}', None, {'v': 'V'})
        else:
            out += 'tail V'
        out += '<i>V</i></div>'
        got = run_real(src, {'v': 'V', 'lang': None}, T, **cfg)
        ctx.mon('implicit-layer-compared')
        ctx.case(key=('implicit', impl_t, tuple(impl_a or ()), attrs, aval, explicit, expl, len(texts)), nontrivial=bool(want))
        if got != (out, want):
            ctx.violation('implicit-translation', 'template %r config %r\n  real  %r\n  model %r' % (src, cfg, got, (out, want)),
                          {'kind': 'implicit', 'src': src, 'cfg': repr(cfg)})


class Msg:
    def __init__(self, s):
        self.s = s

    def __str__(self):
        return 'str-of-' + self.s


class Html:
    def __html__(self):
        return '<h/>'


def layer_messages(ctx, n):
    """Inserted values that are neither str, number nor __html__ objects are offered to the translation function."""
    from chameleon import PageTemplate
    rng = ctx.rng
    for case in range(n):
        d = rng.choice([None, 'd1'])
        c = rng.choice([None, 'c1'])
        t = rng.choice([None, "'de'"])
        sites = rng.sample(['${m}', '<b tal:content="m">x</b>', '<i tal:attributes="a m">y</i>', '<u tal:replace="m">z</u>',
                            '<s a="k ${m}">w</s>', '${n}', '${s}', '${h}', '<b tal:content="string:x ${m}">x</b>'], rng.randint(1, 5))
        src = '<p%s%s%s>%s</p>' % (' i18n:domain="%s"' % d if d else '', ' i18n:context="%s"' % c if c else '',
                                   ' i18n:target="%s"' % t if t else '', ''.join(sites))
        m = Msg('hello<')
        known = rng.random() < .7          # does the translator know the message?
        log = []

        def tr(msgid, domain=None, mapping=None, context=None, target_language=None, default=None):
            log.append((msgid, default, mapping, domain, context, target_language))
            if isinstance(msgid, Msg) and known:
                return 'T<' + msgid.s
            return msgid
        try:
            out = PageTemplate(src, translate=tr)(m=m, n=7, s='plain', h=Html())
        except Exception as e:
            out = 'RAISED %s %s' % (type(e).__name__, str(e).split('\n')[0][:100])
        tl = 'de' if t else None
        nmsg = sum(1 for x in sites if 'm}' in x or '"m"' in x or ' m"' in x)
        want_log = [(m, None, None, d, c, tl)] * nmsg
        text = 'T&lt;hello&lt;' if known else 'str-of-hello&lt;'
        exp = '<p>' + ''.join({'${m}': text, '<b tal:content="m">x</b>': '<b>%s</b>' % text,
                               '<i tal:attributes="a m">y</i>': '<i a="%s">y</i>' % text, '<u tal:replace="m">z</u>': text,
                               '<s a="k ${m}">w</s>': '<s a="k %s">w</s>' % text, '${n}': '7', '${s}': 'plain', '${h}': '<h/>',
                               '<b tal:content="string:x ${m}">x</b>': '<b>x %s</b>' % text}[x] for x in sites) + '</p>'
        ctx.mon('message-objects-compared')
        ctx.case(key=('msg', tuple(sorted(sites)), d, c, t, known), nontrivial=nmsg > 0)
        if out != exp or log != want_log:
            ctx.violation('message-object-insertion', 'template %r (translator knows message: %s)\n  rendered %r calls %r\n  expected %r calls %r'
                          % (src, known, out, log, exp, want_log), {'kind': 'msg', 'src': src})




def layer_macro_boundaries(ctx, n):
    """Settings across the boundaries of the generated code: (a) a slot filler with settings of its own inserts an object
    (neither string nor number nor __html__) through a string: part, ${...} in CDATA and tal:content - it is offered to the
    translation function with the FILLER's domain / context / target; (b) an ordinary template variable that happens to
    be called target_language (or a caller whose target is None under a render-time language) does not set the language
    inside macro bodies."""
    from chameleon import PageTemplate
    rng = ctx.rng
    for case in range(n):
        calls = []

        class Obj:
            pass

        def tr(msgid, domain=None, mapping=None, context=None, target_language=None, default=None):
            calls.append(('OBJ' if isinstance(msgid, Obj) else msgid, domain, context, target_language))
            return 'o' if isinstance(msgid, Obj) else '[%s]' % msgid
        kind = rng.choice(['filler-object', 'filler-object', 'variable-named-target-language', 'target-none-under-render-language'])
        macro = '<tal:c condition="False"><p metal:define-macro="m"><b i18n:translate="">in macro</b><i metal:define-slot="s">d</i></p></tal:c>'
        if kind == 'filler-object':
            dc, df, cf, tf = rng.choice([None, 'dc']), rng.choice([None, 'df']), rng.choice([None, 'cf']), rng.choice([None, "'xx'"])
            site = rng.choice(['<em tal:content="string:Dear ${mobj}"/>', '<![CDATA[${mobj}]]>', '<em tal:content="mobj"/>', '<em>${mobj}</em>'])
            attrs = ''.join(' i18n:%s="%s"' % (k, v) for k, v in (('domain', df), ('context', cf), ('target', tf)) if v)
            src = macro + '<div%s><u metal:use-macro="template.macros[\'m\']"><q metal:fill-slot="s"%s>%s</q></u></div>' % (
                ' i18n:domain="dc"' if dc else '', attrs, site)
            want = [('in macro', dc, None, None), ('OBJ', df or dc, cf, 'xx' if tf else None)]
            kw = {'mobj': Obj()}
        elif kind == 'variable-named-target-language':
            src = macro + '<div tal:define="target_language \'zz\'"><u metal:use-macro="template.macros[\'m\']"/><i i18n:translate="">outside</i></div>'
            # a variable is a variable: the language in force is the one rendering started with (none)
            want = [('in macro', None, None, None), ('outside', None, None, None)]
            kw = {}
        else:
            src = macro + '<div i18n:target="nothing"><u metal:use-macro="template.macros[\'m\']"/><i i18n:translate="">outside</i></div>'
            want = [('in macro', None, None, None), ('outside', None, None, None)]
            kw = {'target_language': 'de'}
        try:
            PageTemplate(src, translate=tr)(**kw)
        except Exception as e:
            calls.append('RAISED %s: %s' % (type(e).__name__, str(e).split('\n')[0][:80]))
        ctx.mon('macro-boundary-settings-compared')
        ctx.case(key=('boundary', kind, src[-90:]), nontrivial=True)
        if calls != want:
            ctx.violation('translation-settings-across-a-macro-boundary', '%s: template %r\n  calls    %r\n  expected %r' % (kind, src, calls, want),
                          {'src': src, 'env': {'v': 'V', 'lang': None}})


def layer_abandoned_settings(ctx, n):
    """An element that sets the domain / context / target language and is then abandoned (its body or the very
    expression of i18n:target fails, tal:on-error takes over): translations AFTER the element - and the fallback's own
    surroundings - see the settings of the enclosing element again, never a half-evaluated or left-over one."""
    from chameleon import PageTemplate
    rng = ctx.rng
    for case in range(n):
        kind = rng.choice(['target-expression-fails-half-way', 'target-set-then-body-fails', 'domain-set-then-body-fails',
                           'context-set-then-body-fails', 'target-expression-yields-object', 'target-expression-inserts-an-object',
                           'target-expression-inserts-two-objects', 'fallback-object-after-descendant-settings',
                           'fallback-object-after-descendant-settings', 'fallback-object-after-failed-inner-fallback'])
        outer = rng.choice([None, 'fr', 'it'])
        calls = []

        class LangObject:
            """neither string nor number nor __html__: offered to the translation function when inserted"""

            def __init__(self, code):
                self.code = code

        def tr(msgid, domain=None, mapping=None, context=None, target_language=None, default=None):
            if isinstance(msgid, LangObject):
                calls.append(('OBJECT:' + msgid.code, domain, context, target_language))
                return msgid.code
            calls.append((msgid, domain, context, target_language))
            return '[%s]' % msgid
        objs = {'lo1': LangObject('d'), 'lo2': LangObject('e')}
        if kind == 'target-expression-inserts-an-object':
            # while the target expression is being evaluated the language in force is still the enclosing one
            inner = '<p i18n:target="string:${lo1}e"><b i18n:translate="">in</b></p>'
            inner_calls = [('OBJECT:d', None, None, outer), ('in', None, None, 'de')]
        elif kind == 'target-expression-inserts-two-objects':
            inner = '<p i18n:target="string:${lo1}${lo2}"><b i18n:translate="">in</b></p>'
            inner_calls = [('OBJECT:d', None, None, outer), ('OBJECT:e', None, None, outer), ('in', None, None, 'de')]
        elif kind == 'fallback-object-after-descendant-settings':
            # the fallback value is inserted in place of the element: what a descendant had set is gone with the descendant
            sets = rng.choice([('i18n:domain="dd"', ('dd', None, outer)), ('i18n:context="cc"', (None, 'cc', outer)),
                               ('i18n:target="\'de\'"', (None, None, 'de')), ('i18n:domain="dd" i18n:target="\'de\'"', ('dd', None, 'de'))])
            inner = '<p tal:on-error="lo1"><q %s><b i18n:translate="">in</b>${1/0}</q></p>' % sets[0]
            inner_calls = [('in',) + sets[1], ('OBJECT:d', None, None, outer)]
        elif kind == 'fallback-object-after-failed-inner-fallback':
            inner = '<p tal:on-error="lo1"><q i18n:domain="dd" tal:on-error="lo2.nosuchattribute"><b i18n:translate="">in</b>${1/0}</q></p>'
            inner_calls = [('in', 'dd', None, outer), ('OBJECT:d', None, None, outer)]
        elif kind == 'target-expression-fails-half-way':
            inner = '<p tal:on-error="string:E" i18n:target="string:${first}_${nosuchname}"><b i18n:translate="">in</b></p>'
            inner_calls = []
        elif kind == 'target-set-then-body-fails':
            inner = '<p tal:on-error="string:E" i18n:target="\'de\'"><b i18n:translate="">in</b>${1/0}</p>'
            inner_calls = [('in', None, None, 'de')]
        elif kind == 'domain-set-then-body-fails':
            inner = '<p tal:on-error="string:E" i18n:domain="dd"><b i18n:translate="">in</b>${1/0}</p>'
            inner_calls = [('in', 'dd', None, outer)]
        elif kind == 'context-set-then-body-fails':
            inner = '<p tal:on-error="string:E" i18n:context="cc"><b i18n:translate="">in</b>${1/0}</p>'
            inner_calls = [('in', None, 'cc', outer)]
        else:
            inner = '<p i18n:target="string:${first}"><b i18n:translate="">in</b></p>'
            inner_calls = [('in', None, None, 'de')]
        src = '<r><i i18n:translate="">before</i>%s<i i18n:translate="">after</i></r>' % inner
        want_calls = [('before', None, None, outer)] + inner_calls + [('after', None, None, outer)]
        body = '<p>d</p>' if kind.startswith('fallback-object') else '<p>E</p>' if 'on-error' in inner else '<p><b>[in]</b></p>'
        want = '<r><i>[before]</i>%s<i>[after]</i></r>' % body
        try:
            got = PageTemplate(src, translate=tr)(first='de', target_language=outer, **objs)
        except Exception as e:
            got = 'RAISED %s: %s' % (type(e).__name__, str(e).split('\n')[0][:100])
        ctx.mon('abandoned-settings-compared')
        ctx.case(key=('abandoned', kind, outer), nontrivial=True)
        if got != want or calls != want_calls:
            ctx.violation('translation-settings-after-an-abandoned-element', 'template %r rendered with target_language=%r: %r, calls %r; expected %r, calls %r' % (
                src, outer, got, calls, want, want_calls), {'src': src, 'env': {'v': 'V', 'lang': None}})


def run(ctx):
    monitors.install(ctx, tokalg=False)
    layer_trees(ctx, 700 if ctx.quick else 4000)
    layer_macros(ctx, 60 if ctx.quick else 300)
    layer_implicit(ctx, 60 if ctx.quick else 300)
    layer_messages(ctx, 60 if ctx.quick else 300)
    layer_abandoned_settings(ctx, 30 if ctx.quick else 300)
    layer_macro_boundaries(ctx, 30 if ctx.quick else 300)


def replay(data):
    T = make_T(data.get('tkind', 'rewriting'))
    env = data.get('env', {'v': 'V', 'lang': None})
    got = run_real(data['src'], env, T)
    text = 'template %r binding %r\nreal %r' % (data['src'], env, got)
    if 'expected' in data:
        exp = (data['expected'][0], [tuple(x) for x in data['expected'][1]])
        text += '\nmodel %r' % (exp,)
        return (got[0], [tuple(x) for x in got[1]]) != exp, text
    return True, text
