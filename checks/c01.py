"""C01 — TAL statements render with the language semantics, in one fixed order.

History + executable model.  Programs are generated as an AST of my own
(vlib/tmodel.py); every statement argument is the recording callable f(<unique id>)
whose value (or failure) comes from a binding table of value *recipes*.  The real
engine's (output | exception, evaluation log) must equal the reference model's,
and all serialisations of one AST that differ only in the order of the attributes
inside the start tags must render identically (metamorphic).

Layers: exhaustive — every subset of {define, condition, repeat, switch, case,
content|replace, omit-tag, attributes} on one element inside a fixed parent, all
permutations of the statement attributes (<=4 statements; 24 sampled beyond), several
value vectors; random — nested elements, 1..3 statements each, switch/case across
levels, probes of variable visibility between the elements.
"""
import itertools
import random

from vlib import monitors, tmodel
from vlib.tmodel import El, Probe, Text

PROP = 'C01'
TITLE = 'TAL statements: semantics and fixed order'
DEBUG_SHARDS = True      # two of sixteen shards run the library in its debug mode (vlib/runner.py)
LEVEL = 'exploration'
SHARDS = {'quick': 16, 'thorough': 16}
FLOOR = {'quick': 1500, 'thorough': 20000}
REQUIRED_MONITORS = {'model-compared': 5000, 'permutations-compared': 3000, 'semicolon-lists-compared': 500}
RULE = ('a case = (AST, binding table, attribute permutation). Exhaustive layer: all 2^7-ish statement subsets on one element '
        '(content/replace exclusive, case only under a switch) x value vectors drawn per site from the classes None / default '
        '/ false-ish / true-ish / numbers / str / hostile str / bytes / str subclass / sequences / one-shot iterators / dict / '
        'object / __html__ object x all permutations of the statement attributes for <=4 statements (24 sampled beyond). Random '
        'layer: depth <=3 (quick) / <=4 (thorough), 0..3 statements per element, 3 binding tables per program, 3 permutations. '
        'Non-trivial iff some element carries >=2 TAL statements and the model output differs from the statement-free '
        'rendering; distinct by (sorted statement subset per element, value-class vector, permutation index). Not generated '
        '(unspecified): default as value of define/condition/repeat/omit-tag, the same name defined both local and global, '
        'boolean attribute names, ordinary repeated elements not on their own line.')
ASSUMPTIONS = ['the reference model (vlib/tmodel.py) encodes the documented TAL semantics (docs/reference.rst)']

ANY = ['none', 'zero', 'empty', 'emptylist', 'false', 'one', 'true', 'float', 'str', 'hostile', 'nonascii', 'bytes',
       'list', 'tuple', 'dict', 'obj', 'markup', 'strsub']
SITE_VALUES = {
    'define': ANY,
    'condition': ANY,
    'omit': ANY,
    'repeat': tmodel.ITERABLES,
    'switch': ['one', 'str', 'zero', 'none', 'true'],
    'case': ['one', 'str', 'zero', 'default', 'true', 'hostile', 'none'],
    'content': ANY + ['default', 'default', 'none'],
    'replace': ANY + ['default', 'default', 'none'],
    'attributes': ['none', 'default', 'empty', 'zero', 'false', 'true', 'str', 'hostile', 'one', 'float', 'obj', 'markup',
                   'bytes', 'nonascii'],
}
tmodel.RECIPES['pair'] = lambda: ('L', 'R<')


class Gen:
    def __init__(self, rng, maxdepth=2):
        self.rng = rng
        self.ids = itertools.count(1)
        self.sites = {}         # rid -> site kind
        self.multi_attr = set() # rids of multi-entry tal:attributes (their relative order is unspecified)
        self.maxdepth = maxdepth
        self.clause_stack = []   # define / repeat clauses of the enclosing elements (identical clause text on nested elements)

    def rid(self, site):
        i = next(self.ids)
        self.sites[i] = site
        return i

    def stmts_for(self, chosen, in_switch):
        rng = self.rng
        st = {}
        for c in chosen:
            if c == 'define':
                parts = []
                for _ in range(rng.choice([1, 1, 2])):
                    k = rng.random()
                    if k < .15:
                        parts.append(('local', ('v0', 'v1'), self.rid('define-pair')))
                    elif k < .3:
                        parts.append(('global', ('g%d' % rng.randint(0, 1),), self.rid('define')))
                    else:
                        parts.append(('local', ('v%d' % rng.randint(0, 2),), self.rid('define')))
                st[c] = parts
            elif c == 'repeat':
                if rng.random() < .15:
                    st[c] = (('r0', 'r1'), self.rid('repeat-pair'))
                else:
                    st[c] = (('r%d' % rng.randint(0, 1),), self.rid('repeat'))
            elif c == 'attributes':
                names = rng.sample(['a', 'b', 'new', 'B'], rng.choice([1, 1, 2]))
                if 'b' in names and 'B' in names:
                    names.remove('B')
                st[c] = [(n, self.rid('attributes')) for n in names]
                if len(names) > 1:
                    self.multi_attr.update(r for _, r in st[c])
            elif c == 'omit':
                st[c] = self.rid('omit') if rng.random() < .7 else None
            elif c in ('content', 'replace'):
                st[c] = (rng.choice(['text', 'text', 'structure']), self.rid(c))
            else:
                st[c] = self.rid(c)
        return st

    def element(self, depth, in_switch):
        rng = self.rng
        pool = ['define', 'condition', 'repeat', 'content', 'replace', 'omit', 'attributes', 'switch'] + \
               (['case', 'case'] if in_switch else [])
        k = rng.choice([0, 1, 2, 2, 3, 3, 4])
        chosen = rng.sample(pool, min(k, len(pool)))
        chosen = list(dict.fromkeys(chosen))
        if 'case' in chosen and 'switch' in chosen and rng.random() < .9:
            chosen.remove('switch')
        if 'content' in chosen and 'replace' in chosen:
            chosen.remove(rng.choice(['content', 'replace']))
        st = self.stmts_for(chosen, in_switch)
        for kind in ('define', 'repeat'):
            same = [c for k, c in self.clause_stack if k == kind]
            if kind in st and same and rng.random() < .2 and type(self) is Gen:
                st[kind] = rng.choice(same)        # the very same clause (same text) as on an enclosing element
        statics = [(n, 'S' + n) for n in ['a', 'b'] if rng.random() < .5]
        kids = []
        pushed = [(k, st[k]) for k in ('define', 'repeat') if k in st]
        self.clause_stack.extend(pushed)
        for _ in range(rng.randint(0, 2)):
            if depth < self.maxdepth and rng.random() < .6:
                kids.append(self.element(depth + 1, in_switch or 'switch' in st))
            else:
                kids.append(Text(rng.choice(['t', ' u ', 'x&amp;y', 'é'])))
        if rng.random() < .6:
            kids.append(Probe(['v0', 'v1', 'r0', 'g0']))
        del self.clause_stack[len(self.clause_stack) - len(pushed):]
        tagname = rng.choice(['p', 'div', 'b', 'tal:block']) if 'attributes' not in st else rng.choice(['p', 'div', 'b'])
        indent = None
        if 'repeat' in st and not tagname.startswith('tal:'):
            indent = rng.randint(0, 4)
        return El(tagname, statics if not tagname.startswith('tal:') else [], st, kids, indent)

    def table(self, rng):
        t = {}
        for rid, site in self.sites.items():
            if site == 'define-pair':
                t[rid] = 'pair'
            elif site == 'repeat-pair':
                t[rid] = rng.choice(['itpairs', 'it0', 'itnone'])
            else:
                t[rid] = rng.choice(SITE_VALUES[site])
        if t and rng.random() < .15:
            cands = [r for r in sorted(t) if r not in self.multi_attr]
            if cands:
                t[rng.choice(cands)] = ('raise', 'Boom')     # one expression fails: must propagate, nothing after it runs
        return t


def tal_block_fix(node):
    """tal:block elements render no tag: model them as omitted."""
    if isinstance(node, El):
        if node.tag.startswith('tal:'):
            node.model_omit = True     # never a tag; a tal:omit-tag expression on it is never evaluated
        for k in node.kids:
            tal_block_fix(k)


def stmt_shape(node):
    if not isinstance(node, El):
        return ()
    return (tuple(sorted(node.stmts)),) + tuple(stmt_shape(k) for k in node.kids if isinstance(k, El))


def max_stmts(node):
    if not isinstance(node, El):
        return 0
    return max([len(node.stmts)] + [max_stmts(k) for k in node.kids])


def has_switch_and_case(node):
    if not isinstance(node, El):
        return False
    return ('switch' in node.stmts and 'case' in node.stmts) or any(has_switch_and_case(k) for k in node.kids)


def strip_statements(node):
    if not isinstance(node, El):
        return node
    return El(node.tag, node.statics, {}, [strip_statements(k) for k in node.kids], None)


def compare(ctx, root, table, perms, gen_key, sample=False):
    """Render one AST under `perms` attribute permutations; compare with the model and with each other."""
    want = tmodel.run_model(root, table)
    groups = tmodel.attribute_groups(root)
    plain = tmodel.run_model(strip_statements(root), {})
    nontrivial = max_stmts(root) >= 2 and want['out'] != plain['out']
    first = None
    for pi, pseed in enumerate(perms):
        src = '<root>' + tmodel.serialise(root, random.Random(pseed) if pseed is not None else None) + '</root>'
        got = tmodel.run_real(src, table)
        if got['out'] is not None:
            assert got['out'].startswith('<root>'), got
        w = dict(want)
        if w['out'] is not None:
            w['out'] = '<root>' + w['out'] + '</root>'
        ctx.mon('model-compared')
        vec = tuple(sorted((tmodel_site(gen_key, rid), r if isinstance(r, str) else 'raise') for rid, r in table.items()))
        ctx.case(key=(stmt_shape(root), vec, pi), nontrivial=nontrivial,
                 sample={'source': src, 'table': {str(k): v for k, v in table.items()}, 'rendered': got['out'],
                         'log': got['log']} if sample and pi == 0 else None)
        if not tmodel.same(got, w, groups=groups):
            key = classify(root, table, got, w, groups)
            ctx.violation(key, 'template %r\n  table %r\n  real  %r\n  model %r' % (src, table, brief(got), brief(w)),
                          {'kind': 'model', 'src': src, 'table': {str(k): v for k, v in table.items()}, 'model': brief(w)})
            return
        if first is None:
            first = (src, got)
        else:
            ctx.mon('permutations-compared')
            if not tmodel.same(got, first[1], groups=groups):
                ctx.violation('attribute-order-changes-rendering',
                              'two orders of the same statement attributes render differently:\n  %r -> %r\n  %r -> %r' % (
                                  first[0], brief(first[1]), src, brief(got)),
                              {'kind': 'perm', 'src': src, 'table': {str(k): v for k, v in table.items()}, 'src2': first[0]})
                return


def tmodel_site(gen, rid):
    return gen.sites.get(rid, '?')


def brief(r):
    return {'out': r['out'], 'log': r['log'], 'exc': r['exc']}


def classify(root, table, got, want, groups=None):
    # known mechanism: tal:switch and tal:case on one element -> bare AssertionError at compile time
    if has_switch_and_case(root) and got['exc'] and got['exc'].startswith('COMPILE AssertionError'):
        return 'switch-and-case-on-one-element-assertion'
    # known mechanism: a tal:case expression that does not match by equality is evaluated twice
    alt = tmodel.run_model(root, table, quirks={'case-double-eval'})
    if alt['out'] is not None:
        alt['out'] = '<root>' + alt['out'] + '</root>'
    if tmodel.same(got, alt, groups=groups) and alt['log'] != (want['log']):
        return 'case-expression-evaluated-twice'
    if got['exc'] != want['exc']:
        return 'exception-differs:%s' % (got['exc'] or 'none').split(':')[0].replace(' ', '-')
    if got['out'] != want['out']:
        return 'output-differs'
    return 'evaluation-log-differs'


# model treats tal:block as tag-less: patch tmodel.Model.body through a subclass-free hook
_orig_body = tmodel.Model.body


def _body(self, node, switch):
    if getattr(node, 'model_omit', False):
        st = dict(node.stmts)
        st['omit'] = None
        shadow = El(node.tag, node.statics, st, node.kids, node.indent)
        return _orig_body(self, shadow, switch)
    return _orig_body(self, node, switch)


tmodel.Model.body = _body


def layer_exhaustive(ctx):
    kinds = ['define', 'condition', 'repeat', 'switch', 'case', 'content', 'replace', 'omit', 'attributes']
    subsets = []
    for r in range(0, len(kinds) + 1):
        for sub in itertools.combinations(kinds, r):
            if 'content' in sub and 'replace' in sub:
                continue
            if 'case' in sub and 'switch' in sub:
                continue
            if len(sub) > 6:
                continue
            subsets.append(sub)
    rng = ctx.rng
    nvec = 2 if ctx.quick else 8
    for si, sub in enumerate(subsets):
        if si % ctx.nshards != ctx.shard:
            continue
        for vec in range(nvec):
            g = Gen(rng)
            st = g.stmts_for(list(sub), True)
            inner = El('p', [('a', 'Sa')] if rng.random() < .5 else [], st,
                       [Text('kid'), Probe(['v0', 'v1', 'r0', 'g0'])], 2 if 'repeat' in st else None)
            parent = El('div', [], {'switch': g.rid('switch')}, [Text('pre'), inner, Text('post'), Probe(['v0', 'r0', 'g0'])])
            table = g.table(rng)
            n = len(st)
            nperm = min(24, [1, 1, 2, 6, 24][n] if n <= 4 else 24)
            perms = [None] + [rng.randrange(1 << 30) for _ in range(nperm - 1)]
            ctx.cover('statement-subset', '+'.join(sub) or 'none')
            compare(ctx, parent, table, perms, g, sample=(si % 40 == 0 and vec == 0))


def layer_random(ctx, n):
    rng = ctx.rng
    for i in range(n):
        g = Gen(rng, maxdepth=2 if ctx.quick else 3)
        # a final probe after everything observes what survives the outermost element
        root = El('section', [], {}, [g.element(0, False), Probe(['v0', 'v1', 'v2', 'r0', 'r1', 'g0'])])
        tal_block_fix(root)
        for b in range(3):
            table = g.table(rng)
            perms = [None, rng.randrange(1 << 30), rng.randrange(1 << 30)]
            compare(ctx, root, table, perms, g, sample=(i < 2 and b == 0))



def layer_escaped_semicolons(ctx, n):
    """tal:define / tal:attributes lists whose values contain semicolons: inside a part ';;' stands for one ';', a
    single ';' separates parts - wherever the escaped semicolon stands (start, middle, very end of a value, several
    in a row, directly before the separator or the end of the list)."""
    from chameleon import PageTemplate
    rng = ctx.rng
    VALUES = ['a', 'a;b', 'a;', ';a', ';', ';;', 'a;;b', 'x;y;', 'color:red;', 'f();g();', 'p q', '&', 'é;']
    for case in range(n):
        k = rng.randint(1, 4)
        vals = [rng.choice(VALUES) for _ in range(k)]
        names = ['n%d' % i for i in range(k)]
        stmt = rng.choice(['define', 'attributes'])
        sep = rng.choice(['; ', ';', ';  ', ';\n   '])
        enc = lambda v: v.replace(';', ';;').replace('&', '&amp;')
        if rng.random() < .3:
            # a string: expression is the rest of the part as written: white space in front of the separator belongs to it
            vals = [v + rng.choice([' ', '  ', '\t']) for v in vals]
        parts = ['%s string:%s' % (nm, enc(v)) for nm, v in zip(names, vals)]
        lst = sep.join(parts) + rng.choice(['', ';', '; '])
        if stmt == 'define':
            src = '<p tal:define="%s">%s</p>' % (lst, '|'.join('${%s}' % nm for nm in names))
            want = '<p>%s</p>' % '|'.join(v.replace('&', '&amp;') for v in vals)
        else:
            src = '<p tal:attributes="%s">x</p>' % lst
            want = '<p%s>x</p>' % ''.join(' %s="%s"' % (nm, v.replace('&', '&amp;')) for nm, v in zip(names, vals))
        try:
            got = PageTemplate(src)()
        except Exception as e:
            got = 'RAISED %s: %s' % (type(e).__name__, str(e).split('\n')[0][:100])
        ctx.mon('semicolon-lists-compared')
        ctx.case(key=('semi', stmt, tuple(vals), sep.strip() == ';' and len(sep), lst[-1] == ';'), nontrivial=any(';' in v for v in vals))
        if got != want:
            ctx.violation('escaped-semicolon-in-list', 'template %r rendered %r, expected %r' % (src, got, want), {'kind': 'semi', 'src': src})


def run(ctx):
    monitors.install(ctx, tokalg=False)
    layer_exhaustive(ctx)
    layer_random(ctx, 120 if ctx.quick else 2500)
    layer_escaped_semicolons(ctx, 60 if ctx.quick else 1000)


def replay(data):
    if data.get('kind') == 'semi':
        from chameleon import PageTemplate
        try:
            out = PageTemplate(data['src'])()
        except Exception as e:
            out = 'RAISED %s' % type(e).__name__
        return True, 'template %r -> %r' % (data['src'], out)
    table = {int(k): (tuple(v) if isinstance(v, list) else v) for k, v in data['table'].items()}
    got = tmodel.run_real(data['src'], table)
    text = 'source %r\ntable %r\nreal  %r' % (data['src'], table, brief(got))
    if data.get('kind') == 'perm':
        other = tmodel.run_real(data['src2'], table)
        text += '\nother order %r\nreal  %r' % (data['src2'], brief(other))
        return not tmodel.same(got, other), text
    text += '\nmodel %r' % (data['model'],)
    m = data['model']
    return (got['out'], got['log'], got['exc']) != (m['out'], m['log'], m['exc']), text
