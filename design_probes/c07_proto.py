import random, sys, re
sys.path.insert(0, '/repo/src')
from chameleon import PageTemplate
from chameleon.tales import DEFAULT_MARKER as DEFAULT
rng = random.Random(int(sys.argv[1]))
NAMES = ['a', 'b', 'class', 'checked', 'Title']
VALS = [None, 'DEF', '', 0, False, True, 'str', 'h<&>"\'', 7]
BOOL = {'checked'}
def case_variant(n): return rng.choice([n, n.upper(), n.capitalize()])
def esc(v, q):
    v = str(v).replace('&', '&amp;').replace('<', '&lt;').replace('>', '&gt;')
    return v.replace('"', '&quot;') if q == '"' else v.replace("'", '&#39;')
def gen():
    statics = []
    for n in rng.sample(NAMES, rng.randint(0, 3)):
        q = rng.choice(['"', '"', "'"])
        statics.append((case_variant(n), 'S' + n, q))
    entries = []; used = set()
    for _ in range(rng.randint(0, 4)):
        if rng.random() < 0.25 and not any(e[0] is None for e in entries):
            entries.append((None, 'd%d' % len(entries)))
        else:
            n = rng.choice(NAMES + ['new1', 'new2'])
            if n.lower() in used: continue
            used.add(n.lower()); entries.append((case_variant(n), 'v%d' % len(entries)))
    return statics, entries
def bindings(entries, statics):
    B = {}
    for name, var in entries:
        if name is None:
            keys = rng.sample(NAMES + ['new1', 'dk'], rng.randint(0, 3))
            B[var] = {k: rng.choice([v for v in VALS if v != 'DEF']) for k in keys}
        else: B[var] = rng.choice(VALS)
    return B
def model(statics, entries, B):
    # merged list of [name, kind, payload, quote]
    merged = [[n, 'static', t, q] for n, t, q in statics]
    idx = {n.lower(): i for i, (n, t, q) in enumerate(statics)}
    for name, var in entries:
        if name is None: merged.append([None, 'dict', var, '"'])
        elif name.lower() in idx:
            i = idx[name.lower()]; merged[i] = [name, 'dyn', (var, merged[i][2]), merged[i][3]]
        else:
            idx[name.lower()] = len(merged); merged.append([name, 'dyn', (var, None), '"'])
    out = []  # (name, value, quote)
    for i, (name, kind, payload, q) in enumerate(merged):
        later_names = {m[0] for m in merged[i:] if m[0] is not None}
        later_dicts = [B[m[2]] for m in merged[i+1:] if m[1] == 'dict']
        if kind == 'dict':
            for k, v in B[payload].items():
                if k in later_names: continue
                if any(k in d for d in later_dicts): continue
                if k in BOOL:
                    if not v: continue
                    v = k
                if v is None: continue
                out.append((k, esc(v, '"'), '"'))
            continue
        if any(name in d for d in later_dicts): continue
        if kind == 'static': out.append((name, payload, q)); continue
        var, default = payload
        v = B[var]
        if name in BOOL:
            if v == 'DEF' and isinstance(v, str): v = default
            elif v: v = name
            else: v = None
            if v is None: continue
            out.append((name, v, q)); continue
        if v == 'DEF' and isinstance(v, str):
            if default is None: continue
            out.append((name, default, q)); continue
        if v is None: continue
        out.append((name, esc(v, q), q))
    return out
TAG = re.compile(r'<p((?:\s+[^\s=>/]+(?:=(?:"[^"]*"|\'[^\']*\'))?)*)\s*>')
ATTR = re.compile(r'\s+([^\s=>/]+)(?:=("[^"]*"|\'[^\']*\'))?')
def read(out):
    m = TAG.match(out)
    if not m: return 'UNPARSEABLE ' + out
    return [(n, v[1:-1] if v else None, v[0] if v else None) for n, v in ATTR.findall(m.group(1))]
bad = 0; n = 0; shown = 0
for case in range(int(sys.argv[2])):
    statics, entries = gen()
    src = '<p' + ''.join(' %s=%s%s%s' % (n_, q, t, q) for n_, t, q in statics)
    if entries: src += ' tal:attributes="%s"' % '; '.join((nm + ' ' + var) if nm else var for nm, var in entries)
    src += '>x</p>'
    for b in range(3):
        B = bindings(entries, statics)
        realB = {k: (DEFAULT if (isinstance(v, str) and v == 'DEF') else v) for k, v in B.items()}
        n += 1
        exp = model(statics, entries, B)
        try: got = read(PageTemplate(src)(**realB))
        except Exception as e: got = 'ERR %s %s' % (type(e).__name__, str(e).split('\n')[0])
        if got != exp:
            bad += 1
            if shown < 10: shown += 1; print('--- MISMATCH', src, B, '\n exp', exp, '\n got', got)
print('cases', n, 'bad', bad)
