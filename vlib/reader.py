"""The independent reader: re-reads rendered text with code that shares nothing
with Chameleon (html.parser + a small strict tag scanner)."""
import re
from html.parser import HTMLParser


class _R(HTMLParser):
    def __init__(self):
        super().__init__(convert_charrefs=False)
        self.events = []

    def handle_starttag(self, tag, attrs):
        self.events.append(('start', tag, attrs))

    def handle_startendtag(self, tag, attrs):
        self.events.append(('startend', tag, attrs))

    def handle_endtag(self, tag):
        self.events.append(('end', tag))

    def handle_data(self, data):
        self.events.append(('text', data))

    def handle_entityref(self, name):
        self.events.append(('text', '&%s;' % name))

    def handle_charref(self, name):
        self.events.append(('text', '&#%s;' % name))

    def handle_comment(self, data):
        self.events.append(('comment', data))

    def handle_decl(self, decl):
        self.events.append(('decl', decl))

    def handle_pi(self, data):
        self.events.append(('pi', data))

    def unknown_decl(self, data):
        self.events.append(('unknown_decl', data))


def events(text):
    """Event list; adjacent text events merged."""
    r = _R()
    r.feed(text)
    r.close()
    out = []
    for e in r.events:
        if e[0] == 'text' and out and out[-1][0] == 'text':
            out[-1] = ('text', out[-1][1] + e[1])
        else:
            out.append(e)
    return out


def structure(text):
    """Events with text content abstracted away: what C02 calls 'same elements and attributes'."""
    out = []
    for e in events(text):
        if e[0] in ('start', 'startend'):
            out.append((e[0], e[1], tuple(k for k, v in e[2])))
        elif e[0] == 'text':
            continue            # text content is not structure
        elif e[0] == 'comment':
            out.append(('comment',))
        elif e[0] == 'pi':
            out.append(('pi', e[1].split(None, 1)[0] if e[1].split() else ''))     # the instruction's data is content, its target structure
        else:
            out.append((e[0],) + tuple(e[1:2]))
    return out


_TAG = re.compile(r'<([A-Za-z_:@][^\s/>]*)((?:\s+[^\s=/>]+(?:\s*=\s*(?:"[^"]*"|\'[^\']*\'|[^\s>]*))?)*)\s*(/?)>')
_ATTR = re.compile(r'\s+([^\s=/>]+)(?:(\s*=\s*)("[^"]*"|\'[^\']*\'|[^\s>]*))?')


def start_tags(text):
    """Strict scanner: list of (tagname, [(name, quote, rawvalue|None)], raw) for every start tag
    outside comments / CDATA / PIs, names in original case."""
    # blank out comments, CDATA, PIs and declarations
    def blank(m):
        return ' ' * len(m.group())
    t = re.sub(r'<!--.*?-->|<!\[CDATA\[.*?\]\]>|<\?.*?\?>|<![^>]*>', blank, text, flags=re.S)
    out = []
    for m in _TAG.finditer(t):
        attrs = []
        for a in _ATTR.finditer(m.group(2)):
            name, eq, val = a.group(1), a.group(2), a.group(3)
            if val is None:
                attrs.append((name, None, None))
            elif val[:1] in '"\'' and len(val) >= 2 and val[-1] == val[0]:
                attrs.append((name, val[0], val[1:-1]))
            else:
                attrs.append((name, '', val))
        out.append((m.group(1), attrs, text[m.start():m.end()]))
    return out


def unescape_literal(s):
    """Un-escape the five predefined entities and numeric references literally (NUL stays NUL)."""
    def rep(m):
        g = m.group(1)
        if g.startswith('#x') or g.startswith('#X'):
            return chr(int(g[2:], 16))
        if g.startswith('#'):
            return chr(int(g[1:]))
        return {'amp': '&', 'lt': '<', 'gt': '>', 'quot': '"', 'apos': "'"}.get(g, m.group())
    return re.sub(r'&(#[xX][0-9a-fA-F]+|#[0-9]+|\w+);', rep, s)
