"""Controlled scheduler: enumerate 'A runs k line-steps, then B runs to completion, then A finishes' on an auto-reload template after a file change."""
import sys, threading, time, os
sys.path.insert(0, '/repo/src')
from chameleon import PageTemplateFile
from chameleon.template import BaseTemplate, BaseTemplateFile
mon = sys.monitoring; TOOL = mon.DEBUGGER_ID; mon.use_tool_id(TOOL, 'vsched')
codes = [BaseTemplate.cook.__code__, BaseTemplateFile.cook_check.__code__, BaseTemplate._cook.__code__, BaseTemplateFile.read.__code__]
gate = {}; cv = threading.Condition(); waiting = {}; trace = []
def on_line(code, line):
    t = threading.current_thread().name
    if t not in gate: return
    with cv: waiting[t] = (code.co_name, line); cv.notify_all()
    gate[t].wait(); gate[t].clear()
    trace.append((t, code.co_name, line))
mon.register_callback(TOOL, mon.events.LINE, on_line)
for c in codes: mon.set_local_events(TOOL, c, mon.events.LINE)
p = '/tmp/exp/ft/r.pt'
def step(n):
    """release thread n for one step; wait until it parks again or finishes"""
    with cv: waiting.pop(n, None)
    gate[n].set()
    with cv: cv.wait_for(lambda: n in waiting, timeout=5)
results = {}
k = 0; findings = []
while True:
    k += 1
    open(p, 'w').write('<p>V1</p>'); os.utime(p, (1000, 1000))
    t = PageTemplateFile(p, auto_reload=True); assert t() == '<p>V1</p>'
    open(p, 'w').write('<p>V2</p>'); os.utime(p, (2000, 2000))
    res = {}; waiting.clear(); trace.clear()
    def work(n):
        res[n] = t()
        with cv: waiting[n] = 'DONE'; cv.notify_all()
    ths = {}
    for n in ('A', 'B'):
        gate[n] = threading.Event(); ths[n] = threading.Thread(target=work, args=(n,), name=n); ths[n].start()
    with cv: cv.wait_for(lambda: len(waiting) == 2, timeout=5)
    # A runs k steps
    a_done = False
    for i in range(k):
        if waiting.get('A') == 'DONE': a_done = True; break
        step('A')
    where = waiting.get('A')
    while waiting.get('B') != 'DONE': step('B')
    while waiting.get('A') != 'DONE': step('A')
    for th in ths.values(): th.join()
    ok = res['A'] == '<p>V2</p>' and res['B'] == '<p>V2</p>'
    print('k=%2d A parked at %-28s -> A=%s B=%s %s' % (k, where, res['A'], res['B'], '' if ok else '  <-- STALE'))
    if not ok: findings.append((k, where))
    for n in ('A', 'B'): del gate[n]
    if a_done: break
print('findings', findings)
