#!/usr/bin/env python3
"""Evaluate every delivered seeded change (/tmp/mut/Cxx_N.*) and store it under /verif/seeded/<id>/.
usage: tools/seedall.py [ids...]"""
import json, os, shutil, subprocess, sys, glob
EXTRA = {'C19_2': ['C15'], 'C14_1': ['C16'], 'C01_2': ['C05'], 'C04_1': ['C05'], 'C05_1': ['C04'], 'C11_2': ['C05'],
         'C12_5': ['C15'], 'C06_6': ['C03'], 'C03_3': ['C06'], 'C20_6': ['C16'], 'C02_6': ['C06'], 'C14_6': ['C15'], 'C18_6': ['C06']}
EXTRA.update({'C02_9': ['C01'], 'C02_10': ['C20', 'C16'], 'C03_9': ['C18'], 'C03_10': ['C15'], 'C04_9': ['C05'], 'C05_10': ['C14'],
              'C06_9': ['C14'], 'C09_10': ['C13'], 'C11_9': ['C19'], 'C14_10': ['C16'], 'C16_9': ['C14'], 'C17_9': ['C16'],
              'C19_10': ['C16'], 'C20_10': ['C16']})
EXTRA.update({'C03_11': ['C16', 'C17'], 'C03_12': ['C14'], 'C05_11': ['C08'], 'C01_11': ['C07'], 'C07_11': ['C01'], 'C07_12': ['C10'],
              'C16_12': ['C17'], 'C11_11': ['C05'], 'C08_12': ['C05'], 'C13_11': ['C09'], 'C19_11': ['C13'], 'C12_11': ['C09'], 'C20_11': ['C17']})
EXTRA.update({'C01_13': ['C05', 'C13'], 'C01_14': ['C08'], 'C05_13': ['C11'], 'C05_14': ['C01'], 'C06_13': ['C04', 'C20'], 'C04_14': ['C06'],
              'C13_14': ['C05'], 'C14_13': ['C12', 'C13'], 'C15_14': ['C04'], 'C16_13': ['C07', 'C17'], 'C18_14': ['C16'], 'C19_13': ['C12'],
              'C20_13': ['C17'], 'C20_14': ['C06'], 'C11_13': ['C05'], 'C09_13': ['C10'], 'C07_13': ['C10'], 'C02_14': ['C03'],
              'C03_13': ['C02'], 'C03_14': ['C17'], 'C17_13': ['C20']})
EXTRA.update({'C01_15': ['C07'], 'C01_16': ['C05'], 'C02_15': ['C10'], 'C02_16': ['C03', 'C06'], 'C03_15': ['C18'], 'C03_16': ['C09'], 'C04_16': ['C01'],
              'C05_15': ['C04'], 'C05_16': ['C13'], 'C06_15': ['C10'], 'C06_16': ['C04'], 'C09_15': ['C03'], 'C10_15': ['C09'], 'C11_15': ['C19'],
              'C11_16': ['C04'], 'C13_16': ['C14'], 'C14_15': ['C10'], 'C14_16': ['C04'], 'C15_15': ['C14'], 'C16_15': ['C14'], 'C17_15': ['C03'],
              'C19_15': ['C11'], 'C20_15': ['C06'], 'C20_16': ['C06'], 'C12_15': ['C01'], 'C12_16': ['C09']})
EXTRA.update({'C16_17': ['C09'], 'C17_17': ['C03'], 'C17_18': ['C20'], 'C11_17': ['C19', 'C15'], 'C11_18': ['C04', 'C06', 'C19'], 'C19_17': ['C06', 'C11'],
              'C19_18': ['C09'], 'C18_17': ['C09'], 'C18_18': ['C03', 'C07'], 'C01_17': ['C05'], 'C04_17': ['C13'], 'C12_17': ['C09'], 'C12_18': ['C13'],
              'C14_17': ['C05', 'C04']})
EXTRA.update({'C02_17': ['C07'], 'C02_18': ['C10'], 'C03_17': ['C06'], 'C03_18': ['C20', 'C17'], 'C05_17': ['C01'], 'C05_18': ['C08', 'C09'],
              'C06_17': ['C04', 'C20'], 'C06_18': ['C09', 'C11'], 'C07_18': ['C14'], 'C08_17': ['C09'], 'C13_17': ['C19'], 'C13_18': ['C10'],
              'C15_17': ['C10'], 'C20_17': ['C06', 'C04'], 'C20_18': ['C16']})
EXTRA.update({'C02_19': ['C04'], 'C02_20': ['C06'], 'C07_19': ['C13'], 'C08_20': ['C01'], 'C13_19': ['C01'], 'C13_20': ['C05'], 'C15_19': ['C05'],
              'C15_20': ['C14'], 'C18_19': ['C13'], 'C19_19': ['C04', 'C11'], 'C19_20': ['C04', 'C11'], 'C20_19': ['C05'], 'C20_20': ['C17']})
only = sys.argv[1:]
for patch in sorted(glob.glob('/tmp/mut/C??_*.patch.diff')):
    mid = os.path.basename(patch)[:-len('.patch.diff')]
    if only and mid not in only:
        continue
    prop = mid[:3]
    demo = '/tmp/mut/%s.demo.py' % mid
    meta = json.load(open('/tmp/mut/%s.meta.json' % mid)) if os.path.exists('/tmp/mut/%s.meta.json' % mid) else {}
    props = [prop] + EXTRA.get(mid, [])
    r = subprocess.run([sys.executable, '/verif/tools/evalmut.py', patch, demo] + props, capture_output=True, text=True)
    try:
        res = json.loads(r.stdout)
    except Exception:
        print(mid, 'EVAL FAILED', r.stderr[-300:]); continue
    d = '/verif/seeded/%s' % mid
    os.makedirs(d, exist_ok=True)
    shutil.copy(patch, os.path.join(d, 'patch.diff'))
    shutil.copy(demo, os.path.join(d, 'demo.py'))
    caught = [p for p, v in res['props'].items() if v['rc'] == 1]
    meta_out = {
        'id': mid, 'property': prop, 'origin': 'independent sub-agent given only the property text and a scratch worktree',
        'summary': meta.get('summary'), 'needs': meta.get('needs'), 'files': meta.get('files'),
        'confirmed': {'pinned_tests_with_change': res.get('tests'), 'demo_exit_with_change': res.get('demo', {}).get('with_change'),
                      'demo_exit_without_change': res.get('demo', {}).get('without')},
        'ran': ['tools/evalmut.py seeded/%s/patch.diff seeded/%s/demo.py %s  (scratch worktree of /repo HEAD, quick tier, seed 0)' % (mid, mid, ' '.join(props))],
        'caught_by': caught,
        'violation_classes': {p: [l.strip()[:200] for l in v['lines'] if l.strip().startswith('class=')][:3] for p, v in res['props'].items()},
    }
    json.dump(meta_out, open(os.path.join(d, 'meta.json'), 'w'), indent=1)
    print(mid, 'tests:', str(res.get('tests'))[:11], 'demo:', meta_out['confirmed']['demo_exit_with_change'], meta_out['confirmed']['demo_exit_without_change'], 'caught_by:', caught, flush=True)
