"""C04 — expressions follow TALES semantics and are evaluated exactly once, in order.

History + executable model.  C01 programs whose statement arguments and ${...}
parts are TALES expression trees (vlib/tmodel.py: Pipe, Not, Exists, Str, PyPref,
Struct, Import, Attr with attribute->item fallback, Var, Call) over recording
callables f(<unique id>).  The binding table makes each alternative of a pipe
succeed or raise each exception class of interest; expressions under false
conditions, empty repeats, cancelled cases, replaced elements and later pipe
alternatives are "dead" and must never appear in the log.  Compared: output |
exception class, and the evaluation log (exactly once per reach, in document order;
the expressions of one start tag as a multiset).
A second layer takes the Python sub-grammar of vlib/exprs.py (comprehensions, lambdas,
f-strings, conditional expressions, names shadowing builtins) and compares the
engine's value with plain Python eval.
"""
import random
import re

from checks import c01
from vlib import exprs, monitors, tmodel
from vlib.tmodel import (Attr, Call, El, Exists, IText, Import, Lit, Not, Pipe, Probe, PyPref, Str, Struct, Text, Var)

PROP = 'C04'
TITLE = 'TALES semantics; once, in order'
DEBUG_SHARDS = True      # two of sixteen shards run the library in its debug mode (vlib/runner.py)
LEVEL = 'exploration'
SHARDS = {'quick': 16, 'thorough': 16}
FLOOR = {'quick': 1500, 'thorough': 20000}
REQUIRED_MONITORS = {'model-compared': 4000, 'pipe-fell-through': 1500, 'propagated': 200, 'dead-expressions-watched': 2000,
                     'python-eval-compared': 1500, 'imports-compared': 100, 'access-paths-compared': 2000}
RULE = ('a case = (program, expression trees at statement and ${} sites, binding table); pipes of length 1..4 whose leading '
        'alternatives raise each of AttributeError, NameError, KeyError, IndexError, LookupError, TypeError, ValueError, '
        'UnicodeDecodeError, UnboundLocalError (must fall through) or ZeroDivisionError, RuntimeError, OSError, AssertionError, '
        'StopIteration, ImportError, CustomError (must propagate); prefixes not: / exists: / string: / python: / structure: / '
        'import: and nestings; attribute access on objects offering the attribute, only the item, both, a __getitem__ raising '
        'KeyError or RuntimeError; names shadowing builtins. Non-trivial iff >=1 recording callable reached and (a pipe fell '
        'through, or a prefix was applied, or something was proved not evaluated); distinct by (expression shapes, site '
        'kinds, winning alternative index, exception class). Second layer: 2 400 (quick) generated Python expressions '
        'compared with eval. Third layer: import: of dotted names through freshly written packages whose sub-modules nobody '
        'has imported (value / exists: / last pipe alternative / class attribute / missing module), rendered twice. Not generated: "|" inside Python string literals, string: inside ${...}, walrus, default '
        'outside content/replace/attributes/case.')
ASSUMPTIONS = ['reference model vlib/tmodel.py; Python eval for the Python sub-grammar']

FALL = ['AttributeError', 'NameError', 'KeyError', 'IndexError', 'LookupError', 'TypeError', 'ValueError', 'UnicodeDecodeError',
        'UnboundLocalError']
PROP_EXC = ['ZeroDivisionError', 'RuntimeError', 'OSError', 'AssertionError', 'StopIteration', 'ImportError', 'CustomError']


class OAttr:
    k = 'attr-k'


class OBoth:
    k = 'attr-wins'

    def __getitem__(self, key):
        return 'item-loses'


class ORaise:
    def __getitem__(self, key):
        raise RuntimeError('getitem failed')


class OKeyErr:
    def __getitem__(self, key):
        raise KeyError(key)


class ONone:
    """the attribute exists and is None: a value like any other (no item fallback, no falling through)"""
    k = None

    def __getitem__(self, key):
        return 'item-must-not-be-used'


class ONoneProp:
    @property
    def k(self):
        return None


def make_extra(shadow):
    ex = {'o_attr': OAttr(), 'o_item': {'k': 'item-k', 'items': 'item-items'}, 'o_both': OBoth(), 'o_raise': ORaise(),
          'o_keyerr': OKeyErr(), 'o_none': ONone(), 'o_noneprop': ONoneProp()}
    if shadow:
        ex['len'] = lambda x: 'shadowed-len'
        ex['id'] = 'shadowed-id'
        # variables named like the classes a pipe catches: they are variables, the pipe still catches the classes
        ex['AttributeError'] = 'shadowed-AttributeError'
        ex['NameError'] = ZeroDivisionError
        ex['TypeError'] = 'shadowed-TypeError'
        ex['LookupError'] = 7
        ex['ValueError'] = None
    return ex


TEXT_SITES = ('content', 'replace', 'attributes', 'define', 'interp')
BOOL_SITES = ('condition', 'omit')


class Gen(c01.Gen):
    def __init__(self, rng, maxdepth=2):
        super().__init__(rng, maxdepth)
        self.stats = {'fall': 0, 'prop': 0, 'dead': 0, 'prefix': 0}

    def new(self, site):
        return c01.Gen.rid(self, site)

    def rid(self, site):
        r = self.new(site)
        return self.wrap(r, site)

    def failing_alt(self):
        rng = self.rng
        k = rng.random()
        if k < .55:
            return self.new('fail:' + rng.choice(FALL))
        if k < .7:
            return Var('undefined_name_x')
        if k < .8:
            return Attr(Var('o_attr'), 'missing')
        if k < .9:
            return Attr(Var('o_item'), 'missing')
        return Attr(Var('o_keyerr'), 'k')

    def wrap(self, r, site):
        rng = self.rng
        base = site.split('-')[0]
        k = rng.random()
        if k < .2:
            return r
        if k < .55:
            nfail = rng.randint(0, 3)
            alts = [self.failing_alt() for _ in range(nfail)]
            self.stats['fall'] += nfail
            alts.append(r)
            for _ in range(rng.randint(0, 4 - len(alts)) if len(alts) < 4 else 0):
                alts.append(self.new('dead'))
                self.stats['dead'] += 1
            return Pipe(alts) if len(alts) > 1 else r
        if k < .59 and base in TEXT_SITES and site not in ('define-pair',) and base != 'define':
            # an attribute that exists with the value None succeeds: later alternatives are dead
            self.sites[r] = 'dead'
            return Pipe([self.failing_alt(), Attr(Var(rng.choice(['o_none', 'o_noneprop'])), 'k'), r])
        if k < .63:
            # an alternative raises an exception that must propagate
            self.stats['prop'] += 1
            boom = self.new('boom:' + rng.choice(PROP_EXC)) if rng.random() < .8 else Attr(Var('o_raise'), 'k')
            alts = [self.failing_alt() for _ in range(rng.randint(0, 1))] + [boom, self.new('dead')]
            self.sites[r] = 'dead'
            return Pipe(alts + [r])
        self.stats['prefix'] += 1
        if base in BOOL_SITES:
            c = rng.random()
            if c < .35:
                return Not(r)
            if c < .7:
                inner = rng.choice([r, Pipe([self.failing_alt(), r]), self.new('fail:' + rng.choice(FALL)),
                                    Attr(Var('o_both'), 'k')])
                if inner is not r and not (isinstance(inner, Pipe)):
                    self.sites[r] = 'dead-unused'
                    e = Exists(inner)
                    return Pipe([e]) if False else e
                return Exists(inner)
            if c < .85:
                return Not(Exists(Pipe([self.failing_alt(), r])))
            # a prefix on a middle alternative covers the whole rest of the pipe
            return Pipe([self.failing_alt(), Not(Pipe([self.failing_alt(), r]))])
        if base in TEXT_SITES and site not in ('define-pair',):
            c = rng.random()
            if c < .3 and base != 'interp':
                parts = [rng.choice(['pre ', '', 'a$$b ']), r, rng.choice([' mid ', '']),
                         self.new('strpart'), rng.choice([' post', ''])]
                self.sites[r] = 'strpart'      # inside a string: the value is text (default is meaningless there)
                return Str([p for p in parts if p != ''])
            if c < .45:
                return PyPref(r)
            if c < .55 and base in ('content', 'replace'):
                self.sites[r] = 'structval'
                return Struct(r)
            if c < .6 and base in ('content', 'replace'):
                self.sites[r] = 'structval'
                return Pipe([self.failing_alt(), Struct(Pipe([self.failing_alt(), r]))])
            if c < .75:
                self.sites[r] = 'dead'
                return Pipe([self.failing_alt(), Attr(Var(rng.choice(['o_item', 'o_attr', 'o_both'])), 'k'), r])
            if c < .85:
                self.sites[r] = 'dead'
                return Pipe([Call(Var('len'), [Lit("'ab'")]), r])
            if c < .93 and base in ('define',):
                self.sites[r] = 'dead-unused'
                return Import(rng.choice(['math.pi', 'os.path.sep']))
            return Pipe([self.failing_alt(), PyPref(Pipe([self.failing_alt(), r]))])
        return Pipe([self.failing_alt(), r])

    def element(self, depth, in_switch):
        node = super().element(depth, in_switch)
        rng = self.rng
        if rng.random() < .5:
            parts = [('lit', rng.choice(['t ', '', '$$ ']))]
            for _ in range(rng.randint(1, 3)):
                parts.append(('expr', self.rid('interp')))
                parts.append(('lit', rng.choice([' ', '', 'é'])))
            node.kids.append(IText(parts))
        if rng.random() < .25 and not node.tag.startswith('tal:'):
            nm = rng.choice(['title', 'lang'])
            node.statics.append((nm, IText([('lit', 'S'), ('expr', self.rid('interp')), ('lit', '.')])))
        return node

    def table(self, rng):
        t = {}
        for rid, site in self.sites.items():
            if site.startswith('fail:') or site.startswith('boom:'):
                t[rid] = ('raise', site.split(':')[1])
            elif site in ('dead', 'dead-unused'):
                t[rid] = rng.choice(['str', 'one', 'none'])
            elif site == 'strpart':
                t[rid] = rng.choice(['str', 'hostile', 'none', 'one', 'markup', 'bytes', 'float'])
            elif site == 'structval':
                t[rid] = rng.choice(['str', 'hostile', 'nonascii', 'one'])
            elif site == 'interp':
                t[rid] = rng.choice(['str', 'hostile', 'none', 'one', 'markup', 'bytes', 'true', 'obj', 'empty'])
            elif site == 'define-pair':
                t[rid] = 'pair'
            elif site == 'repeat-pair':
                t[rid] = rng.choice(['itpairs', 'it0', 'itnone'])
            else:
                vals = c01.SITE_VALUES[site]
                t[rid] = rng.choice(vals)
        return t


def expr_shapes(node, acc=None):
    if acc is None:
        acc = []

    def sh(x):
        if isinstance(x, int):
            return 'r'
        name = type(x).__name__
        subs = []
        for v in vars(x).values():
            if isinstance(v, (int, tmodel.Expr)) and not isinstance(v, bool):
                subs.append(sh(v))
            elif isinstance(v, (list, tuple)):
                subs += [sh(y) for y in v if isinstance(y, (int, tmodel.Expr))]
        return name + '(' + ','.join(subs) + ')' if subs else name
    if isinstance(node, El):
        for k, v in node.stmts.items():
            if k == 'define':
                acc += [(k, sh(x[2])) for x in v]
            elif k == 'attributes':
                acc += [(k, sh(x[1])) for x in v]
            elif k in ('repeat', 'content', 'replace'):
                acc.append((k, sh(v[1])))
            elif v is not None:
                acc.append((k, sh(v)))
        for kid in node.kids:
            expr_shapes(kid, acc)
    elif isinstance(node, IText):
        acc += [('interp', sh(x)) for kind, x in node.parts if kind == 'expr']
    return acc


def layer_model(ctx, n):
    rng = ctx.rng
    for i in range(n):
        g = Gen(rng, maxdepth=1 if ctx.quick else 2)
        root = g.element(0, False)
        c01.tal_block_fix(root)
        groups = tmodel.attribute_groups(root)
        shadow = rng.random() < .4
        shapes = tuple(sorted(set(expr_shapes(root))))
        for b in range(3):
            table = g.table(rng)
            extra = make_extra(shadow)
            want = tmodel.run_model(root, table, extra=make_extra(shadow))
            src = '<root>' + tmodel.serialise(root, random.Random(rng.randrange(1 << 30))) + '</root>'
            got = tmodel.run_real(src, table, extra=extra, may_raise=True)
            # run_real classifies exception names only when something was planted
            w = dict(want)
            if w['out'] is not None:
                w['out'] = '<root>' + w['out'] + '</root>'
            ctx.mon('model-compared')
            reached = set(want['log'])
            fell = sum(1 for r in reached if g.sites.get(r, '').startswith('fail:'))
            ctx.mon('pipe-fell-through', fell)
            if want['exc']:
                ctx.mon('propagated')
            dead = [r for r, s in g.sites.items() if s.startswith('dead')]
            ctx.mon('dead-expressions-watched', len(dead))
            nontrivial = bool(reached) and (fell > 0 or g.stats['prefix'] > 0 or bool(dead))
            ctx.case(key=(shapes, tuple(sorted(set(g.sites[r] for r in reached))), want['exc']), nontrivial=nontrivial,
                     sample={'source': src, 'table': {str(k): v for k, v in table.items()}, 'rendered': got['out'],
                             'log': got['log'], 'exception': got['exc']} if i < 2 and b == 0 else None)
            if not tmodel.same(got, w, groups=groups):
                key = classify(g, got, w)
                ctx.violation(key, 'template %r\n  table %r\n  real  %r\n  model %r' % (src, table, c01.brief(got), c01.brief(w)),
                              {'kind': 'model', 'src': src, 'table': {str(k): v for k, v in table.items()},
                               'model': c01.brief(w), 'shadow': shadow})


def classify(g, got, want):
    if got['exc'] != want['exc']:
        return 'exception-differs:%s-vs-%s' % ((got['exc'] or 'none').split(':')[0].replace(' ', '-'), want['exc'] or 'none')
    if got['out'] != want['out']:
        return 'output-differs'
    gl, wl = got['log'], want['log']
    dead = {r for r, s in g.sites.items() if s.startswith('dead')}
    if any(r in dead for r in gl):
        return 'dead-expression-evaluated'
    if sorted(gl) != sorted(wl):
        return 'evaluation-count-differs'
    return 'evaluation-order-differs'


def layer_python(ctx, n):
    """Python sub-grammar: when every attribute access hits an existing attribute, TALES coincides with Python."""
    from chameleon import PageTemplate
    rng = ctx.rng
    env = exprs.make_env()
    for i in range(n):
        e = exprs.gen_expr(rng)
        if rng.random() < .3:
            e = rng.choice(['[n for n in range(n)]', '[v for v in (v, s)]', "','.join(s for s in s)", '{t: t for t in (t,)}', 'sum(n for n in lst)',
                            'len(lst)', 'id', 'str(n) + t', 'sorted(d)[0]', 'max(lst) if lst else 0', '[len(x) for x in (s, t)]',
                            '(lambda a, b=2: a * b)(n)', 'sum(x * x for x in lst)', '{k: len(v) for k, v in d.items()}',
                            'lst[1:][0]', 's.upper()', "'%s-%s' % (n, fl)", 'abs(-n)', 'int(fl) + z',
                            'type(n).__name__', 'list(map(str, lst))', 'any(lst) and all(lst)'])
        shadow = {}
        if rng.random() < .3:
            shadow = {'len': (lambda x: 'L'), 'id': 'ID', 'max': min}
        ns = dict(env)
        ns.update(shadow)
        try:
            want = exprs.evaluate(e, ns)
            want_s = 'VALUE ' + exprs.to_text(want)
        except Exception as ex:
            want_s = 'RAISED ' + type(ex).__name__
        pre = ''
        if rng.random() < .3:
            # expression-local names (lambda parameters) equal to variables the next expression reads
            pre = ' tal:define="zz9 (lambda v, n=1, lst=(): (v, n, lst))(0); zz8 sorted([2, 1], key=lambda s: s)"'
        src = "<p%s tal:content=\"structure %s\">x</p>" % (pre, exprs.encode_expr_for_markup(rng, e, '"').replace('\n', ' '))
        try:
            from vlib import routes
            out = routes.make(PageTemplate, src, 6, ctx)(**ns)
            got_s = 'VALUE ' + out[3:-4]
        except Exception as ex:
            got_s = 'RAISED ' + type(ex).__name__
        if want_s.startswith('VALUE ') and want is None:
            want_s = 'VALUE '
        ctx.mon('python-eval-compared')
        ctx.case(key=('py', e), nontrivial=True)
        if got_s != want_s:
            ctx.violation('python-expression-value-differs', 'expression %r (shadowing %s): engine %r, Python eval %r' % (
                e, sorted(shadow), got_s, want_s), {'kind': 'py', 'expr': e, 'src': src})


# ---------------------------------------------------------------------------
# access paths: '.name' applied to anything (names, subscripts, calls, parenthesised expressions, comprehension
# results ...) over a tree of records that offer the name as attribute, as item, as both, or not at all
class PathAttrError(AttributeError):
    """an AttributeError subclass with arguments of its own (raised by Guarded.__getattr__)"""

    def __init__(self, name, code):
        super().__init__(name, code)
        self.name_, self.code = name, code


class Rec:
    """attributes only"""

    def __init__(self, **kw):
        self.__dict__.update(kw)


class Row:
    """items only (not a dict: no .get, no .items)"""

    def __init__(self, **kw):
        self._d = kw

    def __getitem__(self, k):
        return self._d[k]


class Guarded:
    """unknown attributes raise a custom AttributeError; items raise KeyError"""

    def __init__(self, **kw):
        self._d = kw

    def __getattr__(self, name):
        if name.startswith('_'):
            raise AttributeError(name)
        if name in self._d:
            return self._d[name]
        raise PathAttrError(name, 42)

    def __getitem__(self, k):
        raise KeyError(k)


KEYS = ['a', 'b', 'user', 'rows', 'title', 'name', 'items', 'get', 'keys', 'values', "it's"]       # incl. names of dict methods; a key with an apostrophe


def path_tree(rng, depth=0):
    if depth >= 3 or (depth and rng.random() < .25):
        return rng.choice(['leaf<%d>' % rng.randint(0, 99), 'x', 7, None if depth else 'n'])
    kind = rng.choice(['dict', 'dict', 'rec', 'row', 'guarded', 'list'])
    if kind == 'list':
        return [path_tree(rng, depth + 1) for _ in range(rng.randint(1, 2))]
    kids = {k: path_tree(rng, depth + 1) for k in rng.sample(KEYS, rng.randint(1, 3))}
    if rng.random() < .5:
        # a callable stored under a name (as attribute or as item, depending on the record kind)
        tag = 'F%d' % rng.randint(0, 99)
        kids['fmt'] = (lambda *a, _t=tag: '%s(%s)' % (_t, ','.join(map(str, a))))
    return {'dict': dict, 'rec': Rec, 'row': Row, 'guarded': Guarded}[kind](**kids)


def children(v):
    if isinstance(v, dict):
        return v
    if isinstance(v, Rec):
        return v.__dict__
    if isinstance(v, (Row, Guarded)):
        return v._d
    return None


def ref_attr(obj, name):
    """the documented rule, written independently: the attribute; else the item; a missing item re-raises the
    attribute error"""
    try:
        return getattr(obj, name)
    except AttributeError as exc:
        if not hasattr(type(obj), '__getitem__'):
            raise
        try:
            return obj[name]
        except KeyError:
            raise exc


def ident(x):
    return x


def path_expr(rng, tree):
    """-> (source, thunk): thunk() computes the reference value (or raises)"""
    src, val = 'd', (lambda: tree)
    cur = tree          # the value when nothing fails (None once the path has left the tree)
    steps = rng.randint(1, 4)
    for _ in range(steps):
        kids = children(cur) if cur is not None else None
        if isinstance(cur, list):
            i = rng.randrange(len(cur))
            src, val, cur = '%s[%d]' % (src, i), (lambda v=val, i=i: v()[i]), cur[i]
        elif kids is not None and 'fmt' in kids and rng.random() < .35:
            # called at once through attribute syntax: obj.fmt(1) - the callable may be an item
            arg = rng.randint(0, 9)
            src, val = '%s.fmt(%d)' % (src, arg), (lambda v=val, arg=arg: ref_attr(v(), 'fmt')(arg))
            cur = None
            break
        elif kids is not None:
            k = rng.choice(sorted(k_ for k_ in kids if k_ != 'fmt') or ['nosuch']) if rng.random() < .85 else 'nosuch'
            form = rng.random()
            if k == "it's":
                # only reachable by subscript, written with an escaped quote: the literal is one token, whatever follows it
                if isinstance(cur, (dict, Row)):
                    src, val = "%s['it\\'s']" % src, (lambda v=val: v()["it's"])
                    cur = kids.get(k)
                    continue
                k = 'nosuch'
            if form < .7 or k == 'nosuch':
                src, val = '%s.%s' % (src, k), (lambda v=val, k=k: ref_attr(v(), k))
            elif isinstance(cur, dict) and form < .85:
                src, val = "%s.get('%s')" % (src, k), (lambda v=val, k=k: v().get(k))
            elif isinstance(cur, (dict, Row)):
                src, val = "%s['%s']" % (src, k), (lambda v=val, k=k: v()[k])
            else:
                src, val = '%s.%s' % (src, k), (lambda v=val, k=k: ref_attr(v(), k))
            cur = kids.get(k)
        else:
            break
        # wrap the expression so far: the next '.name' is then applied to something that is not a dotted chain
        w = rng.random()
        if w < .12:
            src = 'ident(%s)' % src
        elif w < .22:
            src, val = '(%s or d)' % src, (lambda v=val: v() or tree)
            if not cur:
                cur = tree
        elif w < .30:
            src = '(%s if 1 else 0)' % src
        elif w < .38:
            src = '[q for q in (%s,)][0]' % src
        elif w < .44:
            src = '(lambda: %s)()' % src
        elif w < .50:
            src = "{'w': %s}['w']" % src
        elif w < .55:
            src = '(%s)' % src
    if isinstance(cur, dict) and rng.random() < .6:
        # methods of the container itself win over items of the same name (attribute first)
        m = rng.choice(['len(%s.items())', 'len(%s.keys())', 'sorted(%s.keys())[0]', 'len(list(%s.values()))', "%s.get('nosuch', 'dflt')"])
        src, val = m % src, (lambda v=val, m=m: eval(m % 'o', {'o': v(), 'len': len, 'sorted': sorted, 'list': list}))
    elif rng.random() < .3:
        src, val = 'str(%s).upper()' % src, (lambda v=val: str(v()).upper())
    return src, val


PATH_CONTEXTS = ['content', 'interp', 'pipe', 'exists', 'define', 'python-prefix', 'attribute', 'condition']


def layer_paths(ctx, n):
    from chameleon import PageTemplate
    rng = ctx.rng
    for i in range(n):
        tree = path_tree(rng)
        while children(tree) is None and not isinstance(tree, list):
            tree = path_tree(rng)
        src_e, thunk = path_expr(rng, tree)
        try:
            v = thunk()
            want = ('VALUE', '' if v is None else exprs.to_text(v) if isinstance(v, (str, int, float)) else None)
            if want[1] is None:
                continue        # a container: its string form is not what is compared here
        except Exception as ex:
            want = ('RAISED', type(ex).__name__, getattr(ex, 'args', None) if isinstance(ex, PathAttrError) else None)
        c = rng.choice(PATH_CONTEXTS)
        e = src_e.replace("'", '&#39;') if rng.random() < .2 else src_e
        esc = exprs.escape_text
        if c == 'content':
            src, exp = '<p tal:content="%s">x</p>' % e, lambda t: '<p>%s</p>' % esc(t)
        elif c == 'interp':
            src, exp = '<p>${%s}</p>' % e, lambda t: '<p>%s</p>' % esc(t)
        elif c == 'pipe':
            alt = rng.choice(['string:ALT', "'ALT'", "'A' + 'LT'"])
            src, exp = '<p tal:content="%s | %s">x</p>' % (e, alt), lambda t: '<p>%s</p>' % esc(t)
        elif c == 'exists':
            src, exp = '<p tal:content="exists: %s">x</p>' % e, lambda t: '<p>1</p>'
        elif c == 'define':
            src, exp = '<p tal:define="w %s">[${w}]</p>' % e, lambda t: '<p>[%s]</p>' % esc(t)
        elif c == 'python-prefix':
            src, exp = '<p tal:content="python: %s">x</p>' % e, lambda t: '<p>%s</p>' % esc(t)
        elif c == 'attribute':
            src, exp = '<p tal:attributes="k %s">x</p>' % e, lambda t: '<p k="%s">x</p>' % exprs.escape_attr(t, '"')
        else:
            src, exp = '<p tal:condition="%s">x</p>' % e, None
        if want[0] == 'VALUE':
            if c == 'condition':
                expect = '<p>x</p>' if v else ''
            elif c == 'attribute' and v is None:
                expect = '<p>x</p>'
            elif c == 'content' and v is None or c == 'python-prefix' and v is None:
                expect = '<p></p>'
            else:
                expect = exp(want[1])
        else:
            falls = want[1] in ('AttributeError', 'PathAttrError', 'KeyError', 'IndexError', 'TypeError', 'ValueError', 'NameError')
            if c == 'pipe' and falls:
                expect = '<p>ALT</p>'
            elif c == 'exists' and want[1] in ('AttributeError', 'PathAttrError', 'KeyError', 'IndexError', 'TypeError', 'NameError'):
                expect = '<p>0</p>'
            else:
                expect = want
        try:
            from vlib import routes
            got = routes.make(PageTemplate, src, 6, ctx)(d=tree, ident=ident)
        except Exception as ex:
            got = ('RAISED', type(ex).__mro__[1].__name__ if hasattr(ex, '_original__str__') else type(ex).__name__,
                   getattr(ex, 'args', None) if isinstance(ex, PathAttrError) else None)
        ctx.mon('access-paths-compared')
        shape = re.sub(r"\b(%s|nosuch)\b" % '|'.join(KEYS), 'K', re.sub(r'\d+', 'N', src_e))
        ctx.case(key=('path', shape, c, want[0]), nontrivial='.' in src_e,
                 sample={'source': src, 'rendered': repr(got)} if i < 2 else None)
        if got != expect:
            ctx.violation('access-path-differs:' + ('value' if want[0] == 'VALUE' else want[1]),
                          'template %r over d=%s: engine %r, expected %r' % (src, describe(tree), got, expect),
                          {'kind': 'path', 'src': src})


def describe(v):
    if isinstance(v, list):
        return '[%s]' % ', '.join(describe(x) for x in v)
    kids = children(v)
    if kids is None:
        return repr(v)
    return '%s(%s)' % (type(v).__name__, ', '.join('%s=%s' % (k, describe(x)) for k, x in kids.items()))


def layer_import(ctx, n):
    """import: on dotted names through packages nobody has imported yet (fresh packages written to a scratch
    directory): the value is known by construction, whatever the import history of the process; a missing
    module raises ImportError (which a pipe must not swallow)."""
    import os, shutil, sys, tempfile
    from chameleon import PageTemplate
    rng = ctx.rng
    root = tempfile.mkdtemp(prefix='verif_c04_')
    sys.path.insert(0, root)
    try:
        for i in range(n):
            pkg = 'vq%d_%d_%d' % (ctx.shard, os.getpid(), i)
            depth = rng.randint(1, 3)
            parts = [pkg] + ['s%d' % k for k in range(depth)]
            d = root
            for part in parts[:-1]:
                d = os.path.join(d, part)
                os.mkdir(d)
                open(os.path.join(d, '__init__.py'), 'w').close()
            with open(os.path.join(d, parts[-1] + '.py'), 'w') as f:
                f.write('NAME = %r\nclass K:\n    attr = %r\n' % ('val%d' % i, 'kattr%d' % i))
            dotted = '.'.join(parts)
            shape = rng.choice(['value', 'exists', 'pipe', 'class-attr', 'missing-module', 'missing-in-pipe', 'python-use',
                                'dead-missing-under-false-condition', 'dead-missing-later-alternative', 'missing-under-on-error',
                                'dead-existing-never-imported', 'dead-missing-in-unused-macro', 'attribute-shadows-submodule'])
            # a package whose attribute 'price' (a function) hides its sub-module of the same name, as after
            # `from .price import price` in __init__.py: the dotted name denotes what Python's attribute access gives
            shadow_pkg = os.path.join(root, 'vqs%d_%d_%d' % (ctx.shard, os.getpid(), i))
            os.mkdir(shadow_pkg)
            with open(os.path.join(shadow_pkg, '__init__.py'), 'w') as f:
                f.write('from .price import price\n')
            with open(os.path.join(shadow_pkg, 'price.py'), 'w') as f:
                f.write('def price():\n    return "function-%d"\n' % i)
            flag = os.path.join(root, 'imported_%d.flag' % i)
            with open(os.path.join(d, 'sidefx%d.py' % i), 'w') as f:
                f.write('open(%r, "w").close()\nNAME = "side"\n' % flag)
            side = '.'.join(parts[:-1] + ['sidefx%d' % i])
            if shape == 'value':
                src, want = '<p>${import: %s.NAME}</p>' % dotted, '<p>val%d</p>' % i
            elif shape == 'exists':
                src, want = '<p tal:condition="exists: import: %s.NAME">Y</p>' % dotted, '<p>Y</p>'
            elif shape == 'pipe':
                # import: takes the rest of the argument (like string:), so it can only be the last alternative
                src, want = '<p tal:content="nothing.x | import: %s.NAME">x</p>' % dotted, '<p>val%d</p>' % i
            elif shape == 'class-attr':
                src, want = '<p tal:content="import: %s.K.attr">x</p>' % dotted, '<p>kattr%d</p>' % i
            elif shape == 'missing-module':
                src, want = '<p tal:content="import: %s.nosuch.NAME">x</p>' % '.'.join(parts[:-1]), 'RAISED ImportError'
            elif shape == 'missing-in-pipe':
                src, want = '<p tal:content="nothing.x | import: %s.nosuch.NAME">x</p>' % '.'.join(parts[:-1]), 'RAISED ImportError'
            elif shape == 'attribute-shadows-submodule':
                src, want = '<p tal:define="p import: %s.price" tal:content="p()">x</p>' % os.path.basename(shadow_pkg), '<p>function-%d</p>' % i
            elif shape == 'dead-missing-under-false-condition':
                # an expression in a part that is not rendered is never evaluated: the optional dependency may be absent
                src, want = '<p tal:condition="False" tal:content="import: %s.nosuch.NAME">x</p>ok' % '.'.join(parts[:-1]), 'ok'
            elif shape == 'dead-missing-later-alternative':
                src, want = '<p tal:content="\'first\' | import: %s.nosuch.NAME">x</p>' % '.'.join(parts[:-1]), '<p>first</p>'
            elif shape == 'missing-under-on-error':
                src, want = '<p tal:on-error="string:ERR" tal:content="import: %s.nosuch.NAME">x</p>' % '.'.join(parts[:-1]), '<p>ERR</p>'
            elif shape == 'dead-missing-in-unused-macro':
                src, want = '<tal:c condition="False"><p metal:define-macro="m%d" tal:content="import: %s.nosuch.NAME">x</p></tal:c>ok' % (i, '.'.join(parts[:-1])), 'ok'
            elif shape == 'dead-existing-never-imported':
                src, want = '<p tal:condition="False" tal:content="import: %s.NAME">x</p><b tal:content="\'v\' | import: %s.NAME">x</b>' % (side, side), '<b>v</b>'
            else:
                src, want = '<p tal:define="m import: %s" tal:content="m.NAME + m.K.attr">x</p>' % dotted, '<p>val%dkattr%d</p>' % (i, i)
            outs = []
            for again in range(2):      # first with the sub-modules not yet imported, then with them loaded
                try:
                    outs.append(PageTemplate(src)())
                except ImportError:
                    outs.append('RAISED ImportError')
                except Exception as e:
                    outs.append('RAISED %s: %s' % (type(e).__name__, str(e).split('\n')[0][:100]))
            ctx.mon('imports-compared')
            ctx.case(key=('import', shape, depth), nontrivial=True, sample={'source': src, 'rendered': outs} if i < 2 else None)
            if shape == 'dead-existing-never-imported' and os.path.exists(flag):
                ctx.violation('import-expression-evaluated-in-a-part-that-is-not-rendered',
                              'template %r: the module %s was imported (its top-level code ran) although no import: expression was reached' % (src, side),
                              {'kind': 'import', 'shape': shape, 'depth': depth})
            if outs != [want, want]:
                ctx.violation('import-expression-differs:' + shape,
                              'template %r with fresh package %s (sub-modules not imported before): first/second rendering %r, expected %r'
                              % (src, dotted, outs, want), {'kind': 'import', 'shape': shape, 'depth': depth})
    finally:
        sys.path.remove(root)
        shutil.rmtree(root, ignore_errors=True)


# ---------------------------------------------------------------------------
# the expression evaluator: the long-lived helper (chameleon.compiler.ExpressionEvaluator) applications hand to their
# templates to evaluate expression strings known only at render time.  One instance serves a history of requests
# (expression type, string) - the same string under several types, the same request again, curried and direct calls -
# and every answer has to be the value (or exception class) the same expression has when it stands in a template.
EV_STRINGS = ['n', 's', 'missing', 'lst', 'd', 'n + 1', 'len(lst)', 's.upper()', 'd.k', 'nothing', 'default', 't or s', "'q'", '0', '',
              'x', 'v', 'str', 'n | s', 'missing | n', '${n}', 'a${s}b', 'lst[0]', 'lst[5]', 'd.nokey', 'int(s)', '1/0', ' n ']
EV_TYPES = ['python', 'string', 'exists', 'not', 'structure', 'python', 'string']


def _via_template(typ, string, env):
    from chameleon import PageTemplate
    got = []
    src = '<p tal:define="r %s:%s" tal:content="cap(r)"/>' % (typ, string.replace('&', '&amp;').replace('"', '&quot;').replace(';', ';;'))
    try:
        PageTemplate(src)(cap=got.append, **env)
    except Exception as e:
        return 'RAISED ' + type(e).__name__
    return 'VALUE %s %r' % (type(got[0]).__name__, got[0])


def layer_evaluator(ctx, n):
    from chameleon import PageTemplate
    from chameleon.compiler import ExpressionEvaluator
    from chameleon.utils import Scope
    rng = ctx.rng
    owner = PageTemplate('<p/>')
    for h in range(n):
        ev = ExpressionEvaluator(owner.engine, owner.builtins)
        env = {'n': rng.choice([0, 3]), 's': rng.choice(['es<b>', '12x', '']), 't': '', 'lst': [1, 2], 'd': {'k': 'dk'},
               'x': rng.choice([None, 'X']), 'v': 'V&'}
        pool = rng.sample(EV_STRINGS, 4)
        trace = []
        for k in range(rng.randint(4, 10)):
            typ, string = rng.choice(EV_TYPES), rng.choice(pool)
            curried = rng.random() < .3
            trace.append((typ, string, curried))
            try:
                sc = Scope(dict(env))
                r = ev(sc, {}, typ)(string) if curried else ev(sc, {}, typ, string)
                got = 'VALUE %s %r' % (type(r).__name__, r)
            except Exception as e:
                got = 'RAISED ' + type(e).__name__
            want = _via_template(typ, string, env)
            ctx.mon('evaluator-requests-compared')
            ctx.case(key=('ev', typ, string, tuple(sorted((k2, repr(v2)) for k2, v2 in env.items()))), nontrivial=True)
            if got != want:
                ctx.violation('evaluator-answer-differs-from-the-expression-in-a-template',
                              'request %d of the history %r on one ExpressionEvaluator: %s:%s gives %s, the same expression in a template %s'
                              % (k, trace, typ, string, got, want), {'kind': 'ev', 'trace': trace, 'env': env})
                break


def run(ctx):
    monitors.install(ctx, tokalg=False)
    layer_evaluator(ctx, 60 if ctx.quick else 600)
    layer_import(ctx, 40 if ctx.quick else 200)
    layer_model(ctx, 300 if ctx.quick else 2500)
    layer_python(ctx, 350 if ctx.quick else 3000)
    layer_paths(ctx, 600 if ctx.quick else 5000)


def replay(data):
    if data.get('kind') == 'import':
        from vlib import shard, state
        ctx = shard.Ctx(PROP, 'quick', 0, 0, 1)
        state.CTX = ctx
        monitors.install(ctx, tokalg=False)
        layer_import(ctx, 40)
        return bool(ctx.violations), '\n'.join(v['what'] for v in ctx.violations) or 'all import: shapes behave'
    if data.get('kind') == 'ev':
        from chameleon import PageTemplate
        from chameleon.compiler import ExpressionEvaluator
        from chameleon.utils import Scope
        owner = PageTemplate('<p/>')
        ev = ExpressionEvaluator(owner.engine, owner.builtins)
        lines, bad = [], False
        for typ, string, curried in data['trace']:
            try:
                sc = Scope(dict(data['env']))
                r = ev(sc, {}, typ)(string) if curried else ev(sc, {}, typ, string)
                got = 'VALUE %s %r' % (type(r).__name__, r)
            except Exception as e:
                got = 'RAISED ' + type(e).__name__
            want = _via_template(typ, string, data['env'])
            bad = bad or got != want
            lines.append('%s:%s -> evaluator %s, template %s' % (typ, string, got, want))
        return bad, '\n'.join(lines)
    if data.get('kind') == 'py':
        from chameleon import PageTemplate
        env = exprs.make_env()
        try:
            out = PageTemplate(data['src'])(**env)
        except Exception as e:
            out = 'RAISED %s' % type(e).__name__
        return True, 'template %r -> %r' % (data['src'], out)
    table = {int(k): (tuple(v) if isinstance(v, list) else v) for k, v in data['table'].items()}
    got = tmodel.run_real(data['src'], table, extra=make_extra(data.get('shadow')), may_raise=True)
    m = data['model']
    text = 'source %r\ntable %r\nreal  %r\nmodel %r' % (data['src'], table, c01.brief(got), m)
    return (got['out'], got['log'], got['exc']) != (m['out'], m['log'], m['exc']), text
