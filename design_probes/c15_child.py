import sys, os
sys.path.insert(0, '/repo/src')
K = int(os.environ.get('CRASH_AT', '-1'))
cnt = [0]
def hook(ev, args):
    if ev in ('open', 'os.rename', 'os.remove', 'tempfile.mkstemp', 'os.mkdir', 'compile', 'exec'):
        f = sys._getframe(1); inside = False
        while f is not None:
            if f.f_code.co_name in ('build', '_load') and f.f_code.co_filename.endswith('chameleon/loader.py'): inside = True; break
            f = f.f_back
        if inside:
            cnt[0] += 1
            if cnt[0] == K: os._exit(97)
sys.addaudithook(hook)
from chameleon import PageTemplate
src = sys.argv[1]
t = PageTemplate(src)
sys.stdout.write(t(x='X')); sys.stdout.write('\n#steps=%d\n' % cnt[0])
