import random, sys, os
sys.path.insert(0, '/repo/src')
from chameleon import PageTextTemplate, PageTextTemplateFile
rng = random.Random(int(sys.argv[1]))
LITS = ['a', ' ', '<', '>', '&', '&amp;', '"', "'", '$', '$$', '{', '}', '\n', '\r\n', 'é', '<p tal:content="v">', '</p>', '<!--', '-->', '<?python x ?>', '<![CDATA[', ']]>', 'tal:', '${', ';', '\t', '日本', '<!--!', '\\']
EXPRS = [('v', 'V<&>'), ('n', 7), ("'}'", '}'), ('{"a": "<"}["a"]', '<'), ('b', b'by'), ('o', 'O<'), ('none', None), ("f'{n:>3}'", '  7'), ('h', '<H>'), ('1 < 2', True)]
class O:
    def __str__(s): return 'O<'
class H:
    def __html__(s): return '<H>'
ENV = dict(v='V<&>', n=7, b=b'by', o=O(), none=None, h=H())
def explit(s):
    out = ''; i = 0
    while i < len(s):
        if s.startswith('$$', i): out += '$'; i += 2
        else: out += s[i]; i += 1
    return out
bad = n = shown = 0
os.makedirs('/tmp/exp/t20', exist_ok=True)
for case in range(int(sys.argv[2])):
    src = ''; exp = ''; run = ''
    ok = True
    for _ in range(rng.randint(1, 7)):
        if rng.random() < .6: run += rng.choice(LITS)
        else:
            t = run.replace('$$', '')
            k = 0
            while k < len(run) and run[-k-1] == '$': k += 1
            if '${' in t or k % 2 == 1: ok = False; break
            e, val = rng.choice(EXPRS)
            src += run + '${' + e + '}'; exp += explit(run) + ('' if val is None else (val.decode() if isinstance(val, bytes) else str(val)))
            run = ''
    t = run.replace('$$', '')
    if not ok or '${' in t: continue
    src += run; exp += explit(run)
    if src.startswith('<'): src = 'T' + src; exp = 'T' + exp
    n += 1
    exp = exp.replace('\r\n', '\n').replace('\r', '\n')
    try: got = PageTextTemplate(src)(**ENV)
    except Exception as e: got = 'ERR %s %s' % (type(e).__name__, str(e).split('\n')[0][:50])
    if got != exp:
        bad += 1
        if shown < 8: shown += 1; print('MISMATCH', repr(src), '\n exp', repr(exp), '\n got', repr(got))
    if case % 10 == 0:
        fn = '/tmp/exp/t20/t.txt'; open(fn, 'w', encoding='utf-8', newline='').write(src)
        for enc in (None,):
            try:
                gotb = PageTextTemplateFile(fn, **({'encoding': enc} if enc else {}))(**ENV)
                wantb = exp.encode(enc or 'utf-8')
            except UnicodeEncodeError: continue
            except Exception as e: gotb = 'ERR %s' % type(e).__name__; wantb = exp.encode(enc or 'utf-8', 'replace')
            if gotb != wantb:
                bad += 1
                if shown < 8: shown += 1; print('FILE MISMATCH', enc, repr(src), '\n exp', repr(wantb), '\n got', repr(gotb))
print('cases', n, 'bad', bad)
