import sys
sys.path.insert(0, '/tmp/exp/deps'); sys.path.insert(0, '/repo/src')
import atheris
with atheris.instrument_imports(include=['chameleon']):
    from chameleon import PageTemplate
    from chameleon.exc import TemplateError
    from chameleon.tokenize import iter_xml
n = [0, 0]
def one(data):
    try: s = data.decode('utf-8')
    except UnicodeDecodeError: return
    toks = list(iter_xml(s))
    assert ''.join(toks) == s
    pos = 0
    for t in toks:
        assert t.pos == pos; pos += len(t)
    if '${' in s or '$$' in s or 'tal:' in s or 'metal:' in s or 'i18n:' in s or 'meta:' in s or '<!--!' in s or '<!--?' in s or '<?python' in s or 'xmlns' in s or '<?xml' in s or ':' in s: return
    try: out = PageTemplate(s)()
    except (TemplateError, KeyError): return
    except AttributeError as e:
        if 'groupdict' in str(e): return
        raise
    n[0] += 1
    exp = s.replace('\r\n', '\n').replace('\r', '\n')
    if out != exp:
        # known: end-tag whitespace
        import re
        if re.sub(r'(</[^\s>]+)(\s+)\2>', r'\1\2>', out) == exp: n[1] += 1; return
        raise AssertionError('IDENTITY %r -> %r' % (s, out))
atheris.Setup(sys.argv, one)
atheris.Fuzz()
