"""C06 — ${...} interpolation is delimited correctly and $$ escapes it.

Oracle: by construction + evaluation log.  A document is a tree of elements
(optionally carrying meta:interpolation switches and interpolated attributes)
whose leaves are *regions*: element text, double/single quoted attribute values,
comments (plain, <!--?, <!--!), CDATA sections.  Each region is a list of parts:
literal runs over a hostile alphabet and ${expr} parts.  expr is either from the
brace/quote-rich Python grammar (value = plain Python eval) or the recording
callable f(<unique id>) whose calls form the evaluation log.  The expected
output and the expected log are assembled from the parts; the real engine
renders the serialised document.
"""
import html
import itertools
import re

from vlib import exprs, monitors

PROP = 'C06'
TITLE = '${...} delimiting and $$'
DEBUG_SHARDS = True      # two of sixteen shards run the library in its debug mode (vlib/runner.py)
LEVEL = 'exploration'
SHARDS = {'quick': 16, 'thorough': 16}
FLOOR = {'quick': 2000, 'thorough': 20000}
REQUIRED_MONITORS = {'compared': 3000, 'log-compared': 3000, 'regions-off': 200}
RULE = ('documents = element trees (depth<=3) with meta:interpolation in {absent,true,false,on,off}, 0..2 interpolated '
        'attributes per element, leaves = regions in {text, "attr", \'attr\', comment, <!--? comment, <!--! comment, '
        'CDATA}; a region = 1..6 parts, literal runs over {a space $ $$ $$$ { } {} }{ quotes &amp; &lt; &#38; newline é # : '
        '$x $ {} and ${expr} with expr from vlib/exprs.py (braces, quotes, "$", "}" in string literals, f-strings, dict/set '
        'displays, lambdas, comprehensions; entity-encoded in markup) or f(id); odd "$"-runs before ${ generated on purpose '
        '(escape); enable_comment_interpolation on/off. Non-trivial iff >=1 ${} and (a brace/quote/$ inside an expression or '
        'a $-run in a literal). Distinct by (context kinds, part-kind sequence, switch stack). Not generated: "${" inside a '
        'literal run other than through the escape, "$$" in switched-off regions, string: expressions.')
ASSUMPTIONS = ['Python eval is the reference for the value of a Python expression',
               'escaping of inserted values per C02 (text: & < >; attribute: also its own quote)',
               'an attribute whose whole value is one ${expr} yielding None is dropped (C07)']

LIT_COMMON = ['a', ' ', '$', '$$', '$$$', '{', '}', '{}', '}{', '&amp;', '&lt;', '&#38;', '\n', 'é', '#', ':', '$x', '$ {',
              '|', ';', '%s', '\\']
LIT_BY_CTX = {
    'text': LIT_COMMON + ['"', "'", '>', ']]>', '--'],
    'dq': LIT_COMMON + ["'", '>', '--'],
    'sq': LIT_COMMON + ['"', '>', '--'],
    'comment': LIT_COMMON + ['"', "'", '<', '<p>', '&', ']]>'],
    'cdata': LIT_COMMON + ['"', "'", '<', '<p a="1">', '&', '--', '>'],
}
SIMPLE_EXPRS = ['v', 'n', 's', 'fl', "d['k']", 'n + 1', 'lst[0]', 'uni']


class Region:
    def __init__(self, ctx, parts, flavour=''):
        self.ctx = ctx          # text dq sq comment cdata
        self.parts = parts      # list of ('lit', s) | ('expr', src, written, rec_id|None)
        self.flavour = flavour  # '', '?', '!' for comments


def gen_parts(rng, ctxname, ids, off=False):
    avoid = {'dq': '"', 'sq': "'"}.get(ctxname, '')
    parts = []
    for _ in range(rng.randint(1, 6)):
        if rng.random() < .5:
            lit = ''.join(rng.choice(LIT_BY_CTX[ctxname]) for _ in range(rng.randint(1, 4)))
            if off:
                lit = lit.replace('$$', '$ ')
            parts.append(['lit', lit])
        else:
            if rng.random() < .45:
                rid = next(ids)
                src = 'f(%d)' % rid
            else:
                rid = None
                src = exprs.gen_expr(rng, 0, avoid='')
                if rng.random() < .15:
                    src = rng.choice(['o', 'h', 'nn', 'by', 'z', 'e', 'ss'])
                elif rng.random() < .12:
                    src = 'tick()'      # the same text several times in one region / document: one evaluation per occurrence
            parts.append(['expr', src, None, rid])
    if rng.random() < .12 and ctxname != 'cdata':
        # a string: expression with braces and interpolations of its own, written where no later '}' follows in the region
        # (so that 'its own closing brace' has one reading only)
        src = gen_string_expr(rng)
        parts.append(['expr', src, None, None])
        if rng.random() < .5:
            parts.append(['lit', rng.choice([' tail', ' {', '.', ' - {x'])])
    # merge adjacent literals
    merged = []
    for p in parts:
        if p[0] == 'lit' and merged and merged[-1][0] == 'lit':
            merged[-1][1] += p[1]
        else:
            merged.append(p)
    return merged


STRING_EXPRS = {}


def gen_string_expr(rng):
    def body(depth):
        out = []
        for _ in range(rng.randint(1, 3)):
            r = rng.random()
            if r < .35:
                out.append(('lit', rng.choice(['Hello ', '! ', 'x', ': ', ' - ', 'id', '"k": ', '; '])))
            elif r < .75 or depth > 1:
                out.append(('var', rng.choice(['t', 'n', 'uni', 'fl', 'v'])))
            else:
                out += [('lit', '{')] + body(depth + 1) + [('lit', '}')]
        return out
    pieces = body(0)
    if not any(k == 'var' for k, v in pieces):
        pieces.append(('var', 'n'))
    if pieces[-1][0] == 'lit' and pieces[-1][1].endswith((' ', '$')):
        pieces.append(('lit', '.'))
    if pieces[0][0] == 'lit' and pieces[0][1].startswith(' '):
        pieces.insert(0, ('lit', 'a'))
    src = 'string:' + ''.join(v if k == 'lit' else '${%s}' % v for k, v in pieces)
    STRING_EXPRS[src] = pieces
    return src


def string_value(src, env):
    return ''.join(v if k == 'lit' else exprs.to_text(env[v]) for k, v in STRING_EXPRS[src])


def written_expr(rng, src, ctxname):
    if src in STRING_EXPRS:
        if ctxname in ('text', 'dq', 'sq'):
            return exprs.encode_expr_for_markup(rng, src, {'dq': '"', 'sq': "'"}.get(ctxname, ''))
        return src
    if re.fullmatch(r'[A-Za-z_][A-Za-z0-9_]*', src) and rng.random() < .3:
        src = rng.choice([' %s ', '\n %s\n', ' %s', '%s\t'])% src       # a plain name written with white space inside the braces
    elif rng.random() < .15:
        src = exprs.spread(rng, src).replace('\r\n', '\n')        # the same expression written over several lines (CR/LF is C03's business)
    if ctxname == 'text':
        return exprs.encode_expr_for_markup(rng, src)
    if ctxname == 'dq':
        return exprs.encode_expr_for_markup(rng, src, '"')
    if ctxname == 'sq':
        return exprs.encode_expr_for_markup(rng, src, "'")
    # comment / cdata: one token whatever it contains; entities are decoded all the same
    if rng.random() < .5:
        return src.replace('&', '&amp;') if rng.random() < .5 else exprs.encode_expr_for_markup(rng, src)
    return src if not re.search(r'&#?\w+;', src) else src.replace('&', '&amp;')


def admissible(region):
    ctxname = region.ctx
    parts = region.parts
    for i, p in enumerate(parts):
        if p[0] == 'lit':
            if '${' in p[1].replace('$$', ''):
                return False
    text = ''.join(p[1] if p[0] == 'lit' else '${' + p[2] + '}' for p in parts)
    if ctxname == 'comment':
        body = text
        if '--' in body or body.endswith('-') or '>' in body[:2] and body.startswith(('>', '->')):
            return False
        if region.flavour == '' and body.startswith(('!', '?')):
            return False
    if ctxname == 'cdata' and (']]>' in text or text.endswith(']') or ']]' in text):
        return False
    if ctxname == 'text' and '<' in text:
        return False
    if ctxname == 'dq' and '"' in text:
        return False
    if ctxname == 'sq' and "'" in text:
        return False
    if ctxname in ('dq', 'sq') and '<' in text:
        return False
    return True


def value_text(ctxname, value):
    if value is None:
        return ''
    raw = exprs.to_text(value)
    if hasattr(value, '__html__') or ctxname == 'cdata':
        return raw
    if ctxname in ('text', 'comment'):
        return exprs.escape_text(raw)
    return exprs.escape_attr(raw, '"' if ctxname == 'dq' else "'")


class Expect:
    def __init__(self, env, recvals):
        self.env, self.recvals = env, recvals
        self.log = []
        env['tick'].reset()

    def value(self, src, rid):
        if rid is not None:
            self.log.append(rid)
            return self.recvals(rid)
        if src in STRING_EXPRS:
            return string_value(src, self.env)
        return exprs.evaluate(src, self.env)

    def region_on(self, region, keep_dd=False, alt_implicit=False):
        """Interpolating region: returns text, or None if the attribute is to be dropped.
        alt_implicit: alternate model of a known mechanism - an attribute configured for implicit translation whose
        expressions are all plain names is rendered through the translation function with a mapping; the message id is
        built from the un-escaped text, so a placeholder directly preceded by a literal '$' reads as escaped there and
        stays '${name}'."""
        out = []
        parts = region.parts
        i = 0
        sole_none = False
        live = [q for j, q in enumerate(parts) if q[0] == 'expr' and not (
            j and parts[j - 1][0] == 'lit' and exprs.trailing_dollars(parts[j - 1][1]) % 2 == 1)]
        names_only = alt_implicit and len(parts) >= 2 and live and all(re.fullmatch(r'[A-Za-z_][A-Za-z0-9_]*', q[2]) for q in live)
        while i < len(parts):
            p = parts[i]
            if p[0] == 'lit':
                lit = p[1]
                nxt = parts[i + 1] if i + 1 < len(parts) else None
                if nxt is not None and nxt[0] == 'expr' and exprs.trailing_dollars(lit) % 2 == 1:
                    # "$${expr}" is the escape: a literal "${" + the expression text as written + "}"
                    if names_only and any(q[2] == nxt[2] for q in live):
                        # (third effect of the known route: the escaped text reads as a placeholder of the mapping, too -
                        # unless the literal '$' before it escapes it again for simple_translate)
                        head = exprs.undouble(lit[:-1])
                        v = exprs.evaluate(nxt[1], self.env) if nxt[3] is None else None
                        if (''.join(out) + head).endswith('$'):
                            out.append(head + '${' + nxt[2] + '}')
                        else:
                            out.append(head + ('None' if v is None else value_text(region.ctx, v)))
                        i += 2
                        continue
                    out.append(exprs.undouble(lit[:-1]) + '${' + nxt[2] + '}')
                    i += 2
                    continue
                out.append(lit if keep_dd else exprs.undouble(lit))
            else:
                v = self.value(p[1], p[3])
                if v is None and len(parts) == 1:
                    sole_none = True
                if names_only and out and ''.join(out).endswith('$'):
                    out.append('${' + p[2] + '}')
                elif names_only and v is None:
                    out.append('None')          # (second effect of the same route: the mapping value of None is 'None')
                else:
                    out.append(value_text(region.ctx, v))
            i += 1
        if sole_none and region.ctx in ('dq', 'sq'):
            return None
        return ''.join(out)

    def region_off(self, region):
        return ''.join(p[1] if p[0] == 'lit' else '${' + p[2] + '}' for p in region.parts)


def has_live_interp(region):
    """Does the region contain a ${ that is not neutralised by a preceding odd $-run?"""
    parts = region.parts
    for i, p in enumerate(parts):
        if p[0] == 'expr':
            prev = parts[i - 1] if i else None
            if not (prev is not None and prev[0] == 'lit' and exprs.trailing_dollars(prev[1]) % 2 == 1):
                return True
    return False


# ---------------------------------------------------------------------------
class El:
    def __init__(self, switch, attrs, kids):
        self.switch, self.attrs, self.kids = switch, attrs, kids


def gen_region(rng, ctxname, ids, off=False, flavour=''):
    for _ in range(50):
        r = Region(ctxname, gen_parts(rng, ctxname, ids, off), flavour)
        ok = True
        for i, p in enumerate(r.parts):
            if p[0] == 'expr':
                prev = r.parts[i - 1] if i else None
                escaped = prev is not None and prev[0] == 'lit' and exprs.trailing_dollars(prev[1]) % 2 == 1
                if escaped and ('$' in p[1] or p[3] is not None):
                    p[1] = rng.choice(SIMPLE_EXPRS)
                    p[3] = None
                p[2] = written_expr(rng, p[1], ctxname)
                if ctxname == 'cdata' and ']]' in p[2]:
                    ok = False
                if ctxname == 'comment' and ('--' in p[2] or '->' in p[2]):
                    ok = False
        if ok and admissible(r):
            return r
    return Region(ctxname, [['lit', 'a']], flavour)


def gen_el(rng, depth, ids, on):
    sw = rng.choice([None, None, None, 'true', 'false', 'on', 'off'])
    on2 = on if sw is None else sw in ('true', 'on')
    attrs = [gen_region(rng, rng.choice(['dq', 'sq']), ids) for _ in range(rng.choice([0, 0, 1, 1, 2]))]
    kids = []
    for _ in range(rng.randint(1, 4)):
        k = rng.random()
        if k < .25 and depth < 3:
            kids.append(gen_el(rng, depth + 1, ids, on2))
        elif k < .6:
            if kids and isinstance(kids[-1], Region) and kids[-1].ctx == 'text':
                continue        # two adjacent text regions would be ONE text node for the engine
            kids.append(gen_region(rng, 'text', ids, off=not on2))
        elif k < .82:
            fl = rng.choice(['', '', '', '?', '!'])
            kids.append(gen_region(rng, 'comment', ids, off=(not on2) or fl == '?', flavour=fl))
        else:
            kids.append(gen_region(rng, 'cdata', ids, off=not on2))
    # a dropped <!--! comment between two text regions also makes them adjacent in the *source* only;
    # they remain separate text tokens, which is fine.
    el = El(sw, attrs, kids)
    # the element is also a macro definition (rendered where it stands): the switch of an ancestor holds inside it as well
    el.macro = 'mc%d' % next(ids) if depth and rng.random() < .12 else None
    return el


def ser_region(r):
    body = ''.join(p[1] if p[0] == 'lit' else '${' + p[2] + '}' for p in r.parts)
    if r.ctx == 'comment':
        return '<!--' + r.flavour + body + '-->'
    if r.ctx == 'cdata':
        return '<![CDATA[' + body + ']]>'
    return body


def ser(node, data_spelling=False):
    """data_spelling: the switch is written data-meta-interpolation (option enable_data_attributes)"""
    if isinstance(node, Region):
        return ser_region(node)
    s = '<e'
    names = 'ab'
    for i, a in enumerate(node.attrs):
        q = '"' if a.ctx == 'dq' else "'"
        s += ' %s=%s%s%s' % (names[i], q, ser_region(a), q)
    if node.switch is not None:
        s += (' data-meta-interpolation="%s"' if data_spelling else ' meta:interpolation="%s"') % node.switch
    if getattr(node, 'macro', None):
        s += (' data-metal-define-macro="%s"' if data_spelling else ' metal:define-macro="%s"') % node.macro
    return s + '>' + ''.join(ser(k, data_spelling) for k in node.kids) + '</e>'


def expect(node, ex, on, comments_on, out, altmode=False, stats=None):
    """altmode: the alternate model of the known '$$ kept where nothing is interpolated' mechanism."""
    if isinstance(node, Region):
        r = node
        if r.ctx == 'text':
            if on and '${' in ser_region(r):
                out.append(ex.region_on(r))
            else:
                # interpolation off (or nothing to interpolate): literal, nothing evaluated
                if stats is not None and not on:
                    stats['off'] += 1
                t = ser_region(r)
                out.append(exprs.undouble(t) if on else t.replace('$$', '$'))
        elif r.ctx == 'comment':
            if r.flavour == '!':
                return
            if not comments_on:
                if stats is not None:
                    stats['off'] += 1
                out.append(ser_region(r))
                return
            if r.flavour == '?':
                if stats is not None:
                    stats['off'] += 1
                out.append('<!--' + ex.region_off(r) + '-->')
                return
            if on:
                keep = altmode and '${' not in ser_region(r)
                out.append('<!--' + ex.region_on(r, keep_dd=keep) + '-->')
            else:
                if stats is not None:
                    stats['off'] += 1
                out.append(ser_region(r))
        elif r.ctx == 'cdata':
            if on:
                keep = altmode and '${' not in ser_region(r)
                out.append('<![CDATA[' + ex.region_on(r, keep_dd=keep) + ']]>')
            else:
                if stats is not None:
                    stats['off'] += 1
                out.append(ser_region(r))
        return
    on2 = on if node.switch is None else node.switch in ('true', 'on')
    out.append('<e')
    for i, a in enumerate(node.attrs):
        q = '"' if a.ctx == 'dq' else "'"
        keep = altmode and '${' not in ser_region(a)
        v = ex.region_on(a, keep_dd=keep, alt_implicit=(altmode == 'implicit'))     # attributes are interpolated whatever the switch says
        if v is not None:
            out.append(' %s=%s%s%s' % ('ab'[i], q, v, q))
    out.append('>')
    for k in node.kids:
        expect(k, ex, on2, comments_on, out, altmode, stats)
    out.append('</e>')


def shape(node, stack=()):
    if isinstance(node, Region):
        return (node.ctx + node.flavour, ''.join('L' if p[0] == 'lit' else 'E' for p in node.parts), stack)
    st = stack + (node.switch,)
    return tuple(shape(a, st) for a in node.attrs) + tuple(shape(k, st) for k in node.kids)


def nontrivial(node):
    def regions(n):
        if isinstance(n, Region):
            yield n
        else:
            for a in n.attrs:
                yield a
            for k in n.kids:
                yield from regions(k)
    for r in regions(node):
        has_e = any(p[0] == 'expr' for p in r.parts)
        if has_e and (any(p[0] == 'expr' and re.search(r'[{}"\'$]', p[1]) for p in r.parts) or
                      any(p[0] == 'lit' and '$' in p[1] for p in r.parts)):
            return True
    return False


def recval(i):
    return ['v%d' % i, 'x<%d>&"\'' % i, i, None, 'é%d' % i][i % 5] if i % 7 else 'v%d' % i


def render_real(src, env, comments_on, data_attributes=False, implicit_attrs=False):
    from chameleon import PageTemplate
    cfg = {'enable_data_attributes': True} if data_attributes else {}
    if implicit_attrs:
        # the attributes are offered to the (library's own, i.e. identity) translation function: same rendering
        cfg['implicit_i18n_attributes'] = {'a', 'b'}
    log = []
    env['tick'].reset()

    def f(i):
        log.append(i)
        return recval(i)
    try:
        from vlib import routes, state
        out = routes.make(PageTemplate, src, 8, state.CTX, enable_comment_interpolation=comments_on, **cfg)(f=f, **env)
    except Exception as e:
        try:
            msg = str(e).split('\n')[0][:160]
        except Exception:
            msg = '?'
        out = 'RAISED %s: %s' % (type(e).__name__, msg)
    return out, log


def one_case(ctx, rng, env, stats):
    ids = itertools.count(1)
    root = gen_el(rng, 0, ids, True)
    comments_on = rng.random() < .8
    data_spelling = rng.random() < .2
    if data_spelling:
        ctx.mon('switch-written-as-data-attribute')
    implicit_attrs = rng.random() < .25
    if implicit_attrs:
        ctx.mon('attributes-configured-for-implicit-translation')
    src = ser(root, data_spelling)
    ex = Expect(env, recval)
    out = []
    try:
        expect(root, ex, True, comments_on, out, stats=stats)
    except Exception:
        return False       # an expression raises in plain Python: not a case
    exp = ''.join(out)
    got, log = render_real(src, env, comments_on, data_spelling, implicit_attrs)
    ctx.mon('compared')
    ctx.mon('log-compared')
    ctx.case(key=(shape(root), comments_on), nontrivial=nontrivial(root),
             sample={'source': src, 'expected': exp, 'rendered': got, 'log': log} if len(src) < 160 else None)
    if got != exp or log != ex.log:
        key = 'output-differs' if got != exp else 'evaluation-log-differs'
        if got.startswith('RAISED'):
            key = 'raised-' + got.split()[1].rstrip(':')
        # alternate model for the known mechanism
        ex2 = Expect(env, recval)
        out2 = []
        expect(root, ex2, True, comments_on, out2, altmode=True)
        if ''.join(out2) == got and ex2.log == log and ''.join(out2) != exp:
            key = 'dollar-dollar-kept-where-nothing-interpolated'
        elif implicit_attrs:
            ex3 = Expect(env, recval)
            out3 = []
            expect(root, ex3, True, comments_on, out3, altmode='implicit')
            if ''.join(out3) == got and ex3.log == log and ''.join(out3) != exp:
                key = 'plain-name-placeholders-mishandled-under-implicit-attribute-translation'
        ctx.violation(key, 'template %r (comment interpolation %s)\n   rendered %r log %r\n   expected %r log %r' % (
            src, comments_on, got, log, exp, ex.log),
            {'kind': 'doc', 'src': src, 'comments_on': comments_on, 'expected': exp, 'expected_log': ex.log,
             'data_attributes': data_spelling, 'implicit_attrs': implicit_attrs})
    return True


def layer_string_expression_before_a_later_brace(ctx, n):
    """${string:...} followed, in the same text node or attribute value, by another '}' (of a later interpolation or a
    literal one): the expression still ends at its own closing brace.  Alternate model of the known mechanism: every
    candidate text is a valid string: expression, and the engine takes the longest one - up to the LAST '}'."""
    from chameleon import PageTemplate
    rng = ctx.rng
    env = {'t': "it's", 'n': 7, 'v': 'V<&>'}

    def sval(body, where):
        # value of a string: expression: complete ${name} parts are substituted, an unterminated one stays as it is
        out = re.sub(r'\$\{(\w+)\}', lambda m: exprs.to_text(env[m.group(1)]), body)
        return exprs.escape_text(out) if where == 'text' else exprs.escape_attr(out, '"')
    for case in range(n):
        where = rng.choice(['text', 'dq'])
        X = rng.choice(['a', 'Hello ${t}', 'x{y', '${n}-${n}', 'id: ${v}'])
        L0 = rng.choice(['', 'pre ', '$ '])
        L1 = rng.choice([' ', ' and ', '-', ' { '])
        final, fval = rng.choice([('${n}', '7'), ('}', '}'), ('${t}', "it's"), ('${v}', None)])
        L2 = rng.choice(['', '.', ' end'])
        if fval is None:
            fval = 'V&lt;&amp;&gt;'
        region = L0 + '${string:' + X + '}' + L1 + final + L2
        ref = L0 + sval(X, where) + L1 + fval + L2
        alt = L0 + sval(X + '}' + L1 + final[:-1], where) + L2
        src = '<p>%s</p>' % region if where == 'text' else '<p a="%s">x</p>' % region
        want = '<p>%s</p>' % ref if where == 'text' else '<p a="%s">x</p>' % ref
        walt = '<p>%s</p>' % alt if where == 'text' else '<p a="%s">x</p>' % alt
        try:
            got = PageTemplate(src)(**env)
        except Exception as e:
            got = 'RAISED %s: %s' % (type(e).__name__, str(e).split('\n')[0][:100])
        ctx.mon('string-expressions-before-a-later-brace')
        ctx.case(key=('string-then-brace', where, X, L1, final, bool(L0), bool(L2)), nontrivial=True)
        if got != want:
            key = 'string-expression-in-an-interpolation-extends-to-the-last-closing-brace' if got == walt else 'output-differs'
            ctx.violation(key, 'template %r\n   rendered %r\n   expected %r' % (src, got, want),
                          {'kind': 'doc', 'src': src, 'comments_on': True, 'expected': want, 'expected_log': []})


def run(ctx):
    monitors.install(ctx, tokalg=False)
    layer_string_expression_before_a_later_brace(ctx, 20 if ctx.quick else 300)
    import collections
    rng = ctx.rng
    env = exprs.make_env()
    stats = collections.Counter()
    n = 1200 if ctx.quick else 8000
    done = 0
    while done < n:
        if one_case(ctx, rng, env, stats):
            done += 1
    ctx.mon('regions-off', stats['off'])


def replay(data):
    env = exprs.make_env()
    got, log = render_real(data['src'], env, data['comments_on'], data.get('data_attributes', False), data.get('implicit_attrs', False))
    text = 'source   %r\nexpected %r log %r\nrendered %r log %r' % (
        data['src'], data['expected'], data['expected_log'], got, log)
    return got != data['expected'] or log != data['expected_log'], text
