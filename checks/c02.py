"""C02 — inserted values are escaped and cannot change document structure.

Oracle (independent reader, vlib/reader.py): for every insertion site and every
hostile value
  (1) the rendering with the hostile value has the same event structure (elements,
      attribute names and order, comment count) as the rendering with a harmless
      value at the same site;
  (2) the inserted region, located by sentinels and un-escaped literally, equals the
      value's string form;
  (3) the raw region contains no '&' that does not start an entity written by the
      escaper, no '<', no '>', and not the attribute's own quote character.
For the explicit opt-outs (structure keyword / structure: expression, __html__
objects, CDATA sections, text-mode templates) the converse is checked: the value
appears raw.  Sites are embedded in wrappers (repeat, define, condition, macro use,
translation block) so that the sink is reached through every emitter.
"""
import html
import re

from vlib import exprs, monitors, reader

PROP = 'C02'
TITLE = 'escaping of inserted values'
DEBUG_SHARDS = True      # two of sixteen shards run the library in its debug mode (vlib/runner.py)
LEVEL = 'exploration'
SHARDS = {'quick': 16, 'thorough': 16}
FLOOR = {'quick': 800, 'thorough': 3000}
REQUIRED_MONITORS = {'sites-checked': 1200, 'sites-checked-default-translation': 400, 'sites-checked-through-a-loader': 100, 'opt-outs-checked': 150}
RULE = ('a case = (site kind, wrapper, hostile value, neighbours); 27 site kinds {element text, "attr", \'attr\', two '
        'interpolations in one attribute, tal:attributes onto new / "static" / \'static\' attribute, dictionary attribute value, '
        'comment, tal:content, tal:replace, string: in content, string: in attribute, ${} inside i18n:translate, i18n:name '
        'block, message object with hostile translation, i18n:attributes value} x 6 wrappers x 30 hostile values (each of & < > '
        '" \', all together, ]]>, -->, entity look-alikes, NUL, non-ASCII, bytes, str subclass, int/float/bool, object with '
        'hostile __str__, message object); non-trivial iff the value contains a character the site must escape or is an '
        'opt-out class; distinct by (site kind, wrapper, value class). Out of the statement: attribute NAMES from dictionary '
        'keys, the return value of the translation function for i18n:translate/attributes, unquoted attribute values.')
ASSUMPTIONS = ['html.parser + strict scanner as independent reader; numeric character references are un-escaped literally '
               '(U+0000 stays U+0000)']

A, B = 'QQ1', 'QQ2'


class Message:
    """Neither str nor number nor __html__: offered to the translation function."""

    def __init__(self, s):
        self.s = s

    def __str__(self):
        return 'untranslated'


class StrSub(str):
    pass


class Money(float):
    """A float subclass whose string form is markup-hostile."""

    def __str__(self):
        return '<%.2f&>"\'' % float(self)


class Level(int):
    def __str__(self):
        return 'L<%d>&"\'' % int(self)


class FlagTrue(int):
    def __str__(self):
        return '<yes>'


HOSTILE = [
    ('amp', '&'), ('lt', '<'), ('gt', '>'), ('dq', '"'), ('sq', "'"), ('all', 'a<b>&"\'c'), ('cdata-end', 'x]]>y'),
    ('comment-end', 'x-->y'), ('pi-end', 'x?>y<z a="1">'),
    # compatibility characters: they are not markup, and must come back as they are (no normalisation on the way)
    ('fullwidth', '\uff1cscript\uff1e\uff06\uff02\uff07 \ufb01 \u2460'), ('small-forms', '\ufe64b\ufe65 \ufe60'), ('entity-amp', '&amp;'), ('entity-num', '&#38;&#x3c;'), ('entity-bogus', '&bogus; &lt'),
    ('tag', '<script>alert(1)</script>'), ('attr-break', '" onmouseover="x'), ('attr-break-sq', "' onmouseover='x"),
    ('nul', 'a\x00b<'), ('nonascii', 'é<日>'), ('newline', 'a\n<b'), ('bytes', b'by<&>"\''), ('strsub', StrSub('s<u"b\'')),
    ('int', 7), ('float', 2.5), ('bool', True), ('obj', exprs.Obj('O<&>"\'')), ('message', Message('m<&>"\'')),
    ('dollar', '${x} $$'), ('percent', '%s %(a)s'), ('backslash', '\\<'), ('empty', ''), ('spaces', '  <  '),
    ('long', '<' * 40 + '&' * 40), ('dollars', 'only $$5 & "$$HOME" $'), ('placeholder', '${other} $other <$$>'),
    ('float-subclass', Money(2.5)), ('int-subclass', Level(3)), ('int-subclass-2', FlagTrue(1)),
]


CATALOGUE = {}


def translate(msgid, domain=None, mapping=None, context=None, target_language=None, default=None):
    if isinstance(msgid, Message):
        return msgid.s                      # hostile translation of a message object
    if msgid == 'CATALOGUE-KEY':
        return CATALOGUE['CATALOGUE-KEY']   # the translation introduces the hostile characters
    if isinstance(msgid, str) and msgid.startswith('TRANSLATE-ME'):
        return 'T' + msgid[12:]             # a catalogue hit for a plain-string message id: hostile translation
    text = default if default is not None else msgid
    if mapping:
        for k, v in mapping.items():
            text = text.replace('${%s}' % k, v)
    return text


# site kind -> (template with the value bound to v, region kind: 'text' | ('attr', name, quote) | 'comment')
SITES = {
    'text': ('<p>' + A + '${v}' + B + '</p>', 'text'),
    'dq-attr': ('<p a="' + A + '${v}' + B + '">t</p>', ('attr', 'a', '"')),
    'sq-attr': ("<p a='" + A + '${v}' + B + "'>t</p>", ('attr', 'a', "'")),
    'dq-attr-after-sq-attr': ("<p z='s' y=u a=\"" + A + '${v}' + B + '">t</p>', ('attr', 'a', '"')),
    'sq-attr-after-dq-attr': ('<p z="s" a=\'' + A + '${v}' + B + "'>t</p>", ('attr', 'a', "'")),
    'tal-attr-new-after-sq-attr': ("<p z='s' tal:attributes=\"a v\">t</p>", ('attr-whole', 'a', '"')),
    'two-in-attr': ('<p a="' + A + '${v}' + B + '${v}">t</p>', ('attr', 'a', '"')),
    'tal-attr-new': ('<p tal:attributes="a \'' + A + '\' + str_of(v) + \'' + B + '\'">t</p>', ('attr', 'a', '"')),
    'tal-attr-dq-static': ('<p a="s" tal:attributes="a \'' + A + '\' + str_of(v) + \'' + B + '\'">t</p>', ('attr', 'a', '"')),
    'tal-attr-sq-static': ("<p a='s' tal:attributes=\"a '" + A + "' + str_of(v) + '" + B + "'\">t</p>", ('attr', 'a', "'")),
    'tal-attr-direct': ('<p tal:attributes="a v">t</p>', ('attr-whole', 'a', '"')),
    'tal-attr-direct-sq': ("<p a='s' tal:attributes=\"a v\">t</p>", ('attr-whole', 'a', "'")),
    'tal-attr-unquoted-static': ('<p a=s tal:attributes="a v">t</p>', ('attr-whole', 'a', '"')),
    'tal-attr-unquoted-static-concat': ('<p b="1" a=s/t c=2 tal:attributes="a \'' + A + '\' + str_of(v) + \'' + B + '\'">t</p>', ('attr', 'a', '"')),
    'tal-attr-valueless-static': ('<p a tal:attributes="a v">t</p>', ('attr-whole', 'a', '"')),
    'dict-attr-unquoted-static': ('<p a=s tal:attributes="{\'a\': v}">t</p>', ('attr-whole', 'a', '"')),
    'dict-attr': ('<p tal:attributes="{\'a\': v}">t</p>', ('attr-whole', 'a', '"')),
    'comment': ('<!--' + A + '${v}' + B + '-->', 'comment'),
    # comments that other tools read (conditional comments, server-side include directives) are comments all the same
    'comment-conditional': ('<!--[if lt IE 9]>' + A + '${v}' + B + '<![endif]-->', 'comment'),
    'comment-directive': ('<!--#include virtual="' + A + '${v}' + B + '" -->', 'comment'),
    # a plain value combined with a structure value in an expression is a plain value: only the structure value was opted out
    'text-concat-with-structure': ('<p tal:define="m structure:string:!">${\'' + A + '\' + str_of(v) + \'' + B + '\' + m}</p>', 'text'),
    'text-structure-concat-first': ('<p tal:define="m structure:string:!">${m + \'' + A + '\' + str_of(v) + \'' + B + '\'}</p>', 'text'),
    'text-structure-format': ('<p tal:define="m structure:string:[%s]">${m % (\'' + A + '\' + str_of(v) + \'' + B + '\')}</p>', 'text'),
    'attr-structure-join': ('<p tal:define="m structure:string:!" a="${m.join([\'' + A + '\' + str_of(v) + \'' + B + '\', \'z\'])}">t</p>', ('attr', 'a', '"')),
    # the text of script and style elements is element text like any other
    'script-text': ('<script>var a = 1; ' + A + '${v}' + B + ' // c</script>', 'text'),
    'style-text': ('<style type="text/css">p { content: ' + A + '${v}' + B + ' }</style>', 'text'),
    # a processing instruction (other than <?python): its data is text like any other
    'processing-instruction': ('<?foo ' + A + '${v}' + B + ' ?>', 'text'),
    'processing-instruction-attr': ('<?xml-stylesheet href="' + A + '${v}' + B + '" ?>', 'text'),
    'content': ('<p tal:content="v">x</p>', 'text-whole'),
    'content-text-kw': ('<p tal:content="text v">x</p>', 'text-whole'),
    'replace': ('<u>' + A + '<p tal:replace="v">x</p>' + B + '</u>', 'text'),
    'string-content': ('<p tal:content="string:' + A + '${v}' + B + '">x</p>', 'text'),
    'string-attr': ('<p tal:attributes="a string:' + A + '${v}' + B + '">t</p>', ('attr', 'a', '"')),
    'string-in-interp': ('<p>${string:' + A + '${v}' + B + '}</p>', 'text'),
    'string-in-attr-interp': ('<p a="${string:' + A + '${v}' + B + '}">t</p>', ('attr', 'a', '"')),
    'pipe-string-in-interp': ('<p>${nothing.x | string:' + A + '${v}' + B + '}</p>', 'text'),
    'in-translate': ('<p i18n:translate="">' + A + '${v}' + B + '</p>', 'text'),
    'i18n-name': ('<p i18n:translate="">' + A + '<b i18n:name="n" tal:omit-tag="">${v}</b>' + B + '</p>', 'text'),
    'i18n-name-content': ('<p i18n:translate="">' + A + '<b i18n:name="n" tal:replace="v">x</b>' + B + '</p>', 'text'),
    'pipe-content': ('<p tal:content="nothing.x | v">x</p>', 'text-whole'),
    'i18n-name-attr': ('<p i18n:translate="">see <b i18n:name="n" a="' + A + '${v}' + B + '">t</b></p>', ('attr-b', 'a', '"')),
    'two-names': ('<p i18n:translate="">' + A + '<b i18n:name="n" tal:omit-tag="">${v}</b>' + B + ' and <i i18n:name="m">${v}</i></p>', 'text'),
    # tal:content / tal:replace with i18n:translate="": the value is the message id; its translation is text
    'content-translated': ('<p tal:content="\'TRANSLATE-ME\' + str_of(v)" i18n:translate="">x</p>', 'text-whole-T'),
    'content-catalogue': ('<p tal:content="\'CATALOGUE-KEY\'" i18n:translate="">x</p>', 'text-whole'),
    'replace-translated': ('<u>' + A + '<p tal:replace="\'TRANSLATE-ME\' + str_of(v)" i18n:translate="">x</p>' + B + '</u>', 'text-T'),
}
WRAPPERS = {
    'plain': '%s',
    'repeat': '<ul><li tal:repeat="i (1,)">%s</li></ul>',
    'define': '<div tal:define="w 1">%s</div>',
    'condition': '<div tal:condition="True" tal:omit-tag="">%s</div>',
    'macro': '<div metal:define-macro="m">[<i metal:define-slot="s">d</i>]</div><div metal:use-macro="template.macros[\'m\']"><u metal:fill-slot="s">%s</u></div>',
    'on-error': '<div tal:on-error="string:ERR">%s</div>',
    'after-cdata': '<script><![CDATA[ var a = 1 < 2 && b; ]]></script><!-- plain comment -->%s',
    'interpolation-toggled': '<div meta:interpolation="false">${off}</div><div meta:interpolation="true">%s</div>',
}
OPTOUTS = {
    'structure-kw': ('<p tal:content="structure v">x</p>', 'xml'),
    'structure-expr': ('<p tal:content="structure: v">x</p>', 'xml'),
    'structure-replace': ('<u><p tal:replace="structure v">x</p></u>', 'xml'),
    'html-object': ('<p>${h}</p>', 'xml'),
    'html-object-attr': ('<p a="${h}">t</p>', 'xml'),
    'cdata': ('<![CDATA[' + A + '${v}' + B + ']]>', 'xml'),
    'text-mode': (A + '${v}' + B + ' <p a="${v}">', 'text'),
}


def str_form(v):
    if isinstance(v, Message):
        return v.s
    return exprs.to_text(v)


LOADER_DIR = []


def render(src, v, mode='xml', tr='custom', cfg=None, route=None):
    from chameleon import PageTemplate, PageTextTemplate
    CATALOGUE['CATALOGUE-KEY'] = str_form(v)
    cls = PageTemplate if mode == 'xml' else PageTextTemplate
    kw = dict(cfg or {})
    if tr == 'custom':
        kw['translate'] = translate
    try:
        if route == 'loader-after-text-load':
            # the template comes out of a loader that has already handed the same file out as a text template
            import hashlib, os, tempfile
            from chameleon import PageTemplateLoader
            if not LOADER_DIR:
                LOADER_DIR.append(tempfile.mkdtemp(prefix='c02l_'))
            name = hashlib.sha1(src.encode('utf-8')).hexdigest()[:16] + '.pt'
            with open(os.path.join(LOADER_DIR[0], name), 'w', encoding='utf-8') as f:
                f.write(src)
            loader = PageTemplateLoader(LOADER_DIR[0], **kw)
            loader.load(name, 'text')(v='SAFE', h='h', str_of=str_form)
            out = loader.load(name)(v=v, h=exprs.Markup(str_form(v)), str_of=str_form)
            # (a text template would hand back bytes: judged like any other rendering)
            return out.decode('utf-8', 'replace') if isinstance(out, bytes) else out
        from vlib import routes, state
        return routes.make(cls, src, 8, state.CTX, **kw)(v=v, h=exprs.Markup(str_form(v)), str_of=str_form)
    except Exception as e:
        return 'RAISED %s: %s' % (type(e).__name__, str(e).split('\n')[0][:100])


def extract(out, region):
    """Locate the raw inserted region(s) in the rendered text."""
    if region == 'text-T':
        r = extract(out, 'text')
        return [x[1:] if x.startswith('T') else 'MISSING-T' + x for x in r] if r else r
    if region == 'text-whole-T':
        r = extract(out, 'text-whole')
        return [x[1:] if x.startswith('T') else 'MISSING-T' + x for x in r] if r else r
    if region == 'text' or region == 'comment':
        m = re.search(re.escape(A) + r'(.*?)' + re.escape(B), out, re.S)
        return [m.group(1)] if m else None
    if region == 'text-whole':
        m = re.search(r'<p>(.*)</p>', out, re.S)
        return [m.group(1)] if m else None
    kind, name, quote = region
    want_tag = 'p'
    if kind == 'attr-b':
        kind, want_tag = 'attr', 'b'
    for tag, attrs, raw in reader.start_tags(out):
        if tag != want_tag:
            continue
        for n, q, val in attrs:
            if n == name:
                if q is None and val is None:
                    return ['']      # written without a value: the empty string (HTML), nothing to escape
                if q != quote:
                    return 'QUOTE-CHANGED'
                if kind == 'attr-whole':
                    return [val]
                return re.findall(re.escape(A) + r'(.*?)' + re.escape(B), val, re.S)
        return []       # attribute absent
    return None


def raw_problems(raw, quote):
    probs = []
    if '<' in raw:
        probs.append("raw '<'")
    if '>' in raw:
        probs.append("raw '>'")
    if quote and quote in raw:
        probs.append('raw quote %s' % quote)
    return probs


def structure_of(out):
    return reader.structure(out)


# sites rendered a second time with the library's own translation function (no translate= given): the message is
# assembled by chameleon.i18n.simple_translate from the mapping of the named parts; with the implicit options the
# plain text and attribute sites go the same way
DEFAULT_TR_SITES = ('in-translate', 'i18n-name', 'i18n-name-content', 'i18n-name-attr', 'two-names', 'text', 'dq-attr',
                    'content', 'tal-attr-direct', 'string-content', 'script-text', 'style-text')
IMPLICIT_CFG = {'implicit_i18n_translate': True, 'implicit_i18n_attributes': ['a']}


def check_site(ctx, site, wrapper, vname, v, tr='custom', cfg=None, route=None):
    tpl, region = SITES[site]
    src = '<root>' + WRAPPERS[wrapper] % tpl + '</root>'
    safe = render(src, 'SAFE', tr=tr, cfg=cfg, route=route)
    out = render(src, v, tr=tr, cfg=cfg, route=route)
    if route:
        ctx.mon('sites-checked-through-a-loader')
        return _judge(ctx, site, site + ':' + route, wrapper, vname, v, src, safe, out, region,
                      {'kind': 'site', 'site': site, 'wrapper': wrapper, 'value': vname, 'route': route})
    if tr != 'custom' or cfg:
        ctx.mon('sites-checked-default-translation')
        site_label = site + (':default-translation' if tr != 'custom' else '') + (':implicit' if cfg else '')
        return _judge(ctx, site, site_label, wrapper, vname, v, src, safe, out, region,
                      {'kind': 'site', 'site': site, 'wrapper': wrapper, 'value': vname, 'tr': tr, 'cfg': cfg})
    ctx.mon('sites-checked')
    return _judge(ctx, site, site, wrapper, vname, v, src, safe, out, region,
                  {'kind': 'site', 'site': site, 'wrapper': wrapper, 'value': vname})


def _judge(ctx, site, label, wrapper, vname, v, src, safe, out, region, replay):
    needs = bool(re.search(r'[&<>"\'$]', str_form(v)))
    ctx.case(key=(label, wrapper, vname), nontrivial=needs,
             sample={'source': src, 'value': repr(v), 'rendered': out} if vname == 'all' and wrapper == 'plain' and label in ('text', 'sq-attr') else None)
    what = 'site %s in wrapper %s, value %r: template %r rendered %r' % (label, wrapper, v, src, out)
    site = label
    if out.startswith('RAISED') or safe.startswith('RAISED'):
        ctx.violation('site-raised:' + site, what + ' (harmless rendering %r)' % safe, replay)
        return
    if structure_of(out) != structure_of(safe):
        # an attribute legitimately disappears when its whole value is empty? no: '' keeps the attribute
        ctx.violation('structure-changed:' + site, what + '\n  structure with harmless value: %r\n  structure now: %r' % (
            structure_of(safe), structure_of(out)), replay)
        return
    regs = extract(out, region)
    if regs == 'QUOTE-CHANGED' or regs is None or regs == []:
        ctx.violation('region-not-found:' + site, what, replay)
        return
    quote = region[2] if isinstance(region, tuple) else None
    want = str_form(v)
    for raw in regs:
        probs = raw_problems(raw, quote if region != 'comment' else None)
        got_text = reader.unescape_literal(raw)
        if site.split(':')[0] in ('in-translate', 'i18n-name', 'i18n-name-content', 'two-names') or ':implicit' in site:
            # the content of a translated element is whitespace-collapsed by definition (C10)
            got_text = re.sub(r'\s+', ' ', got_text).strip()
            want = re.sub(r'\s+', ' ', want).strip()
        if got_text != want:
            probs.append('un-escaped region %r != %r' % (got_text, want))
        if probs:
            ctx.violation('not-escaped:' + site, what + ': ' + '; '.join(probs), replay)
            return


def check_optout(ctx, name, vname, v):
    tpl, mode = OPTOUTS[name]
    if name.startswith('html-object') and isinstance(v, (Message,)):
        return
    if name == 'structure-expr' and not isinstance(v, str):
        return          # structure: stringifies its argument with str(); conversion of non-strings there is unspecified
    src = tpl if mode == 'text' else '<root>' + tpl + '</root>'
    out = render(src, v, mode)
    ctx.mon('opt-outs-checked')
    ctx.case(key=('optout', name, vname), nontrivial=True)
    want = str_form(v)
    if isinstance(v, Message) and name != 'text-mode' and not name.startswith('cdata'):
        want = v.s
    if want not in out:
        ctx.violation('opt-out-escaped:' + name, 'opt-out %s, value %r: template %r rendered %r (the raw value %r is missing)'
                      % (name, v, src, out, want), {'kind': 'optout', 'name': name, 'value': vname})


# ---------------------------------------------------------------------------
# one value, many sites: the same value (the same object, or an equal one) inserted at several places of different kinds
# in ONE rendering - text first and attributes later, double-quoted before single-quoted ... - including values long
# enough that an engine might want to remember how it escaped them.  Every place is judged on its own.
MANY_KINDS = {
    'text': ('<s%(i)d>[%(i)d[${%(var)s}]%(i)d]</s%(i)d>', 'text', None),
    'dq': ('<s%(i)d a="[%(i)d[${%(var)s}]%(i)d]">t</s%(i)d>', 'attr', '"'),
    'sq': ("<s%(i)d a='[%(i)d[${%(var)s}]%(i)d]'>t</s%(i)d>", 'attr', "'"),
    'tal-dq': ('<s%(i)d tal:attributes="a %(var)s">t</s%(i)d>', 'attr-whole', '"'),
    'tal-sq': ("<s%(i)d a='s' tal:attributes=\"a %(var)s\">t</s%(i)d>", 'attr-whole', "'"),
    'dict': ("<s%(i)d tal:attributes=\"{'a': %(var)s}\">t</s%(i)d>", 'attr-whole', '"'),
    'content': ('<s%(i)d tal:content="%(var)s">x</s%(i)d>', 'text-whole', None),
    'string-sq': ("<s%(i)d a='s' tal:attributes=\"a string:[%(i)d[${%(var)s}]%(i)d]\">t</s%(i)d>", 'attr', "'"),
}
MANY_VALUES = [('all', 'a<b>&"\'c'), ('long-quotes', ('say "hi" & it\'s <ok> ') * 5), ('very-long', ('"' + "'" + '<&>x') * 120),
               ('sixty-five', '"' * 33 + "'" * 32), ('dq-run', 'x"y' * 30), ('sq-run', "x'y" * 30), ('amp-long', '&amp; ' * 40),
               ('attr-break-long', 'p' * 70 + '" onmouseover="x'), ('attr-break-sq-long', 'p' * 70 + "' onmouseover='x")]


def layer_one_value_many_sites(ctx, n):
    from chameleon import PageTemplate
    rng = ctx.rng
    for case in range(n):
        vname, v = rng.choice(MANY_VALUES)
        kinds = [rng.choice(sorted(MANY_KINDS)) for _ in range(rng.randint(2, 5))]
        # an equal value that is another object (w) stands in for some of the places
        vars_ = [rng.choice(['v', 'v', 'w']) for _ in kinds]
        src = '<root>' + ''.join(MANY_KINDS[k][0] % {'i': i, 'var': vars_[i]} for i, k in enumerate(kinds)) + '</root>'
        replay = {'kind': 'many', 'src': src, 'value': vname}
        ctx.mon('one-value-many-sites')
        ctx.case(key=('many', tuple(kinds), tuple(vars_), vname), nontrivial=True)
        try:
            t = PageTemplate(src)
            out = t(v=v, w=''.join(list(v)))
            safe = t(v='SAFE', w='SAFE')
        except Exception as e:
            ctx.violation('site-raised:many-sites', 'template %r with value %r: %s: %s' % (src, v, type(e).__name__, str(e)[:100]), replay)
            continue
        what = 'value %r inserted at the places %r of one rendering: template %r rendered %r' % (v, kinds, src, out)
        if structure_of(out) != structure_of(safe):
            ctx.violation('structure-changed:many-sites', what, replay)
            continue
        tags = {tag: attrs for tag, attrs, raw in reader.start_tags(out)}
        for i, k in enumerate(kinds):
            tpl, region, quote = MANY_KINDS[k]
            if region in ('text', 'text-whole'):
                m = re.search((r'\[%d\[(.*?)\]%d\]' % (i, i)) if region == 'text' else (r'<s%d>(.*?)</s%d>' % (i, i)), out, re.S)
                raw = m.group(1) if m else None
            else:
                raw = None
                for nm, q, val in tags.get('s%d' % i, []):
                    if nm == 'a':
                        if q != quote:
                            raw = None
                            break
                        raw = val
                        if region == 'attr':
                            m = re.search(r'\[%d\[(.*?)\]%d\]' % (i, i), val, re.S)
                            raw = m.group(1) if m else None
            if raw is None:
                ctx.violation('region-not-found:many-sites', what + ' (place %d, %s)' % (i, k), replay)
                break
            probs = raw_problems(raw, quote)
            if reader.unescape_literal(raw) != v:
                probs.append('un-escaped region %r != the value' % reader.unescape_literal(raw)[:60])
            if probs:
                ctx.violation('not-escaped:many-sites:' + k, what + ': place %d (%s): %s' % (i, k, '; '.join(probs)), replay)
                break


def run(ctx):
    monitors.install(ctx, tokalg=False)
    layer_one_value_many_sites(ctx, 25 if ctx.quick else 250)
    work = [(s, w, hn, hv) for s in sorted(SITES) for w in sorted(WRAPPERS) for hn, hv in HOSTILE]
    rng = ctx.rng
    if ctx.quick:
        # every (site, value) pair under the plain wrapper + three quarters of the wrapped combinations (same choice in every shard)
        pick = __import__('random').Random(ctx.seed)
        work = [x for x in work if x[1] == 'plain' or pick.random() < .75]
    for i, (s, w, hn, hv) in enumerate(work):
        if i % ctx.nshards != ctx.shard:
            continue
        if (s.startswith('tal-attr') and s != 'tal-attr-direct' and s != 'tal-attr-direct-sq' or s.endswith('-translated') or s == 'content-catalogue'
                or 'structure' in s) \
                and isinstance(hv, Message):
            continue        # str_of() already stringifies
        check_site(ctx, s, w, hn, hv)
    # the same sinks reached through the library's own translation function, explicit and implicit
    k = 0
    for s in DEFAULT_TR_SITES:
        for w in ('plain', 'repeat', 'macro'):
            for hn, hv in HOSTILE:
                if isinstance(hv, Message):
                    continue
                for cfg in (None, IMPLICIT_CFG):
                    k += 1
                    if k % ctx.nshards != ctx.shard or (ctx.quick and w != 'plain' and rng.random() < .5):
                        continue
                    if cfg and s in ('in-translate', 'i18n-name', 'i18n-name-content', 'i18n-name-attr', 'two-names') and w != 'plain':
                        continue
                    check_site(ctx, s, w, hn, hv, tr='default', cfg=cfg)
    # the same sinks in a template that comes out of a loader (after the file was also loaded as text)
    k = 0
    vals = dict(HOSTILE)
    for s in sorted(SITES):
        if 'structure' in s:
            continue        # (these define a variable with tal:define, which the preceding load as TEXT does not execute)
        for hn in ('all', 'attr-break', 'attr-break-sq', 'tag', 'entity-amp'):
            k += 1
            if k % ctx.nshards == ctx.shard:
                check_site(ctx, s, 'plain', hn, vals[hn], route='loader-after-text-load')
    if LOADER_DIR:
        import shutil
        shutil.rmtree(LOADER_DIR.pop(), ignore_errors=True)
    opt = [(n, hn, hv) for n in sorted(OPTOUTS) for hn, hv in HOSTILE]
    for i, (n, hn, hv) in enumerate(opt):
        if i % ctx.nshards != ctx.shard:
            continue
        check_optout(ctx, n, hn, hv)


def replay(data):
    if data.get('kind') == 'many':
        from chameleon import PageTemplate
        v = dict(MANY_VALUES)[data['value']]
        return True, 'template %r value %r -> %r' % (data['src'], v, PageTemplate(data['src'])(v=v, w=''.join(list(v))))
    vals = dict(HOSTILE)
    v = vals[data['value']]
    if data.get('kind') == 'optout':
        tpl, mode = OPTOUTS[data['name']]
        src = tpl if mode == 'text' else '<root>' + tpl + '</root>'
        return True, 'template %r value %r -> %r' % (src, v, render(src, v, mode))
    tpl, region = SITES[data['site']]
    src = '<root>' + WRAPPERS[data['wrapper']] % tpl + '</root>'
    tr, cfg, route = data.get('tr', 'custom'), data.get('cfg'), data.get('route')
    return True, 'template %r value %r -> %r\nharmless -> %r' % (src, v, render(src, v, tr=tr, cfg=cfg, route=route),
                                                                render(src, 'SAFE', tr=tr, cfg=cfg, route=route))
