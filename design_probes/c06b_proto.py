"""C06 switches: meta:interpolation nesting, <!--?, <!--!, enable_comment_interpolation; evaluation log."""
import random, sys
sys.path.insert(0, '/repo/src')
from chameleon import PageTemplate
rng = random.Random(int(sys.argv[1]))
import itertools
def gen(depth, ids):
    sw = rng.choice([None, None, 'true', 'false', 'on', 'off'])
    kids = []
    for _ in range(rng.randint(1, 4)):
        k = rng.random()
        if k < .3 and depth < 3: kids.append(gen(depth + 1, ids))
        elif k < .55: kids.append(('text', next(ids)))
        elif k < .7: kids.append(('comment', next(ids), rng.choice(['', '', '?', '!'])))
        elif k < .8: kids.append(('cdata', next(ids)))
        else: kids.append(('lit', rng.choice(['t', '$$', ' $ ', '{}'])))
    return ('el', sw, next(ids), kids)
def ser(n):
    if n[0] == 'el':
        _, sw, aid, kids = n
        return '<e a="${f(%d)}"%s>%s</e>' % (aid, '' if sw is None else ' meta:interpolation="%s"' % sw, ''.join(ser(k) for k in kids))
    if n[0] == 'text': return 'x${f(%d)}y' % n[1]
    if n[0] == 'comment': return '<!--%s c${f(%d)}d -->' % (n[2], n[1])
    if n[0] == 'cdata': return '<![CDATA[ c${f(%d)}d ]]>' % n[1]
    return n[1]
def model(n, on, out, log, comments_on):
    if n[0] == 'el':
        _, sw, aid, kids = n
        log.append(aid)     # attributes always interpolated
        if sw in ('true', 'on'): on2 = True
        elif sw in ('false', 'off'): on2 = False
        else: on2 = on
        out.append('<e a="v%d">' % aid)
        for k in kids: model(k, on2, out, log, comments_on)
        out.append('</e>')
    elif n[0] == 'text':
        if on: log.append(n[1]); out.append('xv%dy' % n[1])
        else: out.append('x${f(%d)}y' % n[1])
    elif n[0] == 'comment':
        if n[2] == '!' : return
        if not comments_on: out.append('<!--%s c${f(%d)}d -->' % (n[2], n[1])); return
        if n[2] == '?': out.append('<!-- c${f(%d)}d -->' % n[1])
        elif on: log.append(n[1]); out.append('<!-- cv%dd -->' % n[1])
        else: out.append('<!-- c${f(%d)}d -->' % n[1])
    elif n[0] == 'cdata':
        if on: log.append(n[1]); out.append('<![CDATA[ cv%dd ]]>' % n[1])
        else: out.append('<![CDATA[ c${f(%d)}d ]]>' % n[1])
    else:
        out.append(n[1].replace('$$', '$'))
bad = n_ = shown = 0
for case in range(int(sys.argv[2])):
    ids = itertools.count(1)
    root = gen(0, ids)
    src = ser(root)
    comments_on = rng.random() < .8
    out, log = [], []
    model(root, True, out, log, comments_on)
    rlog = []
    def f(i): rlog.append(i); return 'v%d' % i
    n_ += 1
    try: got = PageTemplate(src, enable_comment_interpolation=comments_on)(f=f)
    except Exception as e: got = 'ERR %s %s' % (type(e).__name__, str(e).split('\n')[0][:60])
    if got != ''.join(out) or rlog != log:
        bad += 1
        if shown < 6: shown += 1; print('MISMATCH comments_on=%s' % comments_on, src, '\n exp', ''.join(out), log, '\n got', got, rlog)
print('cases', n_, 'bad', bad)
