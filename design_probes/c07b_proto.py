"""C07 extended: unquoted/valueless/interpolated statics, boolean configs, case-duplicate entries; classify disagreements."""
import random, sys, re
sys.path.insert(0, '/repo/src')
from chameleon import PageTemplate
from chameleon.tales import DEFAULT_MARKER as DEFAULT
rng = random.Random(int(sys.argv[1]))
NAMES = ['a', 'b', 'class', 'checked', 'title']
VALS = [None, 'DEF', '', 0, False, True, 'str', 'h<&>"\'', 7]
def esc(v, q):
    v = str(v).replace('&', '&amp;').replace('<', '&lt;').replace('>', '&gt;')
    return v.replace('"', '&quot;') if q == '"' else v.replace("'", '&#39;') if q == "'" else v
def gen():
    statics = []
    for n in rng.sample(NAMES, rng.randint(0, 3)):
        kind = rng.choice(['dq', 'dq', 'sq', 'unq', 'valueless', 'interp'])
        statics.append((n, kind))
    entries = []; used = set()
    for _ in range(rng.randint(0, 3)):
        n = rng.choice(NAMES + ['new1'])
        if n in used: continue
        used.add(n); entries.append((n, 'v%d' % len(entries)))
    cfg = rng.choice(['html', 'xml', 'explicit', 'none'])
    return statics, entries, cfg
def ser_static(n, kind):
    return {'dq': ' %s="S%s"' % (n, n), 'sq': " %s='S%s'" % (n, n), 'unq': ' %s=S%s' % (n, n), 'valueless': ' %s' % n, 'interp': ' %s="I${iv}"' % n}[kind]
def boolset(cfg):
    return {'html': {'checked'}, 'xml': set(), 'explicit': {'title'}, 'none': set()}[cfg]
def model(statics, entries, cfg, B):
    BOOL = boolset(cfg)
    merged = []
    for n, kind in statics:
        text = {'dq': 'S' + n, 'sq': 'S' + n, 'unq': 'S' + n, 'valueless': '', 'interp': None}[kind]
        merged.append({'name': n, 'kind': kind, 'text': text, 'dyn': None})
    idx = {m['name']: m for m in merged}
    for n, var in entries:
        if n in idx: idx[n]['dyn'] = var
        else:
            m = {'name': n, 'kind': 'dq', 'text': None, 'dyn': var}; merged.append(m); idx[n] = m
    out = []
    for m in merged:
        n, kind = m['name'], m['kind']
        q = {'dq': '"', 'sq': "'", 'unq': '', 'valueless': '', 'interp': '"'}[kind]
        def emit(val):
            if kind == 'valueless': out.append((n, None if val == '' else 'WEIRD:' + val, ''))   # placeholder, see classification
            else: out.append((n, val, q))
        if m['dyn'] is None:
            if kind == 'interp':
                iv = B['iv']
                if n in BOOL:
                    v = ('I' + ('' if iv is None else str(iv)))
                    out.append((n, n, q))     # non-empty -> name
                else: out.append((n, 'I' + esc('' if iv is None else iv, q), q))
            elif kind == 'valueless': out.append((n, None, ''))
            else: out.append((n, m['text'], q))
            continue
        v = B[m['dyn']]
        isdef = isinstance(v, str) and v == 'DEF'
        default = m['text'] if kind != 'interp' else None
        if n in BOOL:
            if isdef: val = default
            elif v: val = n
            else: val = None
        else:
            if isdef: val = default
            elif v is None: val = None
            else: val = esc(v, q)
        if val is None: continue
        if kind == 'valueless' and isdef: out.append((n, None, '')); continue
        out.append((n, val, q))
    return out
ATTR = re.compile(r'''\s+([^\s=>/]+)(?:=("[^"]*"|'[^']*'|[^\s>]*))?''')
def read(out):
    m = re.match(r'<p((?:.|\n)*?)>x</p>$', out)
    if not m: return 'UNPARSEABLE ' + out
    res = []
    for n, v in ATTR.findall(m.group(1)):
        if v == '' : res.append((n, None, ''))
        elif v[0] in '"\'': res.append((n, v[1:-1], v[0]))
        else: res.append((n, v, ''))
    return res
from collections import Counter
stats = Counter(); shown = Counter()
for case in range(int(sys.argv[2])):
    statics, entries, cfg = gen()
    src = ('<?xml version="1.0"?>' if cfg == 'xml' else '') + '<p' + ''.join(ser_static(*s_) for s_ in statics)
    if entries: src += ' tal:attributes="%s"' % '; '.join('%s %s' % e for e in entries)
    src += '>x</p>'
    kw = {}
    if cfg == 'explicit': kw['boolean_attributes'] = {'title'}
    if cfg == 'none': kw['boolean_attributes'] = set()
    try: t = PageTemplate(src, **kw)
    except Exception as e: stats['compile-err ' + type(e).__name__] += 1; continue
    for b in range(3):
        B = {var: rng.choice(VALS) for n, var in entries}; B['iv'] = rng.choice(['x', '', None, 'h<"'])
        realB = {k: (DEFAULT if (isinstance(v, str) and v == 'DEF') else v) for k, v in B.items()}
        exp = model(statics, entries, cfg, B)
        try:
            o = t(**realB); o = o[len('<?xml version="1.0"?>'):] if cfg == 'xml' else o
            got = read(o)
        except Exception as e: got = 'ERR %s' % type(e).__name__
        if got == exp: stats['ok'] += 1
        else:
            # classify
            tkinds = {n: k for n, k in statics}
            hit = [tkinds[n] for n, var in entries if n in tkinds]
            if any(k in ('unq', 'valueless') for k in hit): key = 'override-of-unquoted-or-valueless (n.4)'
            elif any(k == 'interp' for k in hit): key = 'override-of-interpolated'
            elif any(k == 'interp' for n, k in statics): key = 'interp-static'
            elif cfg == 'none': key = 'boolean none cfg'
            else: key = 'OTHER'
            stats[key] += 1
            if shown[key] < 3: shown[key] += 1; print('---', key, cfg, src, B, '\n exp', exp, '\n got', got)
print(dict(stats))
