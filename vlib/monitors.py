"""Universal monitors: invariants asserted at hooks on the real functions.

Every monitor is *recording*: it never raises into, nor changes the result of,
the code under test.  Each counts its evaluations (ctx.mon) so that a run in
which a deciding monitor was never reached is inconclusive rather than held.

install(ctx, owner_props) wraps the real functions before the workload takes
references to them.  A monitor's violations are reported as violations only
when the running check owns the monitor's property; otherwise they are kept as
notes in the evidence (each property's own check drives its monitors with its
own workload).
"""
import functools

from vlib import state

_installed = False


def _report(prop, key, what, replay=None):
    ctx = state.CTX
    if ctx is None:
        return
    if prop == ctx.prop:
        ctx.violation(key, what, replay)
    else:
        ctx.cover('foreign_monitor_observations', '%s:%s' % (prop, key))


def aligned(tok):
    src = getattr(tok, 'source', None)
    if src is None:
        return None
    return src[tok.pos:tok.pos + len(tok)] == tok


# --------------------------------------------------------------------------
# M-tok  [C03]: tokens concatenate back to the input, positions contiguous
def check_token_stream(body, tokens, origin='iter_xml'):
    ctx = state.CTX
    ctx.mon('M-tok')
    pos = 0
    ok = True
    for t in tokens:
        if t.pos != pos or len(t) == 0 or body[pos:pos + len(t)] != t:
            ok = False
            break
        pos += len(t)
    if ok and pos != len(body):
        ok = False
    if not ok:
        _report('C03', 'M-tok:lossy-token-stream',
                'token stream of %r does not concatenate to the input with contiguous '
                'positions: %r' % (body[:80], [(str(t), t.pos) for t in tokens][:12]),
                {'kind': 'tokenize', 'body': body})
    return ok


def _wrap_iter_xml(orig):
    @functools.wraps(orig)
    def iter_xml(body, filename=None):
        toks = list(orig(body, filename))
        check_token_stream(body, toks)
        return iter(toks)
    iter_xml.__wrapped_by_verif__ = True
    return iter_xml


# --------------------------------------------------------------------------
# M-tokalg [C11]: Token algebra keeps position information truthful
def _check_alg(op, self, result):
    ctx = state.CTX
    if aligned(self) is not True:
        return
    ctx.mon('M-tokalg')
    items = result if isinstance(result, (list, tuple)) else (
        list(result.values()) if isinstance(result, dict) else [result])
    for r in items:
        if r is None or not hasattr(r, 'pos') or len(r) == 0:
            continue
        if aligned(r) is False:
            _report('C11', 'M-tokalg:' + op,
                    'Token.%s of aligned token %r (pos %d) gave %r at pos %d, but the source '
                    'there reads %r' % (op, str(self)[:60], self.pos, str(r)[:60], r.pos,
                                        r.source[r.pos:r.pos + len(r)][:60]),
                    {'kind': 'tokalg', 'op': op, 'token': str(self), 'pos': self.pos,
                     'source': self.source})
            return


def _wrap_token_method(cls, name):
    orig = getattr(cls, name)

    def wrapper(self, *a, **kw):
        res = orig(self, *a, **kw)
        try:
            if name != '__getitem__' or (a and isinstance(a[0], slice)):
                _check_alg(name, self, res)
        except Exception as e:  # the monitor must never disturb the code under test
            state.CTX.note('M-tokalg internal error: %r' % e)
        return res
    wrapper.__name__ = name
    wrapper.__wrapped_by_verif__ = True
    setattr(cls, name, wrapper)


def _wrap_groups(mod, name):
    orig = getattr(mod, name)

    @functools.wraps(orig)
    def wrapper(m, token):
        res = orig(m, token)
        try:
            if hasattr(token, 'pos'):
                _check_alg('parser.' + name, token, res)
        except Exception as e:
            state.CTX.note('M-tokalg internal error: %r' % e)
        return res
    setattr(mod, name, wrapper)
    return wrapper


# --------------------------------------------------------------------------
# M-err [C11]: a TemplateError's token identifies a substring of its source
def check_template_error(exc, source=None):
    """Returns None if fine, else a description.  Used by harnesses too."""
    ctx = state.CTX
    tok = getattr(exc, 'token', None)
    if tok is None:
        return 'no token'
    src = getattr(tok, 'source', None)
    if src is None:
        src = source
    if src is None:
        return None
    ctx.mon('M-err')
    pos = getattr(tok, 'pos', None)
    if pos is None:
        return 'token without position'
    if src[pos:pos + len(tok)] != str(tok):
        return 'source[%d:%d] == %r != token %r' % (pos, pos + len(tok), src[pos:pos + len(tok)], str(tok))
    line = src.count('\n', 0, pos) + 1
    col = pos - (src.rfind('\n', 0, pos) + 1)
    try:
        loc = tok.location
    except Exception as e:
        return 'location raised %r' % e
    if tuple(loc) != (line, col):
        return 'location %r != (%d, %d)' % (loc, line, col)
    return None


def install(ctx, tok=True, tokalg=True):
    """Install the source-free hooks.  Must run before the workload binds names."""
    global _installed
    if _installed:
        return
    _installed = True
    import chameleon.tokenize as T
    import chameleon.program as P
    import chameleon.parser as PA
    import chameleon.tal as TAL
    if tok:
        w = _wrap_iter_xml(T.iter_xml)
        T.iter_xml = w
        P.iter_xml = w
        P.ElementProgram.tokenizers = dict(P.ElementProgram.tokenizers, xml=w)
        # subclasses inherit the class attribute; make sure none kept a private copy
        import chameleon.zpt.program as ZP
        if 'tokenizers' in ZP.MacroProgram.__dict__:
            ZP.MacroProgram.tokenizers = dict(ZP.MacroProgram.tokenizers, xml=w)
    if tokalg:
        for name in ('__getitem__', 'split', 'strip', 'lstrip', 'rstrip'):
            _wrap_token_method(T.Token, name)
        g = _wrap_groups(PA, 'groups')
        gd = _wrap_groups(PA, "groupdict")
        import chameleon.compiler as CO
        if getattr(CO, "groupdict", None) is not None:
            CO.groupdict = gd
        # tal.py did `from chameleon.parser import groups`
        if getattr(TAL, 'groups', None) is not None:
            TAL.groups = g
