"""C11 — template errors surface as TemplateError with the exact source location.

Monitors
  M-err     every TemplateError caught by the harness: source[offset:offset+len(token)] == token,
            location == (line, column) of offset.
  M-tokalg  Token algebra (slice/split/strip/lstrip/rstrip, parser.groups/groupdict) keeps aligned
            tokens aligned (installed on the real Token class, evaluated on every compilation).
Workload: planted faults.  A valid template is generated around one *site*; the
serialiser knows the exact substring planted and its offset.  Catalogue:
  invalid-expression at every kind of statement argument, every ';'-part of
  define / attributes lists (first, middle, last; after ';;'; after an entity),
  ${} in text / attributes on any line and column, string: parts, after a pipe /
  not: / exists:, multi-line tags, non-ASCII text before;
  language errors: unknown tal:/metal:/i18n: statement, content+replace, case without switch,
  bad define syntax, reserved name, duplicate attribute in tal:attributes, fill-slot without use-macro,
  define-macro + fill-slot, bad meta:interpolation, bad i18n:attributes, i18n:name duplicate,
  stray end tag, '--' in comment, tal:attributes on a tal: element.
Also: the un-planted variant of every case must compile ("never rejected").
"""
import re

from vlib import monitors

PROP = 'C11'
TITLE = 'TemplateError with exact location'
LEVEL = 'exploration'
SHARDS = {'quick': 16, 'thorough': 16}
FLOOR = {'quick': 150, 'thorough': 400}
REQUIRED_MONITORS = {'M-err': 2000, 'M-tokalg': 10000, 'planted': 2000, 'valid-compiled': 1000, 'M-crash': 2000, 'file-version-uses': 1000}
RULE = ('a case = (site kind, fault kind, surroundings); surroundings randomise the number of list parts before/after, '
        '";;" escapes, entities and string literals in neighbouring parts, leading text (newlines, tabs, non-ASCII, '
        'comments, elements), tag layout (single line / attributes on separate lines), and the invalid expression itself '
        '(7 spellings incl. non-ASCII). Every case plants a fault, so every case is non-trivial; distinct by (site kind, '
        'fault kind, what precedes the site inside the same attribute: separator / ;; / entity / newline / non-ASCII, '
        'position class first/middle/last).')
ASSUMPTIONS = ['for invalid-expression faults the offending substring is the expression text as written (leading/trailing '
               'blanks excluded); for language errors the token must be an aligned substring lying inside the offending '
               'attribute or tag']

BADS = ['bad7 +', '1 +', '(a', 'a b', 'x[', 'é +', 'lambda', 'a ++ ', "d['k'", 'not',
        # invalid expressions spanning lines: the token must still be the source substring
        '(a\n   b', '1 +\n  2 +', 'a\n b',
        # ... whose brackets an added outer pair would balance, or that only parse inside brackets
        'a) * (b +\n c', '1), (2,\n 3', 'n * n\n for n in (1, 2)', ']\n+ [']
GOODS = ['1', "'s'", 'a', "';;'", "'&amp;'", "'&lt;b&gt;'", 'x or 1', "d['k']", "'é'", "a ;; b" if False else "'x;;y'", '(1, 2)',
         "len('ab')",
         # valid expressions written over several lines (a line break inside a literal is a blank)
         "'one\ntwo'", '(1,\n 2)', 'x or\n 1', "len('a\n\nb')"]


class Case:
    pass


def gen_lead(rng):
    return rng.choice(['', '\n', 'é\n  ', '<b>t</b>\n\t', '<!-- c -->', 'line1\nline2\n   ', '日本 ', '<i a="1"\n b="2">x</i>',
                       # characters str.splitlines() takes for line boundaries (template lines end at \n only)
                       'a\x0cb\n ', 'x\u2028y ', 'n\x85m\n\t', 'p\x1cq\x1d\n',
                       # valid constructs whose compilation opens and closes internal state before the fault is met
                       '<span i18n:translate=""></span>\n', '<span i18n:translate=""/><em i18n:translate=""><!--! c --></em> ',
                       '<u metal:define-macro="lead"><span i18n:translate=""></span></u>\n ',
                       '<div tal:switch="2"><i tal:case="2"/></div><div meta:interpolation="false">${x}</div>',
                       '<div tal:on-error="string:e" tal:repeat="q ()"><i tal:omit-tag="">t</i></div> '])


def expr_sites(rng, E):
    """(kind, source with the marker E where the planted text goes).  E is a unique marker string."""
    good = lambda: rng.choice(GOODS)
    n, m = rng.randint(0, 3), rng.randint(0, 2)
    sep = lambda: rng.choice(['; ', ';', ' ; ', ';\n      '])
    pre = [('v%d %s' % (i, good())) for i in range(n)]
    post = [('w%d %s' % (i, good())) for i in range(m)]
    dl = ''
    for p in pre:
        dl += p + sep()
    dl += rng.choice(['p ', 'local p ', 'global p ', '(p, q) ']) + E
    for p in post:
        dl += sep() + p
    apre = [('a%d %s' % (i, good())) for i in range(n)]
    apost = [('b%d %s' % (i, good())) for i in range(m)]
    al = ''
    for p in apre:
        al += p + sep()
    al += 'p ' + E
    for p in apost:
        al += sep() + p
    lead = gen_lead(rng)
    sites = [
        ('define', '<p tal:define="%s">x</p>' % dl),
        ('attributes', '<p tal:attributes="%s">x</p>' % al),
        ('content', '<p tal:content="%s">x</p>' % E),
        ('content-structure', '<p tal:content="structure %s">x</p>' % E),
        ('content-text', '<p tal:content="text  %s">x</p>' % E),
        ('replace', '<p tal:replace="  %s ">x</p>' % E),
        ('condition', '<p tal:condition="%s">x</p>' % E),
        ('repeat', '<p tal:repeat="i %s">x</p>' % E),
        ('repeat-tuple', '<p tal:repeat="(i, j) %s">x</p>' % E),
        ('omit-tag', '<p tal:omit-tag="%s">x</p>' % E),
        ('switch', '<p tal:switch="%s">x</p>' % E),
        ('case', '<p tal:switch="1"><b tal:case="%s">x</b></p>' % E),
        ('pipe-last', '<p tal:content="a | %s">x</p>' % E),
        ('pipe-first', '<p tal:content="%s | a">x</p>' % E),
        ('not', '<p tal:content="not: %s">x</p>' % E),
        ('exists-not', '<p tal:condition="not:exists: %s">x</p>' % E),
        ('python-prefix', '<p tal:content="python: %s">x</p>' % E),
        ('string', '<p tal:content="string:a ${%s} ${%s} b">x</p>' % (good(), E)),
        ('text', '<p>%s ${%s} t ${%s} u</p>' % (rng.choice(['', '&amp;', '$$', 'é', 'l1\nl2']), good(), E)),
        ('text-first', '<p>${%s}</p>' % E),
        ('attr-interp', '<p class="%s ${%s}" id=\'${%s}\'>x</p>' % (rng.choice(['', '&amp;', 'é']), E,
                                                                   good().replace("'", '"'))),
        ('attr-interp-sq', "<p class='${%s} ${%s}'>x</p>" % (good().replace("'", '"'), E)),
        ('multiline-tag', '<p\n   class="c"\n   tal:content="%s"\n>x</p>' % E),
        ('multiline-define', '<p tal:define="v0 1;\n      p %s">x</p>' % E),
        ('i18n-target', '<p i18n:target="%s">x</p>' % E),
        ('on-error', '<p tal:on-error="%s">x</p>' % E),
        ('use-macro', '<p metal:use-macro="%s">x</p>' % E),
        ('namespace-element', '<tal:block content="%s">x</tal:block>' % E),
        ('comment-interp', '<!-- c ${%s} d -->' % E),
        ('cdata-interp', '<![CDATA[ c ${%s} d ]]>' % E),
        ('data-attribute', '<p data-tal-content="%s">x</p>' % E),
        ('pi-interp', '<p><?php echo ${%s} ?></p>' % E),
        ('pi-interp-second', '<p>\n <?xml-stylesheet href="${%s}" type="${%s}"?></p>' % (good().replace('"', "'"), E)),
    ]
    kind, body = rng.choice(sites)
    tail = rng.choice(['', '\n', '<p>after</p>'])
    return kind, lead + body + tail


LANG_FAULTS = [
    # (kind, source, regex locating the offending construct: the token must lie inside match group 1)
    ('unknown-tal-statement', '<p tal:foo="1">x</p>', r'<p (tal:foo="1")'),
    ('unknown-metal-statement', '<p metal:foo="1">x</p>', r'<p (metal:foo="1")'),
    ('unknown-i18n-statement', '<p i18n:foo="1">x</p>', r'<p (i18n:foo="1")'),
    ('statement-of-another-namespace', '<p tal:translate="">x</p>', r'<p (tal:translate="")'),
    ('statement-of-another-namespace', '<p tal:domain="d">x</p>', r'<p (tal:domain="d")'),
    ('statement-of-another-namespace', '<p tal:name="n">x</p>', r'<p (tal:name="n")'),
    ('statement-of-another-namespace', '<p tal:fill-slot="s">x</p>', r'<p (tal:fill-slot="s")'),
    ('statement-of-another-namespace', '<p tal:use-macro="m">x</p>', r'<p (tal:use-macro="m")'),
    ('statement-of-another-namespace', '<p tal:define-macro="m">x</p>', r'<p (tal:define-macro="m")'),
    ('statement-of-another-namespace', '<p i18n:content="x">x</p>', r'<p (i18n:content="x")'),
    ('statement-of-another-namespace', '<p i18n:repeat="a b">x</p>', r'<p (i18n:repeat="a b")'),
    ('statement-of-another-namespace', '<p i18n:on-error="x">x</p>', r'<p (i18n:on-error="x")'),
    ('statement-of-another-namespace', '<p i18n:define="a 1">x</p>', r'<p (i18n:define="a 1")'),
    ('statement-of-another-namespace', '<p i18n:define-macro="m">x</p>', r'<p (i18n:define-macro="m")'),
    ('statement-of-another-namespace', '<p i18n:case="1">x</p>', r'<p (i18n:case="1")'),
    ('statement-of-another-namespace', '<p metal:define="a 1">x</p>', r'<p (metal:define="a 1")'),
    ('statement-of-another-namespace', '<p metal:condition="x">x</p>', r'<p (metal:condition="x")'),
    ('statement-of-another-namespace', '<p metal:translate="">x</p>', r'<p (metal:translate="")'),
    ('statement-of-another-namespace', '<p metal:attributes="a 1">x</p>', r'<p (metal:attributes="a 1")'),
    ('statement-of-another-namespace', '<p metal:name="n">x</p>', r'<p (metal:name="n")'),
    ('statement-of-another-namespace', '<tal:block translate="">x</tal:block>', r'<tal:block (translate="")'),
    ('statement-of-another-namespace', '<i18n:block content="x">x</i18n:block>', r'<i18n:block (content="x")'),
    ('statement-of-another-namespace', '<metal:block define="a 1">x</metal:block>', r'<metal:block (define="a 1")'),
    # tokens that begin with a line break, white-space-only list items
    ('bad-define-part-after-newline', '<p tal:define="a 1;\n   1x 2">x</p>', r'(tal:define="[^"]*")'),
    ('duplicate-attribute-after-newline', '<p tal:attributes="a 1;\n a 3">x</p>', r'(tal:attributes="[^"]*")'),
    ('attributes-on-tal-element-newline', '<tal:block attributes="\n a 1">x</tal:block>', r'(<tal:block [^>]*>)'),
    ('fill-slot-without-use-macro-newline', '<p metal:fill-slot="\n s">x</p>', r'(metal:fill-slot="\n s")'),
    ('bad-i18n-attributes-after-newline', '<p i18n:attributes="title;\n a b c">x</p>', r'(i18n:attributes="[^"]*")'),
    ('blank-i18n-attributes-item', '<p i18n:attributes="title; ">x</p>', r'(i18n:attributes="[^"]*")'),
    ('blank-i18n-attributes-item-middle', '<p i18n:attributes="title m; ; alt">x</p>', r'(i18n:attributes="[^"]*")'),
    ('blank-i18n-attributes-item-newline', '<p title="t" i18n:attributes="title;\n">x</p>', r'(i18n:attributes="[^"]*")'),
    ('bad-repeat-after-newline', '<p tal:repeat="\n 1x y">x</p>', r'(tal:repeat="[^"]*")'),
    ('content-and-replace', '<p tal:content="a" tal:replace="b">x</p>', r'(<p [^>]*>)'),
    ('case-without-switch', '<p tal:case="1">x</p>', r'(tal:case="1")'),
    ('bad-define-syntax', '<p tal:define="1x 2">x</p>', r'(tal:define="1x 2")'),
    ('bad-define-empty-part', '<p tal:define="a 1; ; b 2">x</p>', r'(tal:define="[^"]*")'),
    ('reserved-name-define', '<p tal:define="econtext 1">x</p>', r'(tal:define="econtext 1")'),
    ('reserved-name-repeat', '<p tal:repeat="rcontext xs">x</p>', r'(tal:repeat="rcontext xs")'),
    ('double-underscore-define', '<p tal:define="__x 1">x</p>', r'(tal:define="__x 1")'),
    ('duplicate-attribute', '<p tal:attributes="a 1; b 2; a 3">x</p>', r'(tal:attributes="[^"]*")'),
    ('fill-slot-without-use-macro', '<p metal:fill-slot="s">x</p>', r'(metal:fill-slot="s")'),
    ('define-macro-and-fill-slot', '<p metal:use-macro="m"><b metal:define-macro="m2" metal:fill-slot="s">x</b></p>', r'(<b [^>]*>)'),
    ('empty-fill-slot', '<p metal:use-macro="m"><b metal:fill-slot=" ">x</b></p>', r'(metal:fill-slot=" ")'),
    ('bad-interpolation-setting', '<p meta:interpolation="maybe">x</p>', r'(meta:interpolation="maybe")'),
    ('bad-i18n-attributes', '<p i18n:attributes="a b c">x</p>', r'(i18n:attributes="a b c")'),
    ('i18n-name-duplicate', '<p i18n:translate=""><b i18n:name="n">1</b><b i18n:name="n">2</b></p>', r'(<p .*</p>)'),
    ('stray-end-tag', '<p>x</p></q>', r'(</q>)'),
    ('stray-end-tag-only', '</p>', r'(</p>)'),
    ('double-hyphen-in-comment', '<!-- a -- b -->', r'(<!-- a -- b -->)'),
    ('attributes-on-tal-element', '<tal:block attributes="a 1">x</tal:block>', r'(<tal:block [^>]*>)'),
    ('tal-script', '<p tal:script="x">x</p>', r'(tal:script="x")'),
    # a missing expression: the (empty) token must still stand inside the offending attribute
    ('empty-define-part', '<p tal:define="x 1; a ">x</p>', r'tal:define="x 1; a( )"'),
    ('empty-content', '<p tal:content="">x</p>', r'tal:content=("")'),
    ('empty-replace-structure', '<p tal:replace="structure ">x</p>', r'tal:replace="structure( ")'),
    ('empty-repeat', '<p tal:repeat="item ">x</p>', r'tal:repeat="item( ")'),
    ('empty-condition', '<p tal:condition="">x</p>', r'tal:condition=("")'),
    ('empty-on-error', '<p tal:on-error="">x</p>', r'tal:on-error=("")'),
    ('repeat-with-two-parts', '<p tal:repeat="a b; c d">x</p>', r'(tal:repeat="a b; c d")'),
    ('unknown-expression-type', '<p tal:content="nosuch: x">x</p>', r'(tal:content="nosuch: x")'),
    ('unknown-expression-type-interpolation', '<p>${nosuch: x}</p>', r'(\$\{nosuch: x\})'),
    # reserved names at non-local binding sites
    ('reserved-global-define', '<p tal:define="global __x 1">x</p>', r'global (__x) 1'),
    ('reserved-global-define-second', '<p tal:define="a 1; global econtext 2">x</p>', r'global (econtext) 2'),
    ('reserved-global-tuple', '<p tal:define="global (b, rcontext) (1, 2)">x</p>', r'\(b, (rcontext)\)'),
    ('reserved-global-repeat', '<p tal:repeat="global __z (1,)">x</p>', r'global (__z) '),
    ('reserved-tuple-define', '<p tal:define="(b, __y) (1, 2)">x</p>', r'\(b, (__y)\)'),
    ('content-with-translate-id', '<p tal:content="a" i18n:translate="id">x</p>', r'(<p [^>]*>)'),
    ('name-outside-translation', '<p><b i18n:name="n">x</b></p>', r'(<b [^>]*>)'),
    ('name-outside-translation-after-block', '<p i18n:translate="">a <i i18n:name="m">1</i></p><p><b i18n:name="n">x</b></p>', r'(<b [^>]*>)'),
    ('name-in-macro-outside-translation', '<div metal:define-macro="m"><b i18n:name="n">x</b></div>', r'(<b [^>]*>)'),
]


def line_col(src, off):
    return src.count('\n', 0, off) + 1, off - (src.rfind('\n', 0, off) + 1)


def preceding_features(src, off):
    """What stands between the start of the attribute value and the planted text."""
    q = max(src.rfind('="', 0, off), src.rfind("='", 0, off))
    seg = src[q + 2:off] if q >= 0 else ''
    f = []
    if ';;' in seg:
        f.append(';;')
    if re.search(r'&#?\w+;', seg):
        f.append('entity')
    if re.sub(r'&#?\w+;', '', seg.replace(';;', '')).count(';'):
        f.append('sep')
    if '\n' in seg:
        f.append('newline')
    if any(ord(c) > 127 for c in src[:off]):
        f.append('non-ascii-before')
    return tuple(f), seg


def predicted_drift(seg):
    """Alternate model of the known mechanism: a TAL/METAL attribute value is entity-decoded as a
    whole, and ';;' collapsed to one character, *before* the list is split, so the position of a
    later part is computed in the transformed string: it is short by (len(entity) - 1) for every
    entity and by 1 for every ';;' standing before it in the same attribute value."""
    import html
    drift = 0
    for m in re.finditer(r'&(#?)(x?)(\d{1,5}|\w{1,8});', seg):
        dec = html.unescape(m.group())
        if dec != m.group():
            drift -= len(m.group()) - len(dec)
    decoded = re.sub(r'&(#?)(x?)(\d{1,5}|\w{1,8});', lambda m: html.unescape(m.group()), seg)
    drift -= decoded.count(';;')
    return drift


def run(ctx):
    monitors.install(ctx)
    from chameleon import PageTemplate
    from chameleon.exc import TemplateError
    rng = ctx.rng
    n = 1000 if ctx.quick else 6000
    E = '\x01E\x01'
    for i in range(n):
        # ---- invalid expression planted at a site
        kind, tpl = expr_sites(rng, E)
        bad = rng.choice(BADS)
        good = rng.choice(GOODS)
        if kind == 'attr-interp-sq':
            good = good.replace("'", '"')
            if "'" in bad:
                bad = 'bad7 +'
        src = tpl.replace(E, bad)
        off = tpl.index(E)
        feats, seg = preceding_features(src, off)
        cfg = {'enable_data_attributes': True} if kind == 'data-attribute' else {}
        # the valid variant must compile
        vsrc = tpl.replace(E, good)
        try:
            PageTemplate(vsrc, **cfg)
            ctx.mon('valid-compiled')
        except Exception as e:
            ctx.violation('valid-template-rejected:' + type(e).__name__,
                          'valid template %r rejected: %s: %s' % (vsrc, type(e).__name__, str(e).split('\n')[0]),
                          {'kind': 'valid', 'src': vsrc, 'cfg': cfg})
        ctx.mon('planted')
        ctx.cover('site', kind)
        res = None
        try:
            PageTemplate(src, **cfg)
            res = ('no-error', None)
        except TemplateError as e:
            problem = monitors.check_template_error(e, src)
            tok = str(e.token)
            want = bad.strip()
            woff = off + (len(bad) - len(bad.lstrip()))
            if problem:
                res = ('misaligned', problem)
            elif tok != want or e.offset != woff:
                res = ('wrong-substring', 'token %r at %d, planted %r at %d' % (tok, e.offset, want, woff))
            elif tuple(e.location) != line_col(src, woff):
                res = ('wrong-line-col', '%r != %r' % (e.location, line_col(src, woff)))
            # classification of the known drift mechanism
            if res is not None and kind in ('define', 'attributes', 'multiline-define', 'string') and \
                    (';;' in feats or 'entity' in feats) and tok == want and \
                    predicted_drift(seg) != 0 and e.offset == woff + predicted_drift(seg):
                res = ('KNOWN-drift', res[1])
        except Exception as e:
            res = ('non-template-error', '%s: %s' % (type(e).__name__, str(e).split('\n')[0][:100]))
        if res is None and '\n' in src and not src.startswith('<?xml') and rng.random() < .4:
            # the same template saved with CRLF / CR line endings: outside XML mode it is read as the LF text, and the
            # error describes that text (token, offset, line and column as for the LF version)
            le = rng.choice(['\r\n', '\r'])
            try:
                PageTemplate(src.replace('\n', le), **cfg)
                res = ('no-error-with-%s-line-endings' % ('CRLF' if le == '\r\n' else 'CR'), None)
            except TemplateError as e:
                ctx.mon('line-ending-variants')
                problem = monitors.check_template_error(e, src)
                woff = off + (len(bad) - len(bad.lstrip()))
                if problem or str(e.token) != bad.strip() or e.offset != woff or tuple(e.location) != line_col(src, woff):
                    res = ('misaligned-with-%s-line-endings' % ('CRLF' if le == '\r\n' else 'CR'),
                           problem or 'token %r at %d %r, expected %r at %d %r' % (str(e.token), e.offset, tuple(e.location), bad.strip(), woff, line_col(src, woff)))
            except Exception as e:
                res = ('non-template-error', '%s: %s' % (type(e).__name__, str(e).split('\n')[0][:100]))
        ctx.case(key=('expr', kind, feats, 'bad:' + bad[:3]), nontrivial=True,
                 sample={'source': src, 'planted': bad, 'offset': off, 'result': res} if i < 2 else None)
        if res is not None:
            if res[0] == 'KNOWN-drift':
                key = 'offset-drift-after-entity-or-escaped-semicolon-in-list'
            else:
                key = 'expr-%s-at-%s' % (res[0], kind)
            ctx.violation(key, 'planted %r at offset %d (site %s, preceded by %r) in %r: %s' % (
                bad, off, kind, feats, src, res[1]), {'kind': 'expr', 'src': src, 'bad': bad, 'off': off, 'cfg': cfg})

        # ---- language errors
        lk, lsrc, locre = rng.choice(LANG_FAULTS)
        lead = gen_lead(rng)
        lcfg = {}
        if rng.random() < .3:
            # the same fault with its statements written as data-<prefix>-<name> attributes (option enable_data_attributes)
            respell = lambda t: re.sub(r'(?<![<\w/])(tal|metal|i18n|meta):([a-z]+(?:-[a-z]+)*)=', r'data-\1-\2=', t)
            dsrc, dre = respell(lsrc), respell(locre)
            if dsrc != lsrc and re.search(dre, dsrc, re.S):
                lk, lsrc, locre, lcfg = lk + ':data-spelling', dsrc, dre, {'enable_data_attributes': True}
        full = lead + lsrc + rng.choice(['', '\n<p>z</p>'])
        # the construct is located inside the faulty part itself (the lead may hold valid constructs of the same kind)
        m = re.search(locre, lsrc, re.S)
        lo, hi = m.span(1)
        lo, hi = lo + len(lead), hi + len(lead)
        ctx.mon('planted')
        ctx.cover('site', 'lang:' + lk)
        res = None
        try:
            PageTemplate(full, **lcfg)
            res = ('no-error', None)
        except TemplateError as e:
            problem = monitors.check_template_error(e, full)
            if problem:
                res = ('misaligned', problem)
            elif not (lo <= e.offset and e.offset + len(e.token) <= hi):
                res = ('outside-construct', 'token %r at %d, construct spans %d..%d' % (str(e.token), e.offset, lo, hi))
        except Exception as e:
            res = ('non-template-error', '%s: %s' % (type(e).__name__, str(e).split('\n')[0][:100]))
        ctx.case(key=('lang', lk, bool(lead)), nontrivial=True)
        if res is not None and lk.startswith('unknown-expression-type') and res[0] == 'non-template-error' \
                and res[1].startswith('LookupError: Unknown expression type'):
            ctx.violation('unknown-expression-type-raises-LookupError', 'language error %s in %r: %s' % (lk, full, res[1]),
                          {'kind': 'lang', 'src': full, 'cfg': lcfg})
        elif res is not None:
            ctx.violation('lang-%s-%s' % (lk, res[0]), 'language error %s in %r: %s' % (lk, full, res[1]),
                          {'kind': 'lang', 'src': full, 'cfg': lcfg})
    layer_smoke(ctx, 700 if ctx.quick else 5000)
    layer_garbage_arguments(ctx, 1000 if ctx.quick else 8000)
    layer_file_versions(ctx, 60 if ctx.quick else 400)



def layer_file_versions(ctx, n):
    """The template is a file under auto_reload whose versions alternate between valid texts and texts with a
    language error: EVERY use (render, macros, cook_check) of an erroneous version raises the located TemplateError for
    the text the file has now - also the second and third use after the edit - and every use of a valid version works."""
    import os
    import shutil
    import tempfile
    from chameleon import PageTemplateFile
    from chameleon.exc import TemplateError
    rng = ctx.rng
    tmp = tempfile.mkdtemp(prefix='c11f_')
    try:
        for case in range(n):
            path = os.path.join(tmp, 'f%d.pt' % case)
            mtime = 1_000_000
            t = None
            hist = []
            for step in range(rng.randint(2, 5)):
                faulty = rng.random() < .55
                if faulty:
                    lk, lsrc, locre = rng.choice(LANG_FAULTS)
                    text = gen_lead(rng) + lsrc
                else:
                    lk, text = 'valid', gen_lead(rng) + '<p tal:content="%s">v%d</p>' % (rng.choice(GOODS).replace('"', "'"), step)
                with open(path, 'w', encoding='utf-8') as f:
                    f.write(text)
                mtime += rng.choice([1, 5, -3])
                os.utime(path, (mtime, mtime))
                hist.append('write(%s)' % lk)
                if t is None:
                    t = PageTemplateFile(path, auto_reload=True)
                for use in range(rng.randint(1, 3)):
                    how = rng.choice(['render', 'render', 'macros', 'cook_check'])
                    hist.append(how)
                    res = None
                    try:
                        if how == 'render':
                            t(a=1, x=1, d={'k': 1})
                        elif how == 'macros':
                            t.macros.names
                        else:
                            t.cook_check()
                        if faulty:
                            res = 'no error although the file now holds a template with a language error (%s)' % lk
                    except TemplateError as e:
                        if not faulty:
                            res = 'valid version rejected: %s' % str(e).split('\n')[0][:100]
                        else:
                            ctx.mon('M-err')
                            src_now = text.replace('\r\n', '\n').replace('\r', '\n')
                            problem = monitors.check_template_error(e, src_now)
                            if problem:
                                res = 'error of the current version misaligned: %s' % problem
                    except Exception as e:
                        if faulty or how != 'render':
                            res = '%s: %s' % (type(e).__name__, str(e).split('\n')[0][:100])
                    ctx.mon('file-version-uses')
                    if res:
                        ctx.violation('file-version-with-language-error-not-rejected-on-every-use' if faulty else 'file-version-valid-but-fails',
                                      'history %r on an auto_reload file template, current text %r: %s' % (hist, text, res),
                                      {'kind': 'filever', 'hist': hist})
                        break
            ctx.case(key=('filever', tuple(h for h in hist)), nontrivial=any(h.startswith('write(') and h != 'write(valid)' for h in hist))
    finally:
        shutil.rmtree(tmp, ignore_errors=True)


SMOKE_ATTRS = [
    'tal:define="v 1"', 'tal:define="global g 2; w v|3"', 'tal:condition="c"', 'tal:repeat="i xs"', 'tal:content="t"', 'tal:replace="t"',
    'tal:content="structure t"', 'tal:omit-tag=""', 'tal:omit-tag="c"', 'tal:attributes="title t; class c"', 'tal:attributes="d"',
    'tal:switch="c"', 'tal:case="1"', 'tal:case="default"', 'tal:on-error="string:ERR"', 'i18n:translate=""', 'i18n:translate="mid"',
    'i18n:name="n1"', 'i18n:name="n2"', 'i18n:domain="dom"', 'i18n:context="ctx"', 'i18n:target="\'de\'"', 'i18n:attributes="title"',
    'metal:define-macro="m1"', 'metal:define-macro="m2"', 'metal:use-macro="template.macros[\'m1\']"',
    'metal:use-macro="lib.macros[\'L\']"', 'metal:define-slot="s"', 'metal:fill-slot="s"', 'metal:extend-macro="lib.macros[\'L\']"',
    'meta:interpolation="false"', 'tal:content="string:${t} $$ x"', 'tal:replace="structure t"', 'tal:define="(a, b) (1, 2)"',
    'tal:repeat="(k, v) d.items()"', 'tal:attributes="checked c; d"', 'tal:condition="not: c"', 'tal:condition="exists: zz"',
    'tal:content="zz | t"', 'tal:on-error="structure t"', 'i18n:translate="" tal:content="t"', 'tal:comment="note"',
    'tal:define="x repeat.i.index|0"', 'xml:lang="en"', 'tal:attributes="class default; title None"', 'title="T ${t}"', 'class="k"',
    'checked="${c}"',
]


GARBAGE_STMTS = ['tal:define', 'tal:condition', 'tal:repeat', 'tal:content', 'tal:replace', 'tal:omit-tag', 'tal:attributes', 'tal:switch',
                 'tal:case', 'tal:on-error', 'i18n:translate', 'i18n:name', 'i18n:domain', 'i18n:context', 'i18n:target', 'i18n:attributes',
                 'i18n:data', 'i18n:comment', 'metal:define-macro', 'metal:use-macro', 'metal:define-slot', 'metal:fill-slot',
                 'metal:extend-macro', 'meta:interpolation']
GARBAGE_ARGS = ['', ' ', ';', ';;', 'a', 'a b', '(a, b) c', '(a,) c', '() c', 'global', 'global x', 'local x 1', 'structure', 'text', 'text a', '|',
                'a |', '| a', '${', '${a}', 'python:', 'python: 1', 'string:', 'string:${', 'not:', 'exists:', 'import:', 'import: os', 'load:',
                'load: x', '1 2 3', 'x y; ; z w', 'nothing', 'default', 'a-b', 'a-b 1', 'a.b c', '\xe9', '\xe9 1', 'x \xe9', '$', '$$', "'",
                'a;b', 'a ;; b', '(', ')', '(a', 'a)', ',', 'a,b c', '(a-b, c) d', 'repeat', 'repeat x', 'attrs', 'template', 'macros',
                'x 1;x 2', 'global x 1; x 2', 'global a-b 1', 'x:y 1', ':', 'x:', ':y 1', '&amp;', '&', 'a &amp;&amp; b', 'x\n1', '\n', '\t',
                'x lambda: 1', 'true', 'false', 'on', 'off']


def decoded_match(src, off, tok):
    """Does the source text at off, entity-decoded (terminated references only; ';;' optionally collapsed), read tok?"""
    from vlib import exprs
    if src[off:off + len(tok)] == tok:
        return 'exact'
    window = src[off:off + 8 * len(tok) + 8]
    if '&' not in window and ';;' not in window:
        return None
    for k in range(len(tok), len(tok) + 8 * window.count('&') + window.count(';;') + 1):
        dec = exprs.decode_terminated(src[off:off + k])
        if tok in (dec, dec.replace(';;', ';')):
            return 'decoded'
    return None


def entity_decoded_token_explains(e, src):
    """Known mechanism (same root as the offset drift): attribute values are entity-decoded before they are
    parsed, so an error token that was WRITTEN with character entities is reported in its decoded form.  Holds iff
    the source text at the reported offset decodes to exactly the token."""
    return decoded_match(src, e.offset, str(e.token)) == 'decoded' and tuple(e.location) == line_col(src, e.offset)


def drift_explains(e, src):
    """The recorded drift mechanism: the token stands d characters further right, d being what the entities and
    ';;' escapes written before it in the same attribute value predict (the token itself may, in addition, be
    reported in its decoded form)."""
    tok = str(e.token)
    for d in range(1, 40):
        true_off = e.offset + d
        if not decoded_match(src, true_off, tok):
            continue
        feats, seg = preceding_features(src, true_off)
        if predicted_drift(seg) == -d:
            return True
    return False


def layer_garbage_arguments(ctx, n):
    """M-crash: every statement with arbitrary argument text (and random pairs of them).  Whatever the argument,
    compilation either succeeds or raises a TemplateError that is aligned with the source - never an internal
    error such as a SyntaxError from generated code."""
    from chameleon import PageTemplate
    from chameleon.exc import TemplateError
    import warnings
    rng = ctx.rng
    for i in range(n):
        k = rng.choice([1, 1, 2])
        attrs = ' '.join('%s="%s"' % (st, ''.join(rng.choice(GARBAGE_ARGS) for _ in range(rng.randint(1, 2))))
                         for st in rng.sample(GARBAGE_STMTS, k))
        wrap = rng.choice(['%s', '<div tal:switch="1">%s</div>', '<div metal:use-macro="m">%s</div>', '<div i18n:translate="">%s</div>',
                           'line\n  <b>t</b> %s'])
        src = wrap % ('<p %s>x</p>' % attrs)
        ctx.mon('M-crash')
        try:
            with warnings.catch_warnings():
                warnings.simplefilter('ignore')
                PageTemplate(src)
            res = 'compiled'
        except TemplateError as e:
            res = 'TemplateError'
            problem = monitors.check_template_error(e, src)
            if problem:
                key = 'garbage-argument-template-error-misaligned'
                if entity_decoded_token_explains(e, src):
                    key = 'token-of-expression-written-with-entities-is-the-decoded-text'
                elif drift_explains(e, src):
                    key = 'offset-drift-after-entity-or-escaped-semicolon-in-list'
                ctx.violation(key, 'compiling %r: %s: %s' % (src, type(e).__name__, problem), {'kind': 'valid', 'src': src, 'cfg': {}})
        except Exception as e:
            res = 'crash'
            msg = '%s: %s' % (type(e).__name__, str(e).split('\n')[0][:80])
            key = 'garbage-argument-crash-' + type(e).__name__
            if isinstance(e, AssertionError) and case_cut_off_from_its_switch(src):
                key = 'compiler-crash-case-in-macro-below-switch'
            ctx.violation(key, 'compiling %r raised %s' % (src, msg), {'kind': 'valid', 'src': src, 'cfg': {}})
        ctx.cover('garbage-outcome', res)
        ctx.case(key=('garbage', res, tuple(sorted(a.split('=')[0] for a in attrs.split('" ')))), nontrivial=True)


def case_cut_off_from_its_switch(src):
    """Structural classifier of the known mechanism (shared with C09): some tal:case element is, or lies inside, a
    metal:define-macro / metal:fill-slot element that stands below (or on) the element of the nearest tal:switch - a
    boundary of the generated code separates the case from its switch."""
    stack = []
    for m in re.finditer(r'<(/?)([\w:.-]+)((?:[^>"\']|"[^"]*"|\'[^\']*\')*?)(/?)>', src):
        close, tag, attrs, selfclose = m.groups()
        if close:
            while stack and stack.pop()[0] != tag:
                pass
            continue
        names = set(re.findall(r'([\w:-]+)\s*=', attrs))
        if tag.startswith('tal:'):
            names |= {'tal:' + n for n in names if ':' not in n}
        if tag.startswith('metal:'):
            names |= {'metal:' + n for n in names if ':' not in n}
        entry = (tag, names)
        if 'tal:case' in names:
            boundary = bool(names & {'metal:define-macro', 'metal:fill-slot'})
            for t, ns in reversed(stack):
                if 'tal:switch' in ns:
                    if boundary:
                        return True
                    break
                if ns & {'metal:define-macro', 'metal:fill-slot'}:
                    boundary = True
        if not selfclose:
            stack.append(entry)
    return False


def smoke_gen(rng, depth):
    attrs = rng.sample(SMOKE_ATTRS, rng.choice([0, 1, 1, 2, 2, 3, 4]))
    kids = ''
    for _ in range(rng.randint(0, 3)):
        kids += smoke_gen(rng, depth + 1) if depth < 3 and rng.random() < .55 else rng.choice(
            ['txt ', '${t} ', '\n  ', '${c} x', '<!-- ${t} -->', '<![CDATA[${t}]]>', '<?python q = 1 ?>', '<?php ${t} and ${c} ?>', '<?x-y ${t}?>', '<!--! x -->', '$${t}',
             '&amp;${structure: t}', '<br/>', '<input checked />'])
    tag = rng.choice(['div', 'p', 'tal:block', 'metal:block', 'span'])
    return '<%s %s>%s</%s>' % (tag, ' '.join(attrs), kids, tag)


def layer_smoke(ctx, n):
    """M-crash: random mixes of ALL statement kinds (TAL x METAL x i18n x on-error x interpolation).  Whatever the
    mix, compilation either succeeds or raises a TemplateError - never an internal error of the compiler."""
    from chameleon import PageTemplate
    from chameleon.exc import TemplateError
    rng = ctx.rng
    for i in range(n):
        src = smoke_gen(rng, 0)
        ctx.mon('M-crash')
        try:
            PageTemplate(src)
            res = 'compiled'
        except TemplateError as e:
            problem = monitors.check_template_error(e, src)
            res = 'TemplateError'
            if problem:
                ctx.violation('smoke-template-error-misaligned', 'compiling %r: %s: %s' % (src[:300], type(e).__name__, problem),
                              {'kind': 'valid', 'src': src, 'cfg': {}})
        except RecursionError:
            res = 'RecursionError'
        except Exception as e:
            res = 'crash'
            msg = '%s: %s' % (type(e).__name__, str(e).split('\n')[0][:80])
            key = 'compiler-crash-' + type(e).__name__
            if isinstance(e, AttributeError) and "'_fields'" in msg and 'tal:on-error' in src and re.search(r'tal:attributes="[^"]*\bd\b', src):
                key = 'compiler-crash-on-error-with-dictionary-attributes'
            elif isinstance(e, AssertionError) and case_cut_off_from_its_switch(src):
                key = 'compiler-crash-case-in-macro-below-switch'
            elif isinstance(e, KeyError) and 'Undefined namespace prefix' in msg:
                res = 'undefined-prefix'
                key = None
            if key:
                ctx.violation(key, 'compiling %r raised %s' % (src[:400], msg), {'kind': 'valid', 'src': src, 'cfg': {}})
        ctx.cover('smoke-outcome', res)
        ctx.case(key=('smoke', res, len(src) // 40), nontrivial=True)


def replay(data):
    from chameleon import PageTemplate
    from chameleon.exc import TemplateError
    from vlib import shard, state
    state.CTX = shard.Ctx(PROP, 'quick', 0, 0, 1)
    src = data['src']
    try:
        PageTemplate(src, **data.get('cfg', {}))
        return data.get('kind') != 'valid', 'compiled without error: %r' % src
    except TemplateError as e:
        p = monitors.check_template_error(e, src)
        text = 'source %r\n%s: token %r offset %d location %r; alignment problem: %s' % (
            src, type(e).__name__, str(e.token), e.offset, e.location, p)
        if data.get('kind') == 'expr':
            ok = p is None and str(e.token) == data['bad'].strip() and e.offset == data['off']
            return not ok, text
        return bool(p) or data.get('kind') == 'valid', text
    except Exception as e:
        return True, 'source %r raised %s: %s' % (src, type(e).__name__, e)
