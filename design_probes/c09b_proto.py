"""Throw-away: METAL vs inlined, with TAL/variables inside macros and fillers, extend chains."""
import random, sys
sys.path.insert(0, '/repo/src')
from chameleon import PageTemplate
rng = random.Random(int(sys.argv[1]))
SLOTS = ['s1', 's2']
VARS = ['a', 'b', 'g']
PROBE = "[${a|'U'},${b|'U'},${g|'U'},${macroname|'-'}]"
class Macro:
    def __init__(s, name, items, extends=None, efills=None): s.name, s.items, s.extends, s.efills = name, items, extends, efills
# item kinds: ('text', t) ('probe',) ('slot', name, [items]) ('ldef', var, val, [items]) ('gdef', var, val) ('use', macro, {slot: [items]})
def gen_items(depth, allow_slot, others, tag):
    items = []
    for _ in range(rng.randint(1, 3)):
        k = rng.random()
        if k < .25: items.append(('probe',))
        elif k < .4 and allow_slot: items.append(('slot', rng.choice(SLOTS), gen_items(depth + 1, False, others, tag) if depth < 2 else [('text', 'D')]))
        elif k < .55 and depth < 2: items.append(('ldef', rng.choice(VARS[:2]), '%s%d' % (tag, rng.randint(1, 99)), gen_items(depth + 1, allow_slot, others, tag)))
        elif k < .65: items.append(('gdef', 'g', '%sG%d' % (tag, rng.randint(1, 99))))
        elif k < .8 and others and depth < 2:
            o = rng.choice(others)
            items.append(('use', o, {sl: gen_items(depth + 1, False, [], tag + 'f') for sl in SLOTS if rng.random() < .4}))
        else: items.append(('text', '%s-t%d' % (tag, rng.randint(1, 99))))
    return items
def ser_items(items):
    out = ''
    for it in items:
        if it[0] == 'text': out += it[1]
        elif it[0] == 'probe': out += PROBE
        elif it[0] == 'slot': out += '<i metal:define-slot="%s">%s</i>' % (it[1], ser_items(it[2]))
        elif it[0] == 'ldef': out += '<d tal:define="%s \'%s\'">%s</d>' % (it[1], it[2], ser_items(it[3]))
        elif it[0] == 'gdef': out += '<d tal:define="global %s \'%s\'"/>' % (it[1], it[2])
        elif it[0] == 'use':
            out += '<u metal:use-macro="lib.macros.%s">%s</u>' % (it[1].name, ''.join('<f metal:fill-slot="%s">%s</f>' % (sl, ser_items(b)) for sl, b in it[2].items()))
    return out
def ser_macro(m):
    return '<m metal:define-macro="%s">%s</m>' % (m.name, ser_items(m.items))
def inline_items(items, fillers):
    """fillers: dict slot -> already-inlined source of filler element (or absent)"""
    out = ''
    for it in items:
        if it[0] == 'text': out += it[1]
        elif it[0] == 'probe': out += PROBE
        elif it[0] == 'slot': out += fillers[it[1]] if it[1] in fillers else '<i>%s</i>' % inline_items(it[2], fillers)
        elif it[0] == 'ldef': out += '<d tal:define="%s \'%s\'">%s</d>' % (it[1], it[2], inline_items(it[3], fillers))
        elif it[0] == 'gdef': out += '<d tal:define="global %s \'%s\'"/>' % (it[1], it[2])
        elif it[0] == 'use':
            # fillers of this use are written in the *current* context: inline them with the current fillers (a filler may contain probes only here)
            sub = {sl: '<f>%s</f>' % inline_items(b, fillers) for sl, b in it[2].items()}
            out += inline_use(it[1], sub)
    return out
def inline_use(m, fillers):
    body = '<m>%s</m>' % inline_items(m.items, fillers)
    return '<tal:mn define="macroname \'%s\'">%s</tal:mn>' % ("lib.macros.%s" % m.name, body)
bad = n = shown = 0
for case in range(int(sys.argv[2])):
    macros = []
    for i in range(rng.randint(1, 3)):
        macros.append(Macro('m%d' % i, gen_items(0, True, macros[:], 'M%d' % i)))
    lib = '<lib>' + ''.join(ser_macro(m) for m in macros) + '</lib>'
    caller_items = gen_items(0, False, macros, 'C')
    if not any(it[0] == 'use' for it in caller_items): caller_items.append(('use', rng.choice(macros), {sl: [('text', 'CF'), ('probe',)] for sl in SLOTS if rng.random() < .5}))
    caller = '<x>' + ser_items(caller_items) + PROBE + '</x>'
    inl = '<x>' + inline_items(caller_items, {}) + PROBE + '</x>'
    env = rng.choice([{}, {'a': 'ENVa'}, {'b': 'ENVb', 'g': 'ENVg'}])
    n += 1
    try:
        libt = PageTemplate(lib)
        got = PageTemplate(caller)(lib=libt, **env)
    except Exception as e: got = 'ERR %s %s' % (type(e).__name__, str(e).split('\n')[0][:80])
    try: want = PageTemplate(inl)(lib=None, **env)
    except Exception as e: want = 'WERR %s %s' % (type(e).__name__, str(e).split('\n')[0][:80])
    # lib template rendering of define-macro in place is not involved
    if got != want:
        bad += 1
        if shown < 6: shown += 1; print('--- MISMATCH\n LIB', lib, '\n CALLER', caller, '\n INLINED', inl, '\n env', env, '\n want', want, '\n got ', got)
print('cases', n, 'bad', bad)
