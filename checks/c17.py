"""C17 — byte input is decoded by BOM / XML declaration / meta charset, then acts as str.

Decision-table workload: generated documents x encodings x BOM x XML-declaration
spellings x meta-charset spellings x default_encoding x string-/file-based class.
Oracle: an independent sniffing function (BOM -> declaration -> meta -> default)
written from the property statement; then render(bytes) == render(decoded str),
content_type / content_encoding report the decision, no U+FEFF in the output,
XML vs HTML mode effects (implicit boolean attributes, newline rewriting).
"""
import codecs
import os
import re
import shutil
import tempfile

from vlib import monitors

PROP = 'C17'
TITLE = 'byte input decoding'
LEVEL = 'exploration'
SHARDS = {'quick': 16, 'thorough': 16}
FLOOR = {'quick': 300, 'thorough': 900}
REQUIRED_MONITORS = {'compared': 1500, 'mode-effect-observed': 200}
RULE = ('cells of the table encoding{utf-8, utf-16-le/be, utf-32-le/be, utf-16 (own BOM), latin-1, cp1251, cp1252, shift_jis, '
        'koi8-r, iso-8859-15} x BOM{yes,no} x XML declaration{none, without encoding, with encoding in either quote, random '
        'spacing, extra pseudo-attributes} x meta{none, http-equiv/content in both orders, quotes "/\'/none, case varied, '
        'self-closing, extra whitespace, other meta elements before it} x default_encoding{utf-8, latin-1, cp1251} x '
        'class{PageTemplate(bytes), PageTemplateFile}; body generated per cell from pieces encodable in the cell\'s encoding '
        '(non-ASCII text and attribute values, boolean attribute, CR/CRLF, ${...}). A cell is judged only if the independent '
        'sniffer can determine the encoding from the bytes by the stated order; non-trivial iff the document has non-ASCII '
        'content; distinct by table cell.')
ASSUMPTIONS = ['Python codecs are the reference decoders',
               'cells whose bytes do not determine their encoding (e.g. latin-1 bytes, no BOM/declaration/meta, default utf-8) are counted, not judged']

BOMS = {'utf-8': codecs.BOM_UTF8, 'utf-16-le': codecs.BOM_UTF16_LE, 'utf-16-be': codecs.BOM_UTF16_BE,
        'utf-32-le': codecs.BOM_UTF32_LE, 'utf-32-be': codecs.BOM_UTF32_BE}
ENCS = ['utf-8', 'utf-16-le', 'utf-16-be', 'utf-32-le', 'utf-32-be', 'latin-1', 'cp1251', 'shift_jis', 'cp1252',
        'koi8-r', 'iso-8859-15', 'utf-8', 'utf-8']
WIDE = ('utf-16-le', 'utf-16-be', 'utf-32-le', 'utf-32-be')


def same_codec(a, b):
    try:
        na, nb = codecs.lookup(a).name, codecs.lookup(b).name
    except (LookupError, TypeError):
        return False
    strip = lambda n: n.replace('-sig', '').replace('_sig', '')
    na, nb = strip(na), strip(nb)
    if na == nb:
        return True
    fam = lambda n: re.sub(r'[-_](le|be)$', '', n)
    # 'utf-16' (BOM-directed) names the same decision as the explicit endianness the BOM selected
    return fam(na) == fam(nb) and (na == fam(na) or nb == fam(nb))


def sniff(raw, default):
    """Independent oracle, from the statement: BOM, then XML declaration, then meta, then default.
    Returns (encoding, is_xml, text)."""
    for enc in ('utf-32-le', 'utf-32-be', 'utf-8', 'utf-16-le', 'utf-16-be'):  # utf-32-le BOM begins with the utf-16-le BOM
        if raw.startswith(BOMS[enc]):
            text = raw[len(BOMS[enc]):].decode(enc)
            return enc, text.startswith('<?xml'), text
    for enc in WIDE:
        if raw.startswith('<?xml'.encode(enc)):
            return enc, True, raw.decode(enc)
    if raw.startswith(b'<?xml'):
        head = raw.split(b'?>', 1)[0]
        m = re.search(rb'encoding\s*=\s*["\']([\w\-]+)["\']', head)
        enc = m.group(1).decode('ascii') if m else default
        return enc, True, raw.decode(enc)
    a = raw.decode('ascii', 'ignore')
    for m in re.finditer(r'<meta\b([^>]*)>', a, re.I):
        attrs = {}
        inner = re.sub(r'/\s*$', '', m.group(1))        # the '/' of a self-closing tag is not part of an unquoted value
        for am in re.finditer(r'([\w\-]+)\s*=\s*(?:"([^"]*)"|\'([^\']*)\'|([^\s>]+))', inner):
            attrs[am.group(1).lower()] = next(g for g in am.groups()[1:] if g is not None)
        if attrs.get('http-equiv', '').lower() == 'content-type' and 'charset=' in attrs.get('content', '').lower():
            enc = attrs['content'].lower().split('charset=')[1].strip().rstrip('/ ').strip()
            return enc, False, raw.decode(enc)
    return default, False, raw.decode(default)


PIECES = ['<p class="é">ü', '€', 'Тест', '日本', ' plain ', '<input checked="${1}" disabled="disabled"/>', '\r\n', '\r',
          '<b title=\'ß\'>x</b>', '${"ÿ" + str(n)}', '&amp;&eacute;', '<!-- ç -->', 'ŠŽ', '<i lang="ru">жук</i>',
          '<input checked="${0}">', ' tail',
          # characters whose bytes differ between look-alike codecs (ISO 8859-1 vs windows-1252: 0x80-0x9F; 8859-1 vs -15: 0xA4 ...)
          '\x85\x93q\x94', '<b title="\x80\x9b">\x81\x8d</b>', '\xa4\xa6\xbc', '\u201cq\u201d \u2026']


def gen_body(rng, enc):
    out = []
    for _ in range(rng.randint(2, 7)):
        p = rng.choice(PIECES)
        try:
            p.encode(enc)
        except UnicodeEncodeError:
            continue
        out.append(p)
    body = ''.join(out) + '</p>' * sum(1 for p in out if p.startswith('<p'))
    return body or ' plain '


def gen_decl(rng, enc):
    k = rng.random()
    if k < .4:
        return None, 'none'
    sp = lambda: rng.choice(['', ' ', '  ', '\n', '\t'])
    q = rng.choice(['"', "'"])
    if k < .55:
        return '<?xml version=%s1.0%s%s?>' % (q, q, sp()), 'no-encoding'
    q2 = rng.choice(['"', "'"])
    encname = rng.choice([enc, enc.upper(), enc.replace('-', '_') if enc.startswith('iso') else enc])
    tail = rng.choice(['', ' standalone=%syes%s' % (q, q)])
    return ('<?xml version=%s1.0%s %sencoding%s=%s%s%s%s%s%s?>' % (q, q, sp(), sp(), sp(), q2, encname, q2, tail, sp()),
            'with-encoding')


LABELS = {'latin-1': ['ISO_8859-1:1987', 'iso-ir-100', 'l1', 'IBM819', 'ISO-8859-1', 'cp819'], 'cp1251': ['windows-1251'],
          'cp1252': ['windows-1252'], 'koi8-r': ['KOI8-R'], 'iso-8859-15': ['ISO_8859-15', 'latin-9', 'l9'],
          'shift_jis': ['Shift_JIS', 'MS_Kanji', 'csShiftJIS'], 'utf-8': ['UTF-8', 'utf8', 'U8']}


def gen_meta(rng, enc):
    k = rng.random()
    if k < .45:
        return None, 'none'
    q = rng.choice(['"', "'"])
    he = rng.choice(['http-equiv', 'HTTP-EQUIV', 'Http-Equiv'])
    ct = rng.choice(['Content-Type', 'content-type', 'CONTENT-TYPE'])
    cn = rng.choice(['content', 'CONTENT'])
    typ = rng.choice(['text/html', 'application/xhtml+xml', 'text/html'])
    sep = rng.choice(['; ', ';', ';  '])
    a1 = '%s=%s%s%s' % (he, q, ct, q)
    if rng.random() < .2:
        a1 = '%s=%s' % (he, ct)           # unquoted
        form = 'unquoted'
    else:
        form = 'quoted'
    # the charset under one of its registered labels (IANA names may contain ':', '_' and '.')
    label = rng.choice(LABELS.get(enc, [enc]) + [enc, enc])
    a2 = '%s=%s%s%scharset=%s%s' % (cn, q, typ, sep, label, q)
    order = rng.random() < .75
    attrs = (a1, a2) if order else (a2, a1)
    ws = rng.choice([' ', '  ', '\n ', ' '])
    close = rng.choice(['>', ' />', '/>'])
    meta = '<%s%s%s%s%s%s' % (rng.choice(['meta', 'META']), ws, attrs[0], ws, attrs[1], close)
    pre = rng.choice(['', '', '<meta name="x" content="y">', '<title>t</title>',
                      '<!-- ' + 'licence text ' * rng.choice([90, 400]) + '-->',
                      ''.join('<link rel="stylesheet" href="s%d.css">' % i for i in range(rng.choice([40, 150])))])
    return pre + meta, form + ('-http-equiv-first' if order else '-content-first')


def run(ctx):
    monitors.install(ctx, tokalg=False)
    from chameleon import PageTemplate, PageTemplateFile
    rng = ctx.rng
    n = 300 if ctx.quick else 4000
    tmpd = tempfile.mkdtemp(prefix='c17_')
    try:
        for i in range(n):
            enc = rng.choice(ENCS)
            default = rng.choice(['utf-8', 'utf-8', 'utf-8', 'latin-1', 'cp1251'])
            if enc == 'utf-16':
                bom = False
            else:
                bom = enc in BOMS and rng.random() < .45
            decl, decl_kind = gen_decl(rng, enc)
            meta, meta_kind = gen_meta(rng, enc)
            body = gen_body(rng, enc)
            doc = ''
            if decl:
                # white space in front of the declaration: then it is not an XML declaration - for str, bytes and files alike
                lead_ws = rng.choice(['', '', '', '', '\n', ' ', '\t', '\r\n', '\n\n  '])
                if lead_ws:
                    decl_kind += '-after-white-space'
                doc += lead_ws + decl + rng.choice(['', '\n', '\r\n'])
            decoy = ''
            if rng.random() < .35:
                # an element that merely mentions a charset (the HTML5 short form, a description, another http-equiv) is no
                # content-type element: it decides nothing
                other = rng.choice([l for l in ('windows-1251', 'koi8-r', 'cp437', 'shift_jis', 'latin-1', 'utf-8', 'cp1252')
                                    if not same_codec(l, enc) and not same_codec(l, default)])
                decoy = rng.choice(['<meta charset="%s">', "<meta charset='%s'/>", '<meta name="description" content="why charset=%s matters">',
                                    '<meta http-equiv="X-Legacy" content="text/html; charset=%s">', '<META CHARSET=%s>',
                                    '<meta content="text/html; charset=%s" name="generator">',
                                    '<meta name="keywords" lang="en" content="a, charset=%s">']) % other
                ctx.mon('documents-with-an-element-that-merely-mentions-a-charset')
            if meta:
                before = rng.random() < .5
                doc += '<html><head>' + (decoy if before else '') + meta + ('' if before else decoy) + '</head><body>' + body + '</body></html>'
            elif decoy:
                doc += '<html><head>' + decoy + '</head><body>' + body + '</body></html>'
            else:
                doc += body
            raw = doc.encode(enc)
            if bom:
                raw = BOMS[enc] + raw
            cell = (enc, bom, decl_kind, meta_kind, default)
            ctx.cover('encoding', enc)
            ctx.cover('decl', decl_kind)
            ctx.cover('meta', meta_kind)
            try:
                oenc, oxml, otext = sniff(raw, default)
                determinable = (otext == doc)
            except Exception:
                determinable = False
            if not determinable:
                ctx.cover('judged', 'undeterminable')
                ctx.case(key=None, nontrivial=False)
                continue
            ctx.cover('judged', 'yes')
            nonascii = any(ord(c) > 127 for c in doc)
            # the option that names the encoding of byte VALUES inserted at render time has no say in how the
            # template itself is decoded
            value_encoding = rng.choice([None, None, None, 'latin-1', 'cp1251', 'utf-16-le', 'ascii'])
            if value_encoding:
                ctx.cover('value-encoding-option', value_encoding)
            for kind in ('bytes', 'file'):
                problems = []
                try:
                    cfg = {} if default == 'utf-8' else {'default_encoding': default}
                    if value_encoding:
                        cfg['encoding'] = value_encoding
                    if kind == 'bytes' and i % 4 == 1:
                        # the template object held another document before (of the other kind): write() replaces it, and
                        # everything - decoding, content type, mode - is decided from the new document alone
                        ctx.mon('documents-written-over-an-earlier-one')
                        t = PageTemplate(b'<p checked="${1}">earlier html</p>' if oxml else b'<?xml version="1.0" encoding="latin-1"?>\n<p>earlier xml \xe9</p>', **cfg)
                        t.write(raw)
                    elif kind == 'bytes':
                        t = PageTemplate(raw, **cfg)
                    else:
                        fn = os.path.join(tmpd, 't%d.pt' % (i % 7))
                        with open(fn, 'wb') as f:
                            f.write(raw)
                        if i % 4 == 2:
                            # an auto-reload file template that has rendered another document (of the other kind) before
                            ctx.mon('documents-written-over-an-earlier-one')
                            with open(fn, 'wb') as f:
                                f.write(b'<p checked="${1}">earlier html</p>' if oxml else b'<?xml version="1.0" encoding="latin-1"?>\n<p>earlier xml \xe9</p>')
                            os.utime(fn, (1_000_000, 1_000_000))
                            t = PageTemplateFile(fn, auto_reload=True, **cfg)
                            t(n=5)
                            with open(fn, 'wb') as f:
                                f.write(raw)
                            os.utime(fn, (1_000_050 + i, 1_000_050 + i))
                        else:
                            t = PageTemplateFile(fn, **cfg)
                        t.cook_check()
                    got = t(n=5)
                    want_t = PageTemplate(doc, **({'encoding': value_encoding} if value_encoding else {}))
                    want = want_t(n=5)
                    if got != want:
                        problems.append('render-differs-from-str')
                    if '﻿' in got:
                        problems.append('bom-in-output')
                    want_ct = 'text/xml' if oxml else None
                    if oxml and t.content_type != 'text/xml':
                        problems.append('content_type=%s-for-xml' % t.content_type)
                    if not oxml and (t.content_type == 'text/xml' or not t.content_type):
                        problems.append('content_type=%s-for-html' % t.content_type)
                    if not same_codec(t.content_encoding, oenc):
                        problems.append('content_encoding=%s-want-%s' % (t.content_encoding, oenc))
                    # mode effects, observed on the rendering itself
                    if 'checked="${1}"' in doc:
                        ctx.mon('mode-effect-observed')
                        if oxml and 'checked="1"' not in got:
                            problems.append('xml-mode-implicit-boolean')
                        if not oxml and 'checked="checked"' not in got:
                            problems.append('html-mode-no-boolean')
                    if '\r' in doc:
                        ctx.mon('mode-effect-observed')
                        if oxml and '\r' not in got:
                            problems.append('xml-mode-newline-rewritten')
                        if not oxml and '\r' in got:
                            problems.append('html-mode-cr-kept')
                except Exception as e:
                    problems = ['raised-' + type(e).__name__]
                ctx.mon('compared')
                ctx.case(key=cell + (kind, value_encoding is not None), nontrivial=nonascii,
                         sample={'bytes': raw[:120], 'cell': cell, 'class': kind, 'oracle': [oenc, oxml],
                                 'problems': problems} if i < 3 else None)
                if problems:
                    key = classify(cell, problems, raw, meta_kind)
                    ctx.violation(key, '%s input, cell %r: %s; bytes %r' % (kind, cell, problems, raw[:100]),
                                  {'kind': kind, 'raw': raw.decode('latin-1'), 'default': default,
                                   'oracle': [oenc, oxml], 'doc': doc, 'value_encoding': value_encoding})
    finally:
        shutil.rmtree(tmpd, ignore_errors=True)


def classify(cell, problems, raw, meta_kind):
    enc, bom, decl_kind, mk, default = cell
    p = set(problems)
    if bom and enc in ('utf-16-be', 'utf-32-be') and p <= {'bom-in-output', 'render-differs-from-str',
                                                          'content_type=text/html-for-xml',
                                                          'xml-mode-implicit-boolean', 'xml-mode-newline-rewritten'}:
        return 'big-endian-bom-not-removed'
    if mk.endswith('content-first') and decl_kind == 'none' and not bom:
        # alternate model of the known mechanism: the meta element is not recognised, so the default
        # encoding is used; predict exactly what that gives
        try:
            alt_text = raw.decode(default)
        except UnicodeDecodeError:
            predicted = {'raised-UnicodeDecodeError'}
        else:
            predicted = set()
            if not same_codec(default, enc):
                predicted.add('content_encoding=%s-want-%s' % (default, enc))
            if alt_text != raw.decode(enc):
                predicted.add('render-differs-from-str')
        if p == predicted:
            return 'meta-content-before-http-equiv-not-recognised'
    return '+'.join(sorted(re.sub(r'=.*', '', x) for x in p))


def replay(data):
    from chameleon import PageTemplate
    raw = data['raw'].encode('latin-1')
    cfg = {} if data['default'] == 'utf-8' else {'default_encoding': data['default']}
    if data.get('value_encoding'):
        cfg['encoding'] = data['value_encoding']
    try:
        t = PageTemplate(raw, **cfg)
        got = t(n=5)
        info = (t.content_type, t.content_encoding)
    except Exception as e:
        got, info = 'RAISED %s' % type(e).__name__, None
    want = PageTemplate(data['doc'])(n=5)
    text = 'bytes %r\noracle %r\nrender(bytes) %r %r\nrender(str)   %r' % (raw[:200], data['oracle'], got, info, want)
    return got != want or '﻿' in got, text
