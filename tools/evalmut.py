#!/usr/bin/env python3
"""Evaluate one seeded change against the checks, on a scratch copy (never in /repo).

usage: tools/evalmut.py <patch.diff> <demo.py|-> <PROP> [more PROPs...] [--tier quick|thorough] [--seed N]

Steps: copy /repo/src to a scratch directory outside /repo and /verif, apply the patch, run the pinned
test suite there (must pass), run the demo (must exit 1 with the change, 0 on /repo), run the named
quick checks with VERIF_CHAMELEON_SRC pointing at the copy (evidence and replays go to the scratch
directory, not to /verif/evidence), report which checks raise a VIOLATION, delete the copy.
"""
import json, os, shutil, subprocess, sys, tempfile

def main():
    args = sys.argv[1:]
    tier = 'quick'; seed = '0'
    if '--tier' in args:
        i = args.index('--tier'); tier = args[i + 1]; del args[i:i + 2]
    if '--seed' in args:
        i = args.index('--seed'); seed = args[i + 1]; del args[i:i + 2]
    patch, demo, props = args[0], args[1], args[2:]
    work = tempfile.mkdtemp(prefix='evalmut_')
    res = {'patch': patch, 'props': {}}
    try:
        subprocess.run(['git', '-C', '/repo', 'worktree', 'add', '-q', '--detach', os.path.join(work, 'wt'), 'HEAD'], check=True)
        wt = os.path.join(work, 'wt')
        r = subprocess.run(['git', '-C', wt, 'apply', os.path.abspath(patch)], capture_output=True, text=True)
        if r.returncode:
            res['apply'] = 'FAILED: ' + r.stderr[-300:]
            print(json.dumps(res, indent=1)); return 2
        src = os.path.join(wt, 'src')
        env = dict(os.environ, PYTHONPATH=src, PYTHONDONTWRITEBYTECODE='1')
        t = subprocess.run(['/venv/bin/python', '-m', 'pytest', '-q', '-p', 'no:cacheprovider', '-x'], cwd=wt, env=env,
                           capture_output=True, text=True)
        res['tests'] = t.stdout.strip().splitlines()[-1] if t.stdout.strip() else t.stderr[-200:]
        if demo != '-':
            d1 = subprocess.run(['/venv/bin/python', demo], env=dict(env, CHAMELEON_SRC=src), capture_output=True, text=True, timeout=600)
            d0 = subprocess.run(['/venv/bin/python', demo], env=dict(os.environ, CHAMELEON_SRC='/repo/src', PYTHONPATH='/repo/src'),
                                capture_output=True, text=True, timeout=600)
            res['demo'] = {'with_change': d1.returncode, 'without': d0.returncode, 'out': (d1.stdout + d1.stderr)[-300:]}
        for p in props:
            e = dict(os.environ, VERIF_CHAMELEON_SRC=src, VERIF_EVIDENCE_DIR=os.path.join(work, 'ev'),
                     VERIF_REPLAY_DIR=os.path.join(work, 'rp'), VERIF_SEED=seed)
            c = subprocess.run(['/verif/vcheck', p, tier], env=e, capture_output=True, text=True, timeout=7200)
            lines = [l for l in c.stdout.splitlines() if l.startswith(('VIOLATION', '  class=', 'INCONCLUSIVE'))]
            res['props'][p] = {'rc': c.returncode, 'lines': [l[:260] for l in lines[:8]],
                               'summary': c.stdout.strip().splitlines()[-1][:200] if c.stdout.strip() else c.stderr[-300:]}
    finally:
        subprocess.run(['git', '-C', '/repo', 'worktree', 'remove', '--force', os.path.join(work, 'wt')], capture_output=True)
        shutil.rmtree(work, ignore_errors=True)
    print(json.dumps(res, indent=1))
    return 0

if __name__ == '__main__':
    sys.exit(main())
