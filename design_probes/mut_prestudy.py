import subprocess, sys, os, re, shutil
ROOT = '/tmp/vp-scratch/repo/src/chameleon/'
MUTANTS = [
 # (name, file, old, new, probe cmd, pass-marker regex meaning "undetected")
 ('swap condition/repeat', 'zpt/program.py', "            CONDITION,\n            REPEAT,", "            REPEAT,\n            CONDITION,", ['c01_proto.py', '7', '200'], r'bad (\d+)'),
 ('content: drop > escape', 'zpt/program.py', "char_escape = ('&', '<', '>') if key == 'text' else ()", "char_escape = ('&', '<') if key == 'text' else ()", ['c02_proto.py', '1'], None),
 ('pipe: no ValueError', 'tales.py', "        TypeError, \\\n        ValueError\n", "        TypeError\n", ['c04pipe'], None),
 ('repeat sep off by one', 'compiler.py', '"if INDEX > 0: __append(WHITESPACE)"', '"if INDEX > 1: __append(WHITESPACE)"', ['c01_proto.py', '7', '200'], r'bad (\d+)'),
 ('leave_assignment skipped in define', 'compiler.py', "        for assignment in reversed(node.assignments):\n            if assignment.local:\n                yield from self._leave_assignment(assignment.names)", "        for assignment in reversed(node.assignments[1:]):\n            if assignment.local:\n                yield from self._leave_assignment(assignment.names)", ['c05_proto.py', '1', '200'], r'bad (\d+)'),
 ('slot pop from left', 'compiler.py', '"try: NAME = econtext[KEY].pop()\\n"', '"try: NAME = econtext[KEY].popleft()\\n"', ['c09_proto.py', '1', '200'], r'bad (\d+)'),
 ('translate: default dropped', 'compiler.py', '"msgid, mapping=mapping, default=default, domain=__i18n_domain, context=__i18n_context, target_language=target_language))",  # noqa:  E501 line too long', '"msgid, mapping=mapping, domain=__i18n_domain, context=__i18n_context, target_language=target_language))",  # noqa:  E501 line too long', ['c10_proto.py', '1', '200'], r'bad (\d+)'),
 ('lstrip off by one', 'tokenize.py', "s, self.pos + len(self) - len(s), self.source, self.filename)", "s, self.pos + len(self) - len(s) + (1 if len(s) != len(self) else 0), self.source, self.filename)", ['c11_proto.py', '1', '40'], None),
 ('mtime > instead of !=', 'template.py', "if mtime != self._v_last_read:", "if self._v_last_read is None or mtime > self._v_last_read:", ['c16_proto.py', '1', '150'], None),
 ('repeat index off', 'tal.py', "return self.length - remaining - 1", "return self.length - remaining - 1 if remaining else self.length - 2", ['c08_proto.py'], r'bad (\d+)'),
 ('tokenizer: comment alt', 'tokenize.py', 'a("CommentCE", "%(Until2Hyphens)s>?")', 'a("CommentCE", "%(Until2Hyphens)s>")', ['c03tok'], None),
 ('on-error truncation after start tag', 'compiler.py', 'template("del __stream[fallback:]", fallback=fallback)', 'template("del __stream[fallback + 1:]", fallback=fallback)', ['c13_proto.py', '1', '200'], r'bad (\d+)'),
 ('strict flag inverted for non-strict reach', 'compiler.py', "            stmts += [\n                TokenRef(exc.token),\n                ast.Raise(exc=load(\"__exc\"))\n            ]", "            stmts += [\n                TokenRef(exc.token),\n            ]", ['c19_proto.py', '1'], None),
 ('text mode escapes', 'zpt/template.py', 'escape=True if self.mode == "xml" else False,', 'escape=True,', ['c20_proto.py', '1', '500'], r'bad (\d+)'),
]
def run_probe(cmd, src):
    env = dict(os.environ)
    if cmd[0] == 'c04pipe':
        code = "import sys; sys.path.insert(0, %r)\nfrom chameleon import PageTemplate\ndef f(): raise ValueError('x')\ntry: print(PageTemplate('<p>${f() | 1}</p>')(f=f))\nexcept Exception as e: print('EXC', type(e).__name__)" % src
        return subprocess.run(['/venv/bin/python', '-c', code], capture_output=True, text=True).stdout
    if cmd[0] == 'c03tok':
        code = "import sys, itertools; sys.path.insert(0, %r)\nfrom chameleon.tokenize import iter_xml\nbad = 0\nfor n in range(1, 6):\n  for t in itertools.product('<>!-a ', repeat=n):\n    s = ''.join(t)\n    if ''.join(iter_xml(s)) != s: bad += 1\nprint('bad', bad)" % src
        return subprocess.run(['/venv/bin/python', '-c', code], capture_output=True, text=True).stdout
    text = open('/tmp/exp/' + cmd[0]).read().replace("sys.path.insert(0, '/repo/src')", "sys.path.insert(0, %r)" % src)
    open('/tmp/exp/_mut_probe.py', 'w').write(text)
    p = subprocess.run(['/venv/bin/python', '/tmp/exp/_mut_probe.py'] + cmd[1:], capture_output=True, text=True, timeout=600)
    return p.stdout[-600:] + p.stderr[-300:]
only = sys.argv[1:] 
for name, fn, old, new, cmd, marker in MUTANTS:
    path = ROOT + fn
    orig = open(path).read()
    if orig.count(old) != 1: print('!! cannot apply', name, orig.count(old)); continue
    base = run_probe(cmd, '/tmp/vp-scratch/repo/src').strip().split('\n')[-1]
    open(path, 'w').write(orig.replace(old, new))
    try:
        t = subprocess.run(['/venv/bin/python', '-m', 'pytest', '-q', '-x', '-p', 'no:cacheprovider'], cwd='/tmp/vp-scratch/repo', env=dict(os.environ, PYTHONPATH='/tmp/vp-scratch/repo/src'), capture_output=True, text=True)
        tests = t.stdout.strip().split('\n')[-1]
        out = run_probe(cmd, '/tmp/vp-scratch/repo/src').strip().split('\n')[-1]
    finally:
        open(path, 'w').write(orig)
    print('%-40s tests: %-28s\n      probe before: %s\n      probe after : %s' % (name, tests[:28], base[:110], out[:110]))
