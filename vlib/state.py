"""Process-wide handle on the running shard's context (monitors report here)."""
CTX = None
