import sys
sys.path.insert(0, '/repo/src')
from chameleon import PageTemplate
T = PageTemplate('<tal:r repeat="x xs">${repeat.x.index},${repeat.x.number},${repeat.x.even},${repeat.x.odd},${repeat.x.parity},${repeat.x.start},${repeat.x.end},${repeat.x.length},${repeat.x.letter},${repeat.x.Letter},${repeat.x.roman},${repeat.x.Roman};</tal:r>')
def letter(i):
    digits = []
    while True:
        digits.append(i % 26); i //= 26
        if not i: break
    return ''.join('abcdefghijklmnopqrstuvwxyz'[d] for d in reversed(digits))
TH = ['', 'M', 'MM', 'MMM']; H = ['', 'C', 'CC', 'CCC', 'CD', 'D', 'DC', 'DCC', 'DCCC', 'CM']; TE = ['', 'X', 'XX', 'XXX', 'XL', 'L', 'LX', 'LXX', 'LXXX', 'XC']; U = ['', 'I', 'II', 'III', 'IV', 'V', 'VI', 'VII', 'VIII', 'IX']
def roman(n):
    return 'M' * (n // 1000) + H[n // 100 % 10] + TE[n // 10 % 10] + U[n % 10]
def expected(i, n):
    return '%d,%d,%s,%s,%s,%d,%d,%d,%s,%s,%s,%s' % (i, i + 1, 'even' if i % 2 == 0 else '', 'odd' if i % 2 else '', 'even' if i % 2 == 0 else 'odd', i == 0, i == n - 1, n, letter(i), letter(i).upper(), roman(i + 1).lower(), roman(i + 1))
bad = 0; checked = 0
kinds = {'list': lambda n: list(range(n)), 'tuple': lambda n: tuple(range(n)), 'range': lambda n: range(n), 'gen': lambda n: (i for i in range(n)), 'str': lambda n: 'x' * n, 'dictitems': lambda n: {i: i for i in range(n)}.items(), 'iter': lambda n: iter(list(range(n)))}
for n in list(range(0, 61)) + [702, 703, 3999, 4000, 4001]:
    for kind, mk in kinds.items():
        if n > 100 and kind not in ('list', 'gen'): continue
        out = T(xs=mk(n)).split(';')[:-1]
        if len(out) != n: bad += 1; print('LEN', n, kind, len(out)); continue
        for i, o in enumerate(out):
            checked += 1
            if o != expected(i, n):
                bad += 1
                if bad < 6: print('BAD', n, kind, i, o, expected(i, n))
print('positions checked', checked, 'bad', bad)
print(repr(T(xs=None)))
