"""C14 — rendering is deterministic, side-effect free on its inputs, and thread-safe.

(a) single-thread histories: sequences of render calls on one instance interleaved
    with separately compiled instances; equal arguments => identical strings;
    M-args: a deep snapshot (structure + identity map) of the caller's argument
    objects before == after; nothing of one render is visible in the next.
(b) cross-process: the same templates and arguments in fresh interpreters with
    PYTHONHASHSEED in {0, 1, 4242, random}; outputs byte-equal.
(c) stress: 8 threads on shared PageTemplate / lazily compiled PageTemplateFile /
    auto-reload template / shared loader / load: chain, minimal switch interval plus
    yield injection (sleep(0) at LINE events of cook/cook_check/load/...).
(d) controlled scheduler (vlib/sched.py): 2 threads stepped line by line through
    BaseTemplate.cook/_cook, BaseTemplateFile.cook_check/read, TemplateLoader.load,
    the registry wrapper and MemoryLoader.build under explicit schedules: every
    "A runs k steps, B runs to completion, A finishes" (all k), two-preemption
    schedules (sampled in quick), and random schedules.  Every result must equal
    the result of the same call run alone.  Evidence counts DISTINCT interleaving
    signatures.
"""
import copy
import hashlib
import json
import os
import random
import shutil
import subprocess
import sys
import tempfile
import threading
import time

from vlib import env, monitors

PROP = 'C14'
TITLE = 'determinism, purity, thread-safety'
LEVEL = 'exploration'
SHARDS = {'quick': 16, 'thorough': 16}
TIMEOUT = {'quick': 1200, 'thorough': 7200}
FLOOR = {'quick': 150, 'thorough': 1500}
REQUIRED_MONITORS = {'schedules-executed': 100, 'context-switches-inside-monitored-code': 100,
                     'stress-renders': 1000, 'history-renders': 500, 'loader-history-renders': 500, 'file-history-renders': 400, 'instances-of-one-class-compared': 300, 'M-args': 500, 'cross-process-outputs': 20, 'pool-orders-rendered': 16}
RULE = ('(d) a case = one executed schedule of 2 threads over a scenario in {first (lazy) render of a fresh file template, '
        'render of an auto-reload template whose file changed before both calls, first load+render through a shared '
        'loader, load: chain}; schedules: A advanced k line-steps then B to completion (every k until A finishes, both '
        'roles), two-preemption schedules (k, j), random schedules; non-trivial iff >=1 context switch happened inside a '
        'monitored function; distinct by interleaving signature (sequence of (thread, function:line)). (a) histories of 4..10 '
        'renders over 6 state-carrying templates (global define, repeat, macros, code block, i18n, on-error); (b) 6 '
        'templates x 4 hash seeds; (c) rounds of 8 threads x 20 renders.')
ASSUMPTIONS = ['line granularity: a switch inside one line of the monitored functions, or inside generated render code, is '
               'reached only by the stress layer (switch interval 1 microsecond + yield injection)']

TEMPLATES = {
    'kitchen': '''<div tal:define="global g x; l x"><p tal:repeat="i xs" tal:attributes="k i">${i}-${repeat.i.index}-${g}-${l}<b metal:use-macro="template.macros['m']"><i metal:fill-slot="s">${i}${x}</i></b></p><q metal:define-macro="m">[<u metal:define-slot="s">d</u>${x}]</q><?python z = x * 2 ?>${z}<p i18n:translate="">hello <b i18n:name="n">${x}</b></p><span tal:on-error="string:err${x}">${1/0}</span></div>''',
    'globals': '<a tal:define="global n x">${n}</a><b tal:condition="exists: n">${n}</b><c tal:content="n | \'unset\'"/>',
    'codeblock': '<?python\nacc = []\nfor j in xs: acc.append(j * x)\n?><p>${acc}</p><p tal:repeat="a acc">${a}${repeat.a.end}</p>',
    'dictattrs': '<p tal:attributes="d; class x">${sorted(d.items())}</p><i tal:switch="x % 3"><b tal:case="0">zero</b><b tal:case="1">one</b><b tal:case="default">many</b></i>',
    'nested': '<ul tal:define="rows [[i * j for j in xs] for i in xs]"><li tal:repeat="r rows"><b tal:repeat="c r" tal:content="c" tal:omit-tag="c % 2"/></li></ul>',
    'mutating-looking': '<p tal:define="ys list(xs); dummy ys.append(x)">${ys} ${len(xs)} ${d.get(\'k\')}</p>',
    # objects written as literals in the template are made anew for every rendering: mutating them leaves no trace
    'mutable-literals': '<p tal:define="seen []; tab {\'k\': []}; st set()"><b tal:repeat="i xs">${seen.append(i)}${tab[\'k\'].append(x)}${st.add(i)}</b>'
                        '${seen}|${tab}|${sorted(st)}|${[1, 2].pop()}|${{\'a\': 1}.setdefault(\'b\', x)}</p>',
    # byte strings among the values: decoded with the encoding in force for THAT rendering (the option, or the argument of the call)
    'byte-values': '<p a="${bv}">${bv}</p><i tal:content="bv"/><b tal:repeat="i xs" tal:attributes="k bv">${x}</b>',
    # the parts of a translation block whose values mention each other's placeholders: filled in one pass, in one order
    'crossed-placeholders': '<p i18n:translate="">From <b i18n:name="sender">Ann (to ${\'$\'}{recipient}) ${x}</b> to <i i18n:name="recipient">Bob (cc ${\'$\'}{sender})</i>'
                            ' via <u i18n:name="via">${\'$\'}{sender}${\'$\'}{recipient}${\'$\'}{via}</u></p>',
}


def make_args(x):
    return {'x': x, 'xs': list(range(x % 4 + 1)), 'd': {'k': 'v%d' % x, 'title': 't'}, 'o': [{'a': [1, 2]}, (3, 4)],
            'bv': ('caf\xe9 \u20ac%d' % x).encode('utf-8')}


def snapshot(obj, seen=None):
    """Deep structural snapshot with an identity map (so aliasing changes are seen, too)."""
    if seen is None:
        seen = {}
    if id(obj) in seen:
        return ('ref', seen[id(obj)])
    seen[id(obj)] = len(seen)
    if isinstance(obj, dict):
        return ('dict', id(obj), [(snapshot(k, seen), snapshot(v, seen)) for k, v in obj.items()])
    if isinstance(obj, (list, tuple)):
        return (type(obj).__name__, id(obj), [snapshot(v, seen) for v in obj])
    return (type(obj).__name__, repr(obj))


def solo(t, x):
    return t(**make_args(x))


# --------------------------------------------------------------------------
def layer_histories(ctx, n):
    from chameleon import PageTemplate
    rng = ctx.rng
    for _ in range(n):
        name = rng.choice(sorted(TEMPLATES))
        src = TEMPLATES[name]
        t1 = PageTemplate(src)
        t2 = PageTemplate(src)
        seen = {}
        hist = []
        for step in range(rng.randint(4, 10)):
            x = rng.randrange(6)
            t = rng.choice([t1, t1, t2, None])
            if t is None:
                t = PageTemplate(src)      # a separately compiled instance in the middle of the history
            args = make_args(x)
            before = snapshot(args)
            # now and then a rendering names its own encoding for byte values: an argument of that call, nothing more
            enc = rng.choice([None, None, None, 'latin-1', 'cp1251', 'utf-8'])
            kw = {'encoding': enc} if enc else {}
            try:
                out = t(**kw, **args)
            except Exception as e:
                out = 'RAISED %s: %s' % (type(e).__name__, str(e).split('\n')[0][:80])
            after = snapshot(args)
            if enc:
                ctx.mon('renderings-with-an-encoding-argument')
            x = (x, enc)
            ctx.mon('history-renders')
            ctx.mon('M-args')
            hist.append((x, hashlib.md5(out.encode()).hexdigest()[:8]))
            if before != after:
                ctx.violation('M-args:caller-arguments-modified',
                              'template %s modified its arguments: before %r after %r' % (name, before, after),
                              {'kind': 'args', 'template': name, 'x': x})
            if step % 3 == 0 or name == 'byte-values':
                try:
                    ref = PageTemplate(src)(**kw, **make_args(x[0]))
                except Exception as e:
                    ref = 'RAISED %s: %s' % (type(e).__name__, str(e).split('\n')[0][:80])
                ctx.mon('history-renders-compared-with-a-fresh-instance')
                if ref != out:
                    ctx.violation('history-differs-from-a-fresh-instance', 'template %s, (x, encoding argument)=%r after the history %r: rendered %r, '
                                  'a fresh instance %r' % (name, x, hist, out, ref), {'kind': 'history', 'template': name, 'x': x})
            if x in seen and seen[x] != out:
                ctx.violation('history-nondeterministic',
                              'template %s, (x, encoding argument)=%r: earlier render %r, now %r (history %r)' % (name, x, seen[x], out, hist),
                              {'kind': 'history', 'template': name, 'x': x})
            seen.setdefault(x, out)
        ctx.case(key=('hist', name, tuple(h[0] for h in hist)), nontrivial=len(hist) >= 2)



def layer_file_histories(ctx, n):
    """An auto-reload file template that stays in use while its file is replaced (newer, older or equal-length
    content; modification times moving forwards or backwards, as after a rollback or cp -p): every render equals
    what a separately compiled instance of the file as it is now renders."""
    from chameleon import PageTemplateFile
    rng = ctx.rng
    d = tempfile.mkdtemp(prefix='c14f_')
    try:
        for case in range(n):
            path = os.path.join(d, 'f%d.pt' % case)
            mtime = 1_000_000 + rng.randrange(1000)
            names = sorted(TEMPLATES)
            write_file(path, TEMPLATES[rng.choice(names)], mtime)
            used = PageTemplateFile(path, auto_reload=True)
            hist = []
            for step in range(rng.randint(3, 7)):
                if step and rng.random() < .6:
                    mtime += rng.choice([-500, -1, 1, 7, 500])
                    write_file(path, TEMPLATES[rng.choice(names)], mtime)
                    hist.append('write@%+d' % (mtime - 1_000_000))
                x = rng.randrange(6)
                try:
                    got = solo(used, x)
                except Exception as e:
                    got = 'RAISED %s' % type(e).__name__
                try:
                    want = solo(PageTemplateFile(path), x)
                except Exception as e:
                    want = 'RAISED %s' % type(e).__name__
                hist.append('render(%d)' % x)
                ctx.mon('file-history-renders')
                if got != want:
                    ctx.violation('file-template-in-use-differs-from-fresh-instance',
                                  'history %r: the instance in use rendered %r, a separately compiled instance of the file %r' % (
                                      hist, got[:200], want[:200]), {'kind': 'filehist'})
                    break
            ctx.case(key=('filehist', tuple(h.split('(')[0] for h in hist)), nontrivial=any(h.startswith('write') for h in hist))
    finally:
        shutil.rmtree(d, ignore_errors=True)



def layer_instances_of_one_class(ctx, n):
    """Separately compiled instances of the same source and configuration render alike whatever OTHER instances of the
    class were created in between (with extra builtins, other options, other documents): nothing an instance is
    given may end up in state shared by the class - also for template classes that keep their builtins in a plain
    class-level dictionary, the documented way of a BaseTemplate subclass."""
    from chameleon import PageTemplate, PageTextTemplate
    rng = ctx.rng

    def fresh_classes():
        class DictBuiltins(PageTemplate):
            builtins = {'site': 'S', 'nothing': None}        # a plain dictionary instead of the computed property

        class TextDictBuiltins(PageTextTemplate):
            builtins = {'site': 'S', 'nothing': None}
        return [PageTemplate, DictBuiltins, PageTextTemplate, TextDictBuiltins]
    for case in range(n):
        cls = rng.choice(fresh_classes())
        src = "[${user | 'guest'}|${site | 'nosite'}|${helper | 'nohelper'}|${x}]"
        before = cls(src)
        r0 = before(x=1)
        for _ in range(rng.randint(1, 3)):
            kind = rng.choice(['extra-builtins', 'other-document', 'other-option'])
            try:
                if kind == 'extra-builtins':
                    cls(src, extra_builtins={'user': 'root', 'helper': (lambda: 1), 'x': 'shadow'})(x=1)
                elif kind == 'other-document':
                    cls('<p tal:define="global user 1">${user}</p>' if 'Text' not in cls.__name__ else '${user}', extra_builtins={'user': 'u2'})(x=1)
                else:
                    cls(src, strict=False, extra_builtins={'site': 'other-site'})(x=1)
            except Exception:
                pass
        after = cls(src)
        r1 = after(x=1)
        r2 = before(x=1)
        rewritten = None
        if rng.random() < .5:
            before.write(src)           # a long-lived instance cooked again
            rewritten = before(x=1)
        ctx.mon('instances-of-one-class-compared')
        ctx.case(key=('instances', cls.__name__, case % 7), nontrivial=True)
        if not (r0 == r1 == r2) or (rewritten is not None and rewritten != r0):
            ctx.violation('instance-sees-state-of-other-instances', 'class %s (%s): first instance %r, an instance created after others with extra builtins %r, '
                          'the first instance again %r, after write() %r' % (cls.__name__, 'builtins is a class-level dict' if 'Dict' in cls.__name__ else 'stock',
                                                                              r0, r1, r2, rewritten), {'kind': 'instances'})


CHILD_SNIPPET = r'''
import sys, json, hashlib
from chameleon import PageTemplate
T = json.loads(sys.argv[1])
sys.path.insert(0, %r)
from checks.c14 import make_args, render_all
print(json.dumps({name: render_all(src) for name, src in sorted(T.items())}))
'''


def render_all(src):
    from chameleon import PageTemplate
    try:
        t = PageTemplate(src)
    except Exception as e:
        return ['COMPILE %s' % type(e).__name__]
    out = []
    for x in range(6):
        try:
            out.append(t(**make_args(x)))
        except Exception as e:
            out.append('RAISED %s' % type(e).__name__)
    return out


ORDER_NAMES = ['title', 'alt', 'class', 'id', 'lang', 'summary', 'href', 'rel', 'name', 'value', 'Data-X', 'aria-label']


def gen_order_template(rng):
    """Elements whose attributes come from several sources at once (written, tal:attributes list, dictionary,
    i18n:attributes naming present and absent attributes), several variables per define, macros with several
    slots: everything whose emission order could depend on set/dict iteration."""
    parts = []
    for _ in range(rng.randint(1, 3)):
        names = rng.sample(ORDER_NAMES, rng.randint(2, 7))
        static = [n for n in names if rng.random() < .4]
        dyn = [n for n in names if rng.random() < .4]
        i18n = [n for n in names if rng.random() < .6]
        a = ''.join(' %s="s%d"' % (n, k) for k, n in enumerate(static))
        if dyn or rng.random() < .3:
            items = ['%s x + %d' % (n.lower(), k) for k, n in enumerate(dyn)]
            if rng.random() < .4:
                items.append('d')
            if items:
                a += ' tal:attributes="%s"' % '; '.join(items)
        if i18n:
            a += ' i18n:attributes="%s"' % '; '.join(n.lower() + (' mid%d' % k if rng.random() < .4 else '') for k, n in enumerate(i18n))
        defs = rng.sample(['va', 'vb', 'vc', 'vd', 've'], rng.randint(0, 4))
        if defs:
            a += ' tal:define="%s"' % '; '.join('%s%s x * %d' % ('global ' if rng.random() < .3 else '', v, k) for k, v in enumerate(defs))
        body = ''.join('${%s}' % v for v in defs) + rng.choice(['', '${sorted(d)}', '${d}', '${xs}'])
        parts.append('<p%s>%s</p>' % (a, body))
    if rng.random() < .4:
        slots = rng.sample(['s1', 's2', 's3', 's4'], rng.randint(2, 4))
        parts.append('<m metal:define-macro="mm">%s</m><u metal:use-macro="template.macros[\'mm\']">%s</u>' % (
            ''.join('<i metal:define-slot="%s">d-%s</i>' % (s_, s_) for s_ in slots),
            ''.join('<b metal:fill-slot="%s">f-%s-${x}</b>' % (s_, s_) for s_ in rng.sample(slots, rng.randint(1, len(slots))))))
    return '<div>' + ''.join(parts) + '</div>'


def cross_process_corpus():
    corpus = dict(TEMPLATES)
    rng = random.Random('c14-cross-process-%s' % os.environ.get('VERIF_SEED', '0'))
    for k in range(60):
        corpus['generated-%02d' % k] = gen_order_template(rng)
    return corpus


# ---- order independence across templates ---------------------------------------------------------------
POOL = [
    # (name, class, source, constructor options, render arguments)
    ('plain-var', 'xml', '<p>${helper}|${site}</p>', {}, {'helper': 'H', 'site': 'S'}),
    ('with-builtins', 'xml', '<p>${helper}|${site}</p>', {'extra_builtins': {'helper': 'B1', 'site': 'B2'}}, {}),
    ('text-plain-var', 'text', 'Hello ${site} and ${helper}', {}, {'helper': 'H', 'site': 'S'}),
    ('text-with-builtins', 'text', 'Hello ${site} and ${helper}', {'extra_builtins': {'helper': 'B1', 'site': 'B2'}}, {}),
    ('define-helper', 'xml', '<p tal:define="helper 5">${helper}</p><i tal:repeat="site (1, 2)">${site}</i>', {}, {}),
    ('rejected-below-interpolation-off', 'xml', '<div meta:interpolation="off"><p tal:content="a" tal:replace="b">${x}</p></div>', {}, {}),
    ('rejected-unknown-statement-below-off', 'xml', '<div meta:interpolation="false"><b><p tal:nosuch="1">${x}</p></b></div>', {}, {}),
    ('interpolates', 'xml', '<p>${x}<!-- ${x} --><![CDATA[${x}]]></p>', {}, {'x': 'X'}),
    ('text-interpolates', 'text', 'v=${x}', {}, {'x': 'X'}),
    ('loops-over-x', 'xml', '<p tal:repeat="x (1, 2, 3)">${repeat.x.number}/${repeat.x.length}</p>', {}, {}),
    ('asks-for-repeat-x', 'xml', '<p tal:content="exists: repeat.x">?</p><i tal:repeat="x (7,)">${repeat.x.index}${repeat.x.end}</i>', {}, {}),
    ('lambda-parameter', 'xml', '<p tal:define="f lambda n, site=1: n + site">${f(1)}</p>', {}, {}),
    ('reads-n', 'xml', '<p>${n}|${site|\'-\'}</p>', {}, {'n': 'N'}),
    ('strict-invalid', 'xml', '<p tal:condition="False">${bad +}</p>ok', {'strict': True}, {}),
    ('non-strict-invalid', 'xml', '<p tal:condition="False">${bad +}</p>ok', {'strict': False}, {}),
    ('boolean-default', 'xml', '<input checked="${c}" />', {}, {'c': 1}),
    ('boolean-none', 'xml', '<input checked="${c}" />', {'boolean_attributes': set()}, {'c': 1}),
    ('global-define', 'xml', '<a tal:define="global gg 1">${gg}</a>', {}, {}),
    ('reads-gg', 'xml', '<a tal:content="gg | \'unset\'"/>', {}, {}),
]


def render_pool(order_seed):
    """Compile and render every pool entry, in the order given by the seed, in THIS process."""
    from chameleon import PageTemplate, PageTextTemplate
    order = list(range(len(POOL)))
    random.Random('pool-%s' % order_seed).shuffle(order)
    out = {}
    for i in order:
        name, kind, src, cfg, args = POOL[i]
        cls = PageTextTemplate if kind == 'text' else PageTemplate
        for again in range(2):
            try:
                res = cls(src, **cfg)(**args)
                if isinstance(res, bytes):
                    res = res.decode('utf-8')
            except Exception as e:
                res = 'RAISED %s' % type(e).__name__
            out['%s#%d' % (name, again)] = res
    return out


POOL_SNIPPET = r'''
import sys, json
sys.path.insert(0, %r)
from checks.c14 import render_pool
print(json.dumps(render_pool(sys.argv[1])))
'''


def layer_order_independence(ctx, norders):
    """What a template renders does not depend on which OTHER templates were compiled or rendered before it in the
    process: the same pool in differently shuffled orders, each order in a fresh interpreter."""
    results = {}
    for k in range(norders):
        seed = '%s-%d-%d' % (os.environ.get('VERIF_SEED', '0'), ctx.shard, k)
        p = subprocess.run([env.PY, '-c', POOL_SNIPPET % env.VERIF, seed], env=env.child_env({}), capture_output=True, text=True,
                           timeout=300, cwd=env.VERIF)
        if p.returncode:
            ctx.mark_inconclusive('order-independence child failed: ' + p.stderr[-300:])
            return
        results[seed] = json.loads(p.stdout)
        ctx.mon('pool-orders-rendered')
    seeds = sorted(results)
    ref = results[seeds[0]]
    for key in sorted(ref):
        ctx.mon('pool-entries-compared', len(seeds))
        ctx.case(key=('pool', key), nontrivial=True)
        for sd in seeds[1:]:
            if results[sd].get(key) != ref[key]:
                ctx.violation('output-depends-on-templates-handled-before',
                              'pool entry %s: order %s gives %r, order %s gives %r' % (key, seeds[0], ref[key], sd, results[sd].get(key)),
                              {'kind': 'pool', 'entry': key, 'orders': [seeds[0], sd]})
                break


def layer_cross_process(ctx):
    if ctx.shard >= 4:
        return
    seeds = ['0', '1', '4242', 'random']
    seed = seeds[ctx.shard % 4]
    e = env.child_env({'PYTHONHASHSEED': seed})
    corpus = cross_process_corpus()
    p = subprocess.run([env.PY, '-c', CHILD_SNIPPET % env.VERIF, json.dumps(corpus)], env=e, capture_output=True,
                       text=True, timeout=300, cwd=env.VERIF)
    if p.returncode:
        ctx.mark_inconclusive('cross-process child failed: ' + p.stderr[-200:])
        return
    got = json.loads(p.stdout)
    from chameleon import PageTemplate
    for name, src in sorted(corpus.items()):
        here = render_all(src)
        ctx.mon('cross-process-outputs', len(here))
        ctx.cover('cross-process-outcome', 'rendered' if not here[0].startswith(('COMPILE', 'RAISED')) else here[0])
        ctx.case(key=('xproc', name, seed), nontrivial=True)
        if got[name] != here:
            i = next(i for i in range(len(here)) if got[name][i] != here[i])
            ctx.violation('cross-process-output-differs',
                          'template %s %r x=%d: PYTHONHASHSEED=%s process rendered %r, this process %r' % (
                              name, src, i, seed, got[name][i], here[i]), {'kind': 'xproc', 'template': name, 'seed': seed})


# --------------------------------------------------------------------------
def layer_loader_histories(ctx, n):
    """Render sequences through ONE shared loader: each result must equal what a fresh loader gives for that
    call alone (nothing of one load/render may be visible in the next)."""
    from chameleon import PageTemplateLoader
    rng = ctx.rng
    d = tempfile.mkdtemp(prefix='c14l_')
    try:
        os.makedirs(os.path.join(d, 'sub'))
        os.makedirs(os.path.join(d, 'other'))
        files = {
            'part.pt': '<i>top-part ${x}</i>',
            'sub/part.pt': '<i>sub-part ${x}</i>',
            'other/part.pt': '<i>other-part ${x}</i>',
            'main.pt': '<m tal:define="p load: part.pt">${structure: p(x=x)}</m>',
            'sub/inner.pt': '<s tal:define="p load: part.pt">${structure: p(x=x)}</s>',
            'other/leaf.pt': '<o>${x}</o>',
            'sub/only.pt': '<only>${x}</only>',
        }
        for k, v in files.items():
            write_file(os.path.join(d, k), v, 1000)
        names = ['part.pt', 'main.pt', 'sub/inner.pt', 'other/leaf.pt', 'sub/part.pt', 'only.pt', 'sub/only.pt']
        paths = [[d], [d, os.path.join(d, 'other')], [os.path.join(d, 'other'), d]]

        def call(loader, name, x, fmt=None):
            try:
                return (loader.load(name, fmt) if fmt else loader.load(name))(x=x)
            except Exception as e:
                return 'RAISED %s' % type(e).__name__
        for case in range(n):
            sp = rng.choice(paths)
            shared = PageTemplateLoader(list(sp))
            hist = []
            for step in range(rng.randint(3, 8)):
                name = rng.choice(names)
                x = rng.randrange(4)
                fmt = rng.choice([None, None, 'xml', 'text'])     # the same name may be asked for as markup and as text
                got = call(shared, name, x, fmt)
                want = call(PageTemplateLoader(list(sp)), name, x, fmt)
                hist.append((name, x) if fmt is None else (name, x, fmt))
                ctx.mon('loader-history-renders')
                if got != want:
                    ctx.violation('shared-loader-history-differs',
                                  'search path %r, history %r: shared loader rendered %r, a fresh loader %r' % (
                                      [os.path.relpath(p, d) for p in sp], hist, got, want), {'kind': 'loaderhist'})
                    break
            ctx.case(key=('loaderhist', tuple(h[0] for h in hist), len(sp)), nontrivial=len(hist) >= 2)
    finally:
        shutil.rmtree(d, ignore_errors=True)


def monitored_codes():
    import chameleon.template as T
    import chameleon.loader as L
    codes = [T.BaseTemplate.cook.__code__, T.BaseTemplate._cook.__code__, T.BaseTemplateFile.cook_check.__code__,
             T.BaseTemplateFile.read.__code__, L.TemplateLoader.load.__code__, L.MemoryLoader.build.__code__,
             L.ModuleLoader.get.__code__, L.ModuleLoader.build.__code__, L.ModuleLoader._load.__code__]
    # TemplateLoader.load is wrapped by the registry decorator; monitor the wrapper and the wrapped function
    fn = L.TemplateLoader.load
    if getattr(fn, '__closure__', None):
        for cell in fn.__closure__:
            try:
                c = cell.cell_contents
                if hasattr(c, '__code__'):
                    codes.append(c.__code__)
            except ValueError:
                pass
    return codes


def write_file(path, text, mtime):
    with open(path, 'w') as f:
        f.write(text)
    os.utime(path, (mtime, mtime))


class Scenario:
    """Builds fresh shared objects; workers() returns {name: callable}; expected(name) the solo result."""

    def __init__(self, kind, d):
        self.kind, self.d = kind, d

    def setup(self):
        from chameleon import PageTemplateFile, PageTemplateLoader
        d = self.d
        a = os.path.join(d, 'a.pt')
        if self.kind == 'lazy-first-render':
            write_file(a, '<p tal:repeat="i xs">${i}${x}</p>', 1000)
            t = PageTemplateFile(a)
            self.calls = {'A': lambda: t(x=1, xs=[1, 2]), 'B': lambda: t(x=2, xs=[3])}
            self.want = {'A': '<p>11</p><p>21</p>', 'B': '<p>32</p>'}
        elif self.kind == 'auto-reload-after-change':
            write_file(a, '<p>V1 ${x}</p>', 1000)
            t = PageTemplateFile(a, auto_reload=True)
            assert t(x=0) == '<p>V1 0</p>'
            write_file(a, '<p>V2 ${x}<i metal:define-macro="m">m</i></p>', 2000)
            self.calls = {'A': lambda: t(x=1), 'B': lambda: t(x=2)}
            self.want = {'A': '<p>V2 1<i>m</i></p>', 'B': '<p>V2 2<i>m</i></p>'}
        elif self.kind == 'shared-loader':
            write_file(a, '<p>L ${x}</p>', 1000)
            L = PageTemplateLoader(d)
            self.calls = {'A': lambda: L.load('a.pt')(x=1), 'B': lambda: L.load('a.pt')(x=2)}
            self.want = {'A': '<p>L 1</p>', 'B': '<p>L 2</p>'}
        elif self.kind == 'load-chain':
            write_file(a, '<q metal:define-macro="m">[${x}]</q>', 1000)
            inc = os.path.join(d, 'inc.pt')
            write_file(inc, '<x tal:define="t load: a.pt"><y metal:use-macro="t.macros[\'m\']"/>${x}</x>', 1000)
            t = PageTemplateFile(inc)
            self.calls = {'A': lambda: t(x=1), 'B': lambda: t(x=2)}
            self.want = {'A': '<x><q>[1]</q>1</x>', 'B': '<x><q>[2]</q>2</x>'}
        elif self.kind in ('disk-cache-shared-instance', 'disk-cache-two-instances', 'disk-cache-prepopulated'):
            # the on-disk module cache (what CHAMELEON_CACHE / debug=True switch on)
            from chameleon.loader import ModuleLoader
            cache = os.path.join(d, 'cache')
            os.mkdir(cache)
            ml = ModuleLoader(cache)
            # (the file name is part of the cache key: a fresh directory means a module nobody has imported yet)
            write_file(a, '<p tal:repeat="i xs">${i}${x}</p>', 1000)

            def mk():
                t = PageTemplateFile(a)
                t.loader = ml
                return t
            if self.kind == 'disk-cache-prepopulated':
                mk()(x=0, xs=[])
                for fn in os.listdir(cache):
                    sys.modules.pop(os.path.splitext(fn)[0], None)
            t1 = mk()
            t2 = t1 if self.kind == 'disk-cache-shared-instance' else mk()
            self.calls = {'A': lambda: t1(x=1, xs=[1, 2]), 'B': lambda: t2(x=2, xs=[3])}
            self.want = {'A': '<p>11</p><p>21</p>', 'B': '<p>32</p>'}
        return self.calls


SCENARIOS = ['lazy-first-render', 'auto-reload-after-change', 'shared-loader', 'load-chain',
             'disk-cache-shared-instance', 'disk-cache-two-instances', 'disk-cache-prepopulated']


def layer_scheduler(ctx):
    from vlib.sched import Scheduler
    sched = Scheduler(monitored_codes())
    rng = ctx.rng
    tmp = tempfile.mkdtemp(prefix='c14_')
    signatures = set()
    try:
        # enumerate work items: (scenario, schedule description)
        items = []
        for sc in SCENARIOS:
            for first in ('A', 'B'):
                for k in range(1, 90):
                    items.append((sc, ('one', first, k)))
            nk = 12 if ctx.quick else 60
            for _ in range(nk):
                items.append((sc, ('two', rng.choice('AB'), rng.randint(1, 45), rng.randint(1, 45))))
            for _ in range(10 if ctx.quick else 120):
                items.append((sc, ('rnd', rng.randrange(1 << 30))))
        done_for = {}
        solo_results = {}
        for idx, (sc, desc) in enumerate(items):
            if idx % ctx.nshards != ctx.shard:
                continue
            if desc[0] == 'one' and done_for.get((sc, desc[1])) is not None and desc[2] > done_for[(sc, desc[1])]:
                continue      # that thread finishes in fewer steps: larger k repeat the same schedule
            if sc not in solo_results:
                # the reference: the same calls run alone, one after the other, on fresh objects
                dref = tempfile.mkdtemp(prefix='ref_', dir=tmp)
                ref_calls = Scenario(sc, dref).setup()
                solo_results[sc] = {n: ref_calls[n]() for n in sorted(ref_calls)}
                shutil.rmtree(dref, ignore_errors=True)
            d = tempfile.mkdtemp(prefix='s_', dir=tmp)
            s = Scenario(sc, d)
            calls = s.setup()
            s.want = solo_results[sc]
            other = {'A': 'B', 'B': 'A'}
            if desc[0] == 'one':
                schedule = [desc[1]] * desc[2] + [other[desc[1]]] * 400
            elif desc[0] == 'two':
                schedule = [desc[1]] * desc[2] + [other[desc[1]]] * desc[3] + [desc[1]] * 400
            else:
                r = random.Random(desc[1])
                schedule = [r.choice('AB') for _ in range(300)]
            results, trace, blocked, finished = sched.run(calls, schedule)
            ctx.mon('schedules-executed')
            if not finished:
                ctx.mark_inconclusive('schedule %r of %s did not finish within the watchdog' % (desc, sc))
                shutil.rmtree(d, ignore_errors=True)
                continue
            switches = sum(1 for i in range(1, len(trace)) if trace[i][0] != trace[i - 1][0])
            ctx.mon('context-switches-inside-monitored-code', switches)
            sig = hashlib.md5(repr(trace).encode()).hexdigest()
            signatures.add(sig)
            if desc[0] == 'one':
                steps_first = sum(1 for th, _ in trace if th == desc[1])
                if steps_first < desc[2]:
                    done_for[(sc, desc[1])] = steps_first
            ctx.case(key=('sched', sc, sig), nontrivial=switches >= 1,
                     sample={'scenario': sc, 'schedule': list(desc), 'interleaving': ['%s@%s' % x for x in trace[:40]],
                             'results': results} if desc == ('one', 'A', 7) else None)
            ctx.cover('scenario', sc)
            bad = {n: r for n, r in results.items() if r != ('ok', s.want[n])}
            if bad:
                where = None
                if desc[0] == 'one':
                    own = [pos for th, pos in trace if th == desc[1]]
                    where = own[desc[2] - 1] if len(own) >= desc[2] else None
                key = 'scheduled-render-differs:' + sc
                ctx.violation(key, 'scenario %s, schedule %r (first thread parked at %s): results %r, expected %r; interleaving %s'
                              % (sc, desc, where, results, s.want, ' '.join('%s@%s' % x for x in trace[:60])),
                              {'kind': 'sched', 'scenario': sc, 'schedule': list(desc)})
            shutil.rmtree(d, ignore_errors=True)
    finally:
        sched.close()
        shutil.rmtree(tmp, ignore_errors=True)
    ctx.cover('distinct-interleaving-signatures', 'count', len(signatures))


# --------------------------------------------------------------------------
def layer_stress(ctx, rounds):
    from chameleon import PageTemplate, PageTemplateFile, PageTemplateLoader
    mon = sys.monitoring
    TOOL = 2
    try:
        mon.use_tool_id(TOOL, 'verif-yield')
    except ValueError:
        pass
    codes = set(monitored_codes())
    rngs = {}

    def on_line(code, line):
        r = rngs.get(threading.get_ident())
        if r is not None and r.random() < .3:
            time.sleep(0 if r.random() < .8 else .0002)
    mon.register_callback(TOOL, mon.events.LINE, on_line)
    for c in codes:
        mon.set_local_events(TOOL, c, mon.events.LINE)
    old = sys.getswitchinterval()
    sys.setswitchinterval(1e-6)
    d = tempfile.mkdtemp(prefix='c14s_')
    try:
        SRC = TEMPLATES['kitchen']
        write_file(os.path.join(d, 'a.pt'), SRC, 1000)
        write_file(os.path.join(d, 'inc.pt'), '<x tal:define="t load: a.pt"><y metal:use-macro="t.macros[\'m\']"/>${x}</x>', 1000)
        ref_t = PageTemplate(SRC)
        expected = {x: solo(ref_t, x) for x in range(8)}
        ref_inc = PageTemplateFile(os.path.join(d, 'inc.pt'))
        expected_inc = {x: ref_inc(x=x) for x in range(8)}
        errors = []
        for rnd in range(rounds):
            shared = PageTemplate(SRC)
            lazy = PageTemplateFile(os.path.join(d, 'a.pt'))
            auto = PageTemplateFile(os.path.join(d, 'a.pt'), auto_reload=True)
            loader = PageTemplateLoader(d)
            barrier = threading.Barrier(8)
            count = [0]

            def work(n):
                rngs[threading.get_ident()] = random.Random(ctx.seed * 7919 + rnd * 100 + n)
                barrier.wait()
                rng = random.Random(n + rnd * 100 + ctx.shard * 10000)
                for j in range(20):
                    x = rng.randrange(8)
                    which = rng.choice(['shared', 'lazy', 'auto', 'loader', 'inc'])
                    try:
                        if which == 'shared':
                            got, want = solo(shared, x), expected[x]
                        elif which == 'lazy':
                            got, want = solo(lazy, x), expected[x]
                        elif which == 'auto':
                            got, want = solo(auto, x), expected[x]
                        elif which == 'loader':
                            got, want = solo(loader.load('a.pt'), x), expected[x]
                        else:
                            got, want = loader.load('inc.pt')(x=x), expected_inc[x]
                        count[0] += 1
                        if got != want:
                            errors.append((which, x, got[:120], want[:120]))
                    except Exception as e:
                        errors.append((which, x, 'RAISED %s %s' % (type(e).__name__, str(e).split('\n')[0][:100]), ''))
            ths = [threading.Thread(target=work, args=(n,)) for n in range(8)]
            for t in ths:
                t.start()
            for t in ths:
                t.join()
            ctx.mon('stress-renders', count[0])
            ctx.case(key=('stress', ctx.shard, rnd), nontrivial=True)
        for which, x, got, want in errors[:5]:
            ctx.violation('stress-render-differs:' + which, 'object %s x=%d: got %r, alone %r' % (which, x, got, want),
                          {'kind': 'stress', 'which': which})
    finally:
        sys.setswitchinterval(old)
        for c in codes:
            mon.set_local_events(TOOL, c, 0)
        mon.register_callback(TOOL, mon.events.LINE, None)
        mon.free_tool_id(TOOL)
        shutil.rmtree(d, ignore_errors=True)


def run(ctx):
    monitors.install(ctx, tokalg=False)
    layer_histories(ctx, 40 if ctx.quick else 600)
    layer_loader_histories(ctx, 25 if ctx.quick else 400)
    layer_file_histories(ctx, 15 if ctx.quick else 300)
    layer_instances_of_one_class(ctx, 25 if ctx.quick else 400)
    layer_cross_process(ctx)
    layer_order_independence(ctx, 3 if ctx.quick else 8)
    layer_stress(ctx, 3 if ctx.quick else 30)
    layer_scheduler(ctx)


def replay(data):
    return True, 're-run ./vcheck C14 with the same seed: %r' % (data,)
