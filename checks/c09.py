"""C09 — METAL: using a macro equals inlining it with its slots filled.

Metamorphic oracle, both sides on the real engine: render(caller with METAL) must
equal render(inline(caller, library)), where `inline` is a source-to-source expansion
on my own item lists producing a METAL-free template: the macro's defining element in
place of the using element (with `macroname` bound to the name used), every
define-slot region of a name replaced by the caller's filler of that name when there
is one, kept with its default content otherwise, fillers naming no slot discarded;
extend-macro chains resolved (an extending macro fills slots of its base and may
re-open them; fillers of the final user pass through to slots the extender left
open).  Evaluation logs (recording callables inside macro bodies, slot defaults and
fillers) must agree as well: fillers run once per use, discarded fillers and replaced
defaults never.  Variables: probes of local / global definitions made in macro bodies
and fillers, before and after each use.
Libraries live in the same template, in another string template, or in file
templates reached through load:.
"""
import os
import random
import shutil
import tempfile

from vlib import monitors

PROP = 'C09'
TITLE = 'METAL = inlining'
DEBUG_SHARDS = True      # two of sixteen shards run the library in its debug mode (vlib/runner.py)
LEVEL = 'exploration'
SHARDS = {'quick': 16, 'thorough': 16}
FLOOR = {'quick': 800, 'thorough': 10000}
REQUIRED_MONITORS = {'pairs-compared': 2000, 'uses-with-fillers': 800, 'extend-chains': 150, 'switch-boundary-compared': 100, 'history-uses-compared': 100, 'translation-block-slots-compared': 100, 'whole-template-uses-compared': 300, 'load-directories-compared': 100, 'names-and-fallbacks-compared': 300}
RULE = ('a case = (library of 1..3 macros with 0..3 define-slot regions each - repeated slot names allowed, nested uses of '
        'earlier macros inside bodies, extend-macro chains up to length 3 - , caller with 1..3 uses filling random subsets of '
        'slots plus unknown names, uses inside tal:repeat / tal:define, two consecutive uses in one scope, local and global '
        'definitions and recording callables inside bodies, defaults and fillers; library placement in {same template, other '
        'string template, file via load:}; pre-bound variables); non-trivial iff the caller fills >=1 slot or nests / extends; '
        'distinct by (slot-name multiset per macro, filled subset per use, nesting shape, placement).')
ASSUMPTIONS = ['the inliner (80 lines) encodes the statement; both renderings come from the real engine, so everything but the '
               'METAL machinery cancels out']

SLOTS = ['s1', 's2', 's3']
PROBE = "[${a|'U'},${b|'U'},${g|'U'},${macroname|'-'}]"


class Macro:
    def __init__(self, name, items, base=None, efills=None):
        self.name, self.items, self.base, self.efills = name, items, base, efills


class Gen:
    def __init__(self, rng):
        self.rng = rng
        self.nid = 0
        self.stats = {'fills': 0, 'unknown': 0, 'nested': 0}

    def rec(self):
        self.nid += 1
        return ('rec', self.nid)

    def items(self, depth, allow_slot, others, tag):
        rng = self.rng
        out = []
        for _ in range(rng.randint(1, 3)):
            k = rng.random()
            if k < .2:
                out.append(('probe',))
            elif k < .3:
                out.append(self.rec())
            elif k < .45 and allow_slot:
                body = self.items(depth + 1, False, others, tag) if depth < 2 else [('text', 'D')]
                if rng.random() < .3:
                    # tal:define on the define-slot element itself: part of the slot region, i.e. replaced with it
                    out.append(('slot', rng.choice(SLOTS), body, (rng.choice(['a', 'b']), '%sS%d' % (tag, rng.randint(1, 99)))))
                else:
                    out.append(('slot', rng.choice(SLOTS), body))
            elif k < .57 and depth < 2:
                out.append(('ldef', rng.choice(['a', 'b']), '%s%d' % (tag, rng.randint(1, 99)),
                            self.items(depth + 1, allow_slot, others, tag)))
            elif k < .65:
                out.append(('gdef', 'g', '%sG%d' % (tag, rng.randint(1, 99))))
            elif k < .72 and depth < 2:
                out.append(('rep', self.items(depth + 1, allow_slot, others, tag)))
            elif k < .87 and others and depth < 2:
                out.append(self.use(rng.choice(others), depth, tag))
                self.stats['nested'] += 1
            else:
                out.append(('text', '%s-t%d' % (tag, rng.randint(1, 99))))
        return out

    def use(self, macro, depth, tag):
        rng = self.rng
        fills = {}
        for sl in SLOTS + ['zz']:
            if rng.random() < (.4 if sl != 'zz' else .15):
                fills[sl] = self.items(depth + 1, False, [], tag + 'f') + ([self.rec()] if rng.random() < .5 else [])
        self.stats['fills'] += len(fills)
        return ('use', macro, fills)


def ser_items(items, ref):
    out = ''
    for it in items:
        k = it[0]
        if k == 'text':
            out += it[1]
        elif k == 'probe':
            out += PROBE
        elif k == 'rec':
            out += '${f(%d)}' % it[1]
        elif k == 'slot':
            d = ' tal:define="%s \'%s\'"' % it[3] if len(it) > 3 else ''
            out += '<i metal:define-slot="%s"%s>%s</i>' % (it[1], d, ser_items(it[2], ref))
        elif k == 'ldef':
            out += '<d tal:define="%s \'%s\'">%s</d>' % (it[1], it[2], ser_items(it[3], ref))
        elif k == 'gdef':
            out += '<d tal:define="global %s \'%s\'"/>' % (it[1], it[2])
        elif k == 'rep':
            out += '<tal:r repeat="r (1, 2)">%s</tal:r>' % ser_items(it[1], ref)
        elif k == 'inmacro':
            out += '<m metal:define-macro="%s">%s</m>' % (it[1], ser_items(it[2], ref))
        elif k == 'use':
            out += '<u metal:use-macro="%s">%s</u>' % (ref(it[1]), ''.join(
                '<f metal:fill-slot="%s">%s</f>' % (sl, ser_items(b, ref)) for sl, b in it[2].items()))
    return out


def ser_macro(m, ref):
    if m.base is None:
        return '<m metal:define-macro="%s">%s</m>' % (m.name, ser_items(m.items, ref))
    return '<m metal:define-macro="%s" metal:extend-macro="%s">%s</m>' % (m.name, ref(m.base), ''.join(
        '<e metal:fill-slot="%s">%s</e>' % (sl, ser_items(b, ref)) for sl, b in m.efills.items()))


def slot_names(items, acc=None):
    """Names of all define-slot regions of one render function (not descending into fillers of nested uses)."""
    if acc is None:
        acc = set()
    for it in items:
        if it[0] == 'slot':
            acc.add(it[1])
            slot_names(it[2], acc)
        elif it[0] in ('ldef',):
            slot_names(it[3], acc)
        elif it[0] == 'rep':
            slot_names(it[1], acc)
        elif it[0] == 'inmacro':
            slot_names(it[2], acc)
    return acc


class Inliner:
    """reference=True: the statement's semantics.  reference=False: alternate model of the known
    mechanism (fillers live in the dynamic variable scope as per-slot stacks: a use *sets* the stack of
    each slot it fills, a macro function *pops* one filler for every slot name it defines when it starts,
    and whatever is not consumed stays visible to later uses in the same scope and to uses nested in
    macro bodies)."""

    def __init__(self, ref, reference=True):
        self.ref, self.reference = ref, reference

    def items(self, items, fillers, scope):
        out = ''
        for it in items:
            k = it[0]
            if k == 'text':
                out += it[1]
            elif k == 'probe':
                out += PROBE
            elif k == 'rec':
                out += '${f(%d)}' % it[1]
            elif k == 'slot':
                d = ' tal:define="%s \'%s\'"' % it[3] if len(it) > 3 else ''
                out += fillers[it[1]] if fillers.get(it[1]) is not None else '<i%s>%s</i>' % (d, self.items(it[2], fillers, scope))
            elif k == 'ldef':
                out += '<d tal:define="%s \'%s\'">%s</d>' % (it[1], it[2], self.items(it[3], fillers, scope))
            elif k == 'gdef':
                out += '<d tal:define="global %s \'%s\'"/>' % (it[1], it[2])
            elif k == 'rep':
                if self.reference:
                    out += '<tal:r repeat="r (1, 2)">%s</tal:r>' % self.items(it[1], fillers, scope)
                else:
                    # the alternate model is stateful (fillers are consumed): unroll the two iterations
                    for r in (1, 2):
                        out += '<tal:r define="r %d">%s</tal:r>' % (r, self.items(it[1], fillers, scope))
            elif k == 'inmacro':
                out += '<m>%s</m>' % self.items(it[2], fillers, scope)
            elif k == 'use':
                sub = {sl: '<f>%s</f>' % self.items(b, fillers, scope) for sl, b in it[2].items()}
                out += self.use(it[1], sub, scope)
        return out

    def use(self, m, sub, scope):
        """sub: slot -> inlined filler source written at the use; scope: dynamic per-slot stacks (alt model only)."""
        if self.reference:
            return self.expand(m, sub, None)
        for sl, src in sub.items():
            scope[sl] = [src]                    # econtext[KEY] = deque((filler,))
        return self.expand(m, None, dict(scope))   # the macro runs on a shallow copy: stacks are shared objects

    def expand(self, m, sub, scope):
        name = self.ref(m)
        if m.base is None:
            if self.reference:
                fillers = {sl: sub.get(sl) for sl in slot_names(m.items)}
            else:
                fillers = {}
                for sl in sorted(slot_names(m.items)):
                    st = scope.get(sl)
                    fillers[sl] = st.pop() if st else None
            body = '<m>%s</m>' % self.items(m.items, fillers, scope)
        else:
            # extending macro: its own fill-slot elements fill the base; they may re-open slots (define-slot
            # inside the filler) which the final user's fillers fill; the user's fillers for slots the
            # extender does not fill pass through to the base
            if self.reference:
                mine = {}
                for sl, b in m.efills.items():
                    fl = {s2: sub.get(s2) for s2 in slot_names(b)}
                    mine[sl] = '<e>%s</e>' % self.items(b, fl, None)
                passed = {sl: src for sl, src in sub.items() if sl not in m.efills}
                passed.update(mine)
                body = self.expand_base(m.base, passed, None)
            else:
                # extend: the extender's fillers are put in FRONT of what is already on the stacks
                fl = {}
                for sl in sorted(set().union(*[slot_names(b) for b in m.efills.values()]) if m.efills else []):
                    st = scope.get(sl)
                    fl[sl] = st.pop() if st else None
                for sl, b in m.efills.items():
                    src = '<e>%s</e>' % self.items(b, fl, scope)
                    if sl in scope:
                        scope[sl].insert(0, src)       # _slots.appendleft(filler) on the existing (shared) stack
                    else:
                        scope[sl] = [src]
                body = self.expand_base(m.base, None, dict(scope))
        return '<tal:mn define="macroname string:%s">%s</tal:mn>' % (name.rsplit('/', 1)[-1], body)

    def expand_base(self, base, sub, scope):
        # the extending element uses its base by the base's name: macroname is rebound there
        return self.expand(base, sub, scope)


def build_case(rng, placement):
    g = Gen(rng)
    macros = []
    for i in range(rng.randint(1, 3)):
        if macros and rng.random() < .3:
            base = rng.choice(macros)
            efills = {}
            for sl in SLOTS:
                if rng.random() < .5:
                    body = g.items(1, False, [], 'E%d' % i)
                    if rng.random() < .5:
                        body.append(('slot', rng.choice(SLOTS), [('text', 'ED')]))
                    efills[sl] = body
            macros.append(Macro('m%d' % i, [], base, efills))
        else:
            macros.append(Macro('m%d' % i, g.items(0, True, [m for m in macros if m.base is None], 'M%d' % i)))
    caller = g.items(0, False, macros, 'C')
    if not any(it[0] == 'use' for it in caller):
        caller.append(g.use(rng.choice(macros), 0, 'C'))
    if rng.random() < .5:
        # two consecutive uses in one scope
        caller.append(g.use(rng.choice(macros), 0, 'C'))
    return g, macros, caller


def contains_extend_use(items, macros):
    for it in items:
        if it[0] == 'use' and it[1].base is not None:
            return True
        for sub in it[1:]:
            if isinstance(sub, list) and sub and isinstance(sub[0], tuple) and contains_extend_use(sub, macros):
                return True
    return False


def shape(macros, caller):
    def sh(items):
        out = []
        for it in items:
            if it[0] == 'slot':
                out.append(('slot', it[1], sh(it[2])))
            elif it[0] == 'use':
                out.append(('use', it[1].name, tuple(sorted(it[2]))))
            elif it[0] in ('ldef',):
                out.append(('ldef', sh(it[3])))
            elif it[0] == 'rep':
                out.append(('rep', sh(it[1])))
            else:
                out.append(it[0])
        return tuple(out)
    return (tuple((m.name, m.base.name if m.base else None, sh(m.items), tuple(sorted(m.efills or ()))) for m in macros),
            sh(caller))


def render(src, env, lib=None, files=None):
    from chameleon import PageTemplate, PageTemplateFile
    log = []

    def f(i):
        log.append(i)
        return 'r%d' % i
    try:
        if files is not None:
            t = PageTemplateFile(files)
            out = t(f=f, **env)
        else:
            kw = dict(env)
            if lib is not None:
                kw['lib'] = PageTemplate(lib)
            out = __import__('vlib.routes').routes.make(PageTemplate, src, 8, __import__('vlib.state').state.CTX)(f=f, **kw)
        return out, log
    except Exception as e:
        return 'RAISED %s %s' % (type(e).__name__, str(e).split('\n')[0][:120]), log


def run(ctx):
    monitors.install(ctx, tokalg=False)
    rng = ctx.rng
    n = 150 if ctx.quick else 2500
    tmp = tempfile.mkdtemp(prefix='c09_')
    try:
        for case in range(n):
            placement = rng.choice(['same', 'other', 'file'])
            g, macros, caller = build_case(rng, placement)
            if placement == 'same':
                ref = lambda m: "template.macros['%s']" % m.name
            elif placement == 'other':
                ref = lambda m: "lib.macros['%s']" % m.name
            else:
                ref = lambda m: "libt.macros['%s']" % m.name
            libsrc = '<lib>' + ''.join(ser_macro(m, ref) for m in macros) + '</lib>'
            callsrc = '<x>' + ser_items(caller, ref) + PROBE + '</x>'
            env = rng.choice([{}, {'a': 'ENVa'}, {'b': 'ENVb', 'g': 'ENVg'}])
            inl = '<x>' + Inliner(ref, True).items(caller, {}, None) + PROBE + '</x>'
            if placement == 'same':
                # the library renders in place first (define-macro elements render where they stand): compare only
                # the caller part by rendering the library alone and removing that prefix
                full, flog = render(libsrc + callsrc, env)
                pre, plog = render(libsrc, env)
                if full.startswith('RAISED') or pre.startswith('RAISED') or not full.startswith(pre):
                    got = (full, flog)
                else:
                    got = (full[len(pre):], flog[len(plog):])
                # globals defined while the library rendered in place are visible to the caller: same prefix for inlined
                ifull, ilog = render(libsrc + inl, env)
                want = (ifull[len(pre):], ilog[len(plog):]) if ifull.startswith(pre) else (ifull, ilog)
            elif placement == 'other':
                got = render(callsrc, env, lib=libsrc)
                want = render(inl, env)
            else:
                d = os.path.join(tmp, 'c%d' % (case % 3))
                os.makedirs(d, exist_ok=True)
                with open(os.path.join(d, 'lib.pt'), 'w') as fh:
                    fh.write(libsrc)
                with open(os.path.join(d, 'caller.pt'), 'w') as fh:
                    fh.write('<tal:l define="libt load: lib.pt">' + callsrc + '</tal:l>')
                got = render(None, env, files=os.path.join(d, 'caller.pt'))
                want = render(inl, env)
            ctx.mon('pairs-compared')
            ctx.mon('uses-with-fillers', g.stats['fills'])
            has_ext = any(m.base is not None for m in macros) and contains_extend_use(caller, macros)
            if has_ext:
                ctx.mon('extend-chains')
            ctx.case(key=(shape(macros, caller), placement, tuple(sorted(env))), nontrivial=g.stats['fills'] > 0 or g.stats['nested'] > 0 or has_ext,
                     sample={'library': libsrc, 'caller': callsrc, 'inlined': inl, 'rendered': got[0], 'log': got[1]} if case < 2 else None)
            if got != want:
                key = 'output-differs' if got[0] != want[0] else 'evaluation-log-differs'
                if got[0].startswith('RAISED'):
                    key = 'raised-' + got[0].split()[1]
                # alternate model of the known mechanism
                alt_src = '<x>' + Inliner(ref, False).items(caller, {}, {}) + PROBE + '</x>'
                if placement == 'same':
                    afull, alog = render(libsrc + alt_src, env)
                    alt = (afull[len(pre):], alog[len(plog):]) if afull.startswith(pre) else (afull, alog)
                else:
                    alt = render(alt_src, env)
                if alt == got:
                    key = 'stale-or-passthrough-fill-slot'
                ctx.violation(key, 'placement %s, pre-bound %r\n  LIB %r\n  CALLER %r\n  INLINED %r\n  with METAL %r\n  inlined    %r' % (
                    placement, env, libsrc, callsrc, inl, got, want),
                    {'kind': 'metal', 'lib': libsrc, 'caller': callsrc, 'inlined': inl, 'env': env, 'placement': placement})
    finally:
        shutil.rmtree(tmp, ignore_errors=True)
    layer_switch_across_boundaries(ctx, 12 if ctx.quick else 100)
    layer_redefinition_histories(ctx, 10 if ctx.quick else 120)
    layer_slots_in_translation_blocks(ctx, 40 if ctx.quick else 400)
    layer_whole_template(ctx, 30 if ctx.quick else 500)
    layer_load_across_directories(ctx, 10 if ctx.quick else 150)
    layer_names_and_fallbacks(ctx, 30 if ctx.quick else 400)
    layer_handed_on_slots(ctx, 25 if ctx.quick else 300)



def layer_whole_template(ctx, n):
    """A whole template given to metal:use-macro (a template object in a variable, or load: of a file): its
    define-slot regions stand in the template body outside any define-macro (plus one inside a macro that the body
    renders in place); the use equals the body inlined with those regions filled."""
    rng = ctx.rng
    tmp = tempfile.mkdtemp(prefix='c09w_')
    try:
        for case in range(n):
            g = Gen(rng)
            body = []
            while not slot_names(body):
                body = g.items(0, True, [], 'W')
            # top-level regions use s1/s2; the macro rendered in place inside the body has a region of its own
            def rename(items):
                out = []
                for it in items:
                    if it[0] == 'slot':
                        it = ('slot', 's1' if it[1] == 's3' else it[1], rename(it[2])) + tuple(it[3:])
                    elif it[0] == 'ldef':
                        it = it[:3] + (rename(it[3]),)
                    elif it[0] == 'rep':
                        it = ('rep', rename(it[1]))
                    out.append(it)
                return out
            body = rename(body)
            if rng.random() < .5:
                body.insert(rng.randint(0, len(body)), ('inmacro', 'im', [('text', 'IM'), ('slot', 's3', [('text', 'IMD'), g.rec()]), g.rec()]))
            placement = rng.choice(['variable', 'file'])
            name = 'W' if placement == 'variable' else 'load: w.pt'
            W = Macro('W', body)
            ref = lambda m: name
            uses = []
            for _ in range(rng.choice([1, 1, 2])):
                uses.append(g.use(W, 0, 'C'))
            wsrc = '<w>' + ser_items(body, ref) + '</w>'
            wrap = rng.choice(['%s', '<tal:r repeat="r (1, 2)">%s</tal:r>', '<d tal:define="a \'CA\'">%s</d>'])
            callsrc = '<x>' + PROBE + wrap % ser_items(uses, ref) + PROBE + '</x>'
            inl_i = Inliner(ref, True)
            inl_uses = ''
            for u in uses:
                fillers = {sl: ('<f>%s</f>' % inl_i.items(u[2][sl], {}, None) if sl in u[2] else None) for sl in slot_names(body)}
                inl_uses += '<tal:mn define="macroname string:%s"><w>%s</w></tal:mn>' % (name, inl_i.items(body, fillers, None))
            inl = '<x>' + PROBE + wrap % inl_uses + PROBE + '</x>'
            env = rng.choice([{}, {'a': 'ENVa'}, {'b': 'ENVb', 'g': 'ENVg'}])
            if placement == 'variable':
                from chameleon import PageTemplate
                got = render(callsrc, dict(env, W=PageTemplate(wsrc)))
            else:
                d = os.path.join(tmp, 'w%d' % (case % 3))
                os.makedirs(d, exist_ok=True)
                with open(os.path.join(d, 'w.pt'), 'w') as fh:
                    fh.write(wsrc)
                with open(os.path.join(d, 'caller.pt'), 'w') as fh:
                    fh.write(callsrc)
                got = render(None, env, files=os.path.join(d, 'caller.pt'))
            want = render(inl, env)
            ctx.mon('whole-template-uses-compared')
            filled = sum(1 for u in uses for sl in u[2] if sl in slot_names(body))
            ctx.case(key=('whole', shape([W], uses), placement, wrap[:8], tuple(sorted(env))), nontrivial=filled > 0,
                     sample={'template': wsrc, 'caller': callsrc, 'inlined': inl, 'rendered': got[0]} if case < 2 else None)
            if got != want:
                key = 'whole-template-use-differs' if got[0] != want[0] else 'whole-template-use-log-differs'
                ctx.violation(key, 'a whole template used as a macro (%s), pre-bound %r\n  TEMPLATE %r\n  CALLER %r\n  INLINED %r\n  '
                              'with METAL %r\n  inlined    %r' % (placement, env, wsrc, callsrc, inl, got, want),
                              {'kind': 'whole', 'w': wsrc, 'caller': callsrc, 'inlined': inl, 'env': env, 'placement': placement})
    finally:
        shutil.rmtree(tmp, ignore_errors=True)



def layer_load_across_directories(ctx, n):
    """Macros reached through load: from file templates in several directories: a relative name is looked up next to
    the template that writes it, whatever was loaded before (by this template, by the loaded ones, in this or an
    earlier rendering); same-named files exist in every directory and say where they live."""
    from chameleon import PageTemplateFile
    rng = ctx.rng
    tmp = tempfile.mkdtemp(prefix='c09d_')
    try:
        for case in range(n):
            root = os.path.join(tmp, 'k%d' % case)
            dirs = ['', 'sub', os.path.join('sub', 'deep'), 'other']
            for d in dirs:
                os.makedirs(os.path.join(root, d), exist_ok=True)
                for name in ('layout.pt', 'widgets.pt'):
                    with open(os.path.join(root, d, name), 'w') as fh:
                        # a library may itself use a macro of its neighbour (looked up next to itself)
                        nested = ''
                        if name == 'widgets.pt' and rng.random() < .5:
                            nested = '<u metal:use-macro="load: layout.pt"><f metal:fill-slot="s">nested-from-%s</f></u>' % (d or 'top')
                        fh.write('<m metal:define-macro="m">[%s in %s:<i metal:define-slot="s">default</i>%s]</m>' % (name, d or 'top', nested))
            steps = []
            for _ in range(rng.randint(2, 4)):
                d = rng.choice(dirs)
                name = rng.choice(['layout.pt', 'widgets.pt'])
                steps.append((d, name, rng.random() < .5))
            body = ''
            want = ''
            for j, (d, name, fill) in enumerate(steps):
                spec = (d + '/' if d else '') + name
                body += '<u metal:use-macro="load: %s">%s</u>' % (spec.replace(os.sep, '/'), '<f metal:fill-slot="s">F%d</f>' % j if fill else '')

                def expect(d, name, filler):
                    nested = ''
                    text = open(os.path.join(root, d, name)).read()
                    if 'nested-from' in text:
                        nested = expect(d, 'layout.pt', '<f>nested-from-%s</f>' % (d or 'top'))
                    return '<m>[%s in %s:%s%s]</m>' % (name, d or 'top', filler or '<i>default</i>', nested)
                want += expect(d, name, '<f>F%d</f>' % j if fill else None)
            with open(os.path.join(root, 'caller.pt'), 'w') as fh:
                fh.write('<x>' + body + '</x>')
            want = '<x>' + want + '</x>'
            outs = []
            try:
                t = PageTemplateFile(os.path.join(root, 'caller.pt'))
                for again in range(2):
                    outs.append(t())
            except Exception as e:
                outs.append('RAISED %s %s' % (type(e).__name__, str(e).split('\n')[0][:160]))
            ctx.mon('load-directories-compared')
            ctx.case(key=('load-dirs', tuple((d, nme, fl) for d, nme, fl in steps)), nontrivial=len({d for d, _, _ in steps}) > 1)
            if outs != [want, want]:
                ctx.violation('macro-loaded-from-the-wrong-directory', 'caller.pt %r (every directory of %r holds layout.pt and widgets.pt)\n  '
                              'renderings %r\n  expected   %r (twice)' % ('<x>' + body + '</x>', dirs, outs, want),
                              {'kind': 'load-dirs', 'steps': [list(x) for x in steps]})
    finally:
        shutil.rmtree(tmp, ignore_errors=True)



def layer_names_and_fallbacks(ctx, n):
    """(a) Macro and slot names in other scripts than Latin: names that differ are different macros / slots, whatever they
    have in common once reduced to ASCII; (b) a macro expression that falls back: looking up a macro that does not exist
    fails while the expression is evaluated, so `macros['custom'] | macros['standard']` and `exists:` guards work."""
    rng = ctx.rng
    NAMESETS = [('шапка', 'текст', 'цвета'), ('ヘッダ', 'フッタ', 'ボディ'), ('页眉', '页脚', '正文'), ('tête', 'tâte', 'tüte'), ('a①', 'a②', 'a③'), ('s1', 's2', 's3')]
    for case in range(n):
        kind = rng.choice(['slot-names', 'macro-names', 'fallback', 'exists-guard'])
        other = ''
        if kind == 'slot-names':
            names = rng.choice(NAMESETS)
            lib = '<lib><m metal:define-macro="m">' + ''.join('[<i metal:define-slot="%s">default-%d</i>]' % (nm, j) for j, nm in enumerate(names)) + '</m></lib>'
            filled = [j for j in range(3) if rng.random() < .5]
            other = rng.choice([x for x in NAMESETS if x is not names])[0]
            use = '<u metal:use-macro="lib.macros[\'m\']">' + ''.join('<f metal:fill-slot="%s">filler-%d</f>' % (names[j], j) for j in filled) + \
                  '<f metal:fill-slot="%s">discarded</f></u>' % other
            want = '<x><m>' + ''.join('[%s]' % ('<f>filler-%d</f>' % j if j in filled else '<i>default-%d</i>' % j) for j in range(3)) + '</m></x>'
            got = render('<x>' + use + '</x>', {}, lib=lib)[0]
        elif kind == 'macro-names':
            names = rng.choice(NAMESETS)
            lib = '<lib>' + ''.join('<m metal:define-macro="%s">macro-%d</m>' % (nm, j) for j, nm in enumerate(names)) + '</lib>'
            j = rng.randrange(3)
            use = '<u metal:use-macro="lib.macros[\'%s\']"/>' % names[j]
            want = '<x><m>macro-%d</m></x>' % j
            got = render('<x>' + use + '</x>', {}, lib=lib)[0]
        elif kind == 'fallback':
            lib = '<lib><m metal:define-macro="standard">std[<i metal:define-slot="s">d</i>]</m></lib>'
            expr = rng.choice(["lib.macros['custom'] | lib.macros['standard']", "nosuchvar | lib.macros['standard']",
                               "lib.macros['custom'] | lib.macros['alsomissing'] | lib.macros['standard']"])
            use = '<u metal:use-macro="%s"><f metal:fill-slot="s">F</f></u>' % expr
            want = '<x><m>std[<f>F</f>]</m></x>'
            got = render('<x>' + use + '</x>', {}, lib=lib)[0]
        else:
            lib = '<lib><m metal:define-macro="standard">std</m></lib>'
            use = ('<a tal:condition="exists: lib.macros[\'sidebar\']"><u metal:use-macro="lib.macros[\'sidebar\']"/></a>'
                   '<b tal:condition="exists: lib.macros[\'standard\']"><u metal:use-macro="lib.macros[\'standard\']"/></b>')
            want = '<x><b><m>std</m></b></x>'
            got = render('<x>' + use + '</x>', {}, lib=lib)[0]
        ctx.mon('names-and-fallbacks-compared')
        ctx.case(key=('names', kind, case % 11), nontrivial=True)
        if got != want and kind in ('slot-names', 'macro-names') and got.startswith('RAISED SyntaxError') and \
                any(not ('_' + ch).isidentifier() for nm in list(names) + [other] for ch in nm):
            # known mechanism: the name is copied into an identifier of the generated module; a character that the name
            # pattern accepts (\w) but Python identifiers do not (circled / superscript digits ...) makes the module invalid
            ctx.violation('name-with-a-character-that-is-no-identifier-character-breaks-the-generated-module',
                          '%s: LIB %r CALLER %r: %s' % (kind, lib, use, got), {'kind': 'metal', 'lib': lib, 'caller': '<x>' + use + '</x>',
                                                                               'inlined': want, 'env': {}, 'placement': 'other'})
        elif got != want:
            ctx.violation('macro-or-slot-name-resolution', '%s: LIB %r CALLER %r rendered %r, expected %r' % (kind, lib, use, got, want),
                          {'kind': 'metal', 'lib': lib, 'caller': '<x>' + use + '</x>', 'inlined': want, 'env': {}, 'placement': 'other'})


def layer_slots_in_translation_blocks(ctx, n):
    """Slots that stand inside an i18n:translate / i18n:name block of the macro, and macro uses that stand inside
    such a block of the caller: the filler's output belongs where the slot stands (inlining)."""
    rng = ctx.rng
    for case in range(n):
        where = rng.choice(['slot-in-translate', 'slot-in-name', 'slot-in-nested-name', 'plain'])
        caller_in = rng.choice(['plain', 'translate', 'name'])
        filler = rng.choice(['<f>FILL${f(5)}</f>', '<f tal:content="f(5)">x</f>', '<f><b tal:condition="f(5)">y</b>z</f>'])
        fill_attr = ' metal:fill-slot="s"'
        fsrc = filler.replace('<f', '<f' + fill_attr, 1)
        slot = '<i metal:define-slot="s">d${f(3)}</i>'
        shapes = {
            'slot-in-translate': '<p i18n:translate="">A ${f(1)} %s B</p>',
            'slot-in-name': '<p i18n:translate="">before <b i18n:name="n">[%s]</b> after</p>',
            'slot-in-nested-name': '<p i18n:translate="">o <b i18n:name="n"><u i18n:translate="">i <q i18n:name="k">%s</q> j</u></b> p</p>',
            'plain': '(%s)',
        }
        # the same slot name may be defined a second time elsewhere in the macro (outside / inside another block): every
        # region of the name is replaced by the filler
        second = rng.choice(['', '', '{%s}', '<p i18n:translate="">X %s Y</p>', '<p i18n:translate="">v <b i18n:name="w">%s</b></p>'])
        before = rng.random() < .5
        extra_slot = second % slot if second else ''
        extra_inl = second % filler if second else ''
        body_slot = (extra_slot + shapes[where] % slot) if before else (shapes[where] % slot + extra_slot)
        body_inl = (extra_inl + shapes[where] % filler) if before else (shapes[where] % filler + extra_inl)
        lib = '<lib><m metal:define-macro="m">%s${f(2)}</m></lib>' % body_slot
        use = '<u metal:use-macro="lib.macros[\'m\']">%s</u>' % fsrc
        inl = '<m>%s${f(2)}</m>' % body_inl
        wrap = {'plain': '%s', 'translate': '<p i18n:translate="">C %s D</p>', 'name': '<p i18n:translate="">C <b i18n:name="k9">%s</b> D</p>'}[caller_in]
        got = render('<x>' + wrap % use + '</x>', {}, lib=lib)
        want = render('<x>' + wrap % inl + '</x>', {})
        ctx.mon('translation-block-slots-compared')
        ctx.case(key=('slot-in-translation-block', where, caller_in, filler[:8], second[:12], before), nontrivial=True)
        if got != want:
            ctx.violation('slot-in-translation-block-differs', 'slot %s, use %s\n  LIB %r\n  CALLER %r\n  with METAL %r\n  inlined %r' % (
                where, caller_in, lib, wrap % use, got, want),
                {'kind': 'metal', 'lib': lib, 'caller': '<x>' + wrap % use + '</x>', 'inlined': '<x>' + wrap % inl + '</x>', 'env': {}, 'placement': 'other'})


def layer_redefinition_histories(ctx, n):
    """METAL = inlining over a HISTORY: the template that defines the macro is rewritten (write(), or its file
    edited under auto_reload) between uses; every use must equal inlining the macro as it is defined NOW
    (and a macro that is no longer defined cannot be used)."""
    from chameleon import PageTemplate, PageTemplateFile
    rng = ctx.rng
    tmp = tempfile.mkdtemp(prefix='c09h_')

    def libsrc(k, name):
        return '<lib><m metal:define-macro="%s">V%d[<i metal:define-slot="s">d%d</i>]${f(%d)}</m></lib>' % (name, k, k, k)
    try:
        for case in range(n):
            kind = rng.choice(['object', 'file', 'self'])
            version, name = 0, 'm'
            mtime = 1_600_000_000
            if kind == 'object':
                lib = PageTemplate(libsrc(0, 'm'))
            elif kind == 'file':
                fn = os.path.join(tmp, 'lib%d.pt' % case)
                with open(fn, 'w') as fh:
                    fh.write(libsrc(0, 'm'))
                os.utime(fn, (mtime, mtime))
                lib = PageTemplateFile(fn, auto_reload=True)
            else:
                lib = None
            callsrc = '<x><u metal:use-macro="%s.macros[\'m\']"><b metal:fill-slot="s">F${f(99)}</b></u></x>'
            if kind == 'self':
                caller = PageTemplate(libsrc(0, 'm') + callsrc % 'template')
            else:
                caller = PageTemplate(callsrc % 'lib')
            hist = []
            for step in range(rng.randint(3, 8)):
                op = rng.choice(['render', 'render', 'rewrite', 'rename', 'lookup'])
                if op in ('rewrite', 'rename'):
                    version += 1
                    name = 'm' if op == 'rewrite' else rng.choice(['m', 'other'])
                    mtime += 10
                    if kind == 'object':
                        lib.write(libsrc(version, name))
                    elif kind == 'file':
                        with open(fn, 'w') as fh:
                            fh.write(libsrc(version, name))
                        os.utime(fn, (mtime, mtime))
                    else:
                        caller.write(libsrc(version, name) + callsrc % 'template')
                    hist.append('%s->v%d:%s' % (op, version, name))
                    continue
                if op == 'lookup':
                    try:
                        (caller if kind == 'self' else lib).macros['m']
                    except KeyError:
                        pass
                    hist.append('lookup')
                    continue
                log = []

                def f(i):
                    log.append(i)
                    return 'r%d' % i
                try:
                    out = caller(f=f, lib=lib)
                except Exception as e:
                    out = 'RAISED %s' % type(e).__name__
                pre = ('<lib><m>V%d[<i>d%d</i>]r%d</m></lib>' % (version, version, version)) if kind == 'self' else ''
                prelog = [version] if kind == 'self' else []
                if name == 'm':
                    want = (pre + '<x><m>V%d[<b>Fr99</b>]r%d</m></x>' % (version, version), prelog + [99, version])
                else:
                    want = ('RAISED KeyError', prelog)
                hist.append('render')
                ctx.mon('history-uses-compared')
                ctx.case(key=('redef-history', kind, tuple(h.split('->')[0] for h in hist)), nontrivial=version > 0,
                         sample={'history': list(hist), 'rendered': out} if case < 2 else None)
                if (out, log) != want:
                    ctx.violation('macro-use-after-redefinition-differs',
                                  'defining template (%s) history %r: use of macro m rendered %r (log %r), inlining its current '
                                  'definition gives %r' % (kind, hist, out, log, want), {'kind': 'redef', 'placement': 'history'})
                    break
    finally:
        shutil.rmtree(tmp, ignore_errors=True)


def layer_switch_across_boundaries(ctx, n):
    """tal:switch on one side and its tal:case elements on the other side of a macro / filler boundary:
    inlining gives them an ordinary meaning."""
    rng = ctx.rng
    for case in range(n):
        k = rng.choice([1, 2, 3])
        shape = rng.choice(['cases-in-filler', 'cases-in-inplace-macro'])     # (cases in a filler whose switch is in the macro body are rejected at compile time: no lexical switch)
        cases = '<b tal:case="1">one</b><b tal:case="2">two</b><b tal:case="default">other</b>'
        if shape == 'cases-in-filler':
            lib = '<m metal:define-macro="m">[<i metal:define-slot="s">d</i>]</m>'
            caller = '<div tal:switch="k"><u metal:use-macro="lib.macros[\'m\']"><f metal:fill-slot="s">%s</f></u></div>' % cases
            inl = '<div tal:switch="k"><m>[<f>%s</f>]</m></div>' % cases
        elif shape == 'switch-in-macro-cases-in-filler':
            lib = '<m metal:define-macro="m"><d tal:switch="k">[<i metal:define-slot="s"><b tal:case="1">md</b></i>]</d></m>'
            caller = '<u metal:use-macro="lib.macros[\'m\']"><f metal:fill-slot="s">%s</f></u>' % cases
            inl = '<m><d tal:switch="k">[<f>%s</f>]</d></m>' % cases
        else:
            lib = '<m/>'
            caller = '<div tal:switch="k"><p metal:define-macro="q">%s</p></div>' % cases
            inl = '<div tal:switch="k"><p>%s</p></div>' % cases
        got = render('<x>' + caller + '</x>', {'k': k}, lib=lib)
        want = render('<x>' + inl + '</x>', {'k': k})
        ctx.mon('switch-boundary-compared')
        ctx.case(key=('switch-boundary', shape, k), nontrivial=True)
        if got != want:
            key = 'switch-boundary-output-differs'
            if got[0].startswith('RAISED UnboundLocalError') or got[0].startswith('RAISED AssertionError'):
                key = 'case-separated-from-its-switch-by-a-function-boundary'
            ctx.violation(key, 'shape %s, k=%d\n  LIB %r\n  CALLER %r\n  with METAL %r\n  inlined %r' % (shape, k, lib, caller, got, want),
                          {'kind': 'metal', 'lib': lib, 'caller': '<x>' + caller + '</x>', 'inlined': '<x>' + inl + '</x>',
                           'env': {'k': k}, 'placement': 'other'})


def layer_handed_on_slots(ctx, n):
    """A macro M that uses a macro N and hands N's slot on to its own callers (a define-slot inside its fill-slot):
    every execution of that use - each iteration of a loop, each of several uses, a direct define-slot of the same
    name beside them - shows the caller's filler when there is one and M's default otherwise."""
    from chameleon import PageTemplate
    rng = ctx.rng
    for case in range(n):
        parts, wants = [], []
        k = rng.randint(0, 4)
        for j in range(rng.randint(1, 4)):
            kind = rng.choice(['loop', 'use', 'direct'])
            if kind == 'loop':
                parts.append('<tal:r repeat="r rs"><u metal:use-macro="template.macros[\'N\']"><f metal:fill-slot="inner">'
                             '<i metal:define-slot="outer">L%d ${r}</i></f></u></tal:r>' % j)
                wants.append(('loop', j))
            elif kind == 'use':
                parts.append('<u metal:use-macro="template.macros[\'N\']"><f metal:fill-slot="inner"><i metal:define-slot="outer">U%d</i></f></u>' % j)
                wants.append(('use', j))
            else:
                parts.append('<i metal:define-slot="outer">D%d</i>' % j)
                wants.append(('direct', j))
        lib_src = ('<x><n metal:define-macro="N">[N:<i metal:define-slot="inner">n-default</i>]</n>'
                   '<m metal:define-macro="M">{%s}</m></x>' % '|'.join(parts))
        filled = rng.random() < .7
        caller = '<c metal:use-macro="lib.macros[\'M\']">%s</c>' % ('<g metal:fill-slot="outer">FILLED ${r|0}</g>' if filled else 'unused')
        rs = list(range(1, k + 1))

        def one(kind, j, r):
            if kind == 'direct':
                return '<g>FILLED 0</g>' if filled else '<i>D%d</i>' % j
            inner = ('<g>FILLED %d</g>' % r) if filled else ('<i>L%d %d</i>' % (j, r) if kind == 'loop' else '<i>U%d</i>' % j)
            return '<n>[N:<f>%s</f>]</n>' % inner
        want = '<m>{%s}</m>' % '|'.join(''.join(one(kd, j, r) for r in rs) if kd == 'loop' else one(kd, j, 0) for kd, j in wants)
        try:
            got = PageTemplate(caller)(lib=PageTemplate(lib_src), rs=rs)
        except Exception as e:
            got = 'RAISED %s: %s' % (type(e).__name__, str(e).split('\n')[0][:100])
        ctx.mon('handed-on-slots-compared')
        ctx.case(key=('handed-on', tuple(kd for kd, j in wants), filled, min(k, 3)), nontrivial=filled)
        if got != want:
            ctx.violation('handed-on-slot-not-filled-at-every-execution', 'library %r\ncaller %r (loop of %d items)\n  rendered %r\n  expected %r'
                          % (lib_src, caller, k, got, want), {'kind': 'handed-on', 'lib': lib_src, 'caller': caller, 'k': k})


def replay(data):
    if data.get('kind') == 'load-dirs':
        from vlib import shard, state
        ctx = shard.Ctx(PROP, 'quick', 0, 0, 1)
        state.CTX = ctx
        monitors.install(ctx, tokalg=False)
        layer_load_across_directories(ctx, 60)
        return bool(ctx.violations), '\n'.join(v['cases'][0]['what'] for v in ctx.violations.values()) or 'every load: resolves next to its template'
    if data.get('kind') == 'redef':
        from vlib import shard, state
        ctx = shard.Ctx(PROP, 'quick', 0, 0, 1)
        state.CTX = ctx
        monitors.install(ctx, tokalg=False)
        layer_redefinition_histories(ctx, 60)
        return bool(ctx.violations), '\n'.join(v['what'] for v in ctx.violations) or 'all redefinition histories agree with inlining'
    env = data['env']
    if data.get('kind') == 'whole':
        from chameleon import PageTemplate
        got = render(data['caller'].replace('load: w.pt', 'W'), dict(env, W=PageTemplate(data['w'])))
        want = render(data['inlined'].replace('load: w.pt', 'W'), env)
        return got != want, 'TEMPLATE %r\nCALLER %r\nINLINED %r\nwith METAL %r\ninlined %r' % (
            data['w'], data['caller'], data['inlined'], got, want)
    if data['placement'] == 'other':
        got = render(data['caller'], env, lib=data['lib'])
        want = render(data['inlined'], env)
        return got != want, 'LIB %r\nCALLER %r\nINLINED %r\nwith METAL %r\ninlined %r' % (
            data['lib'], data['caller'], data['inlined'], got, want)
    return True, 'LIB %r\nCALLER %r\nINLINED %r (placement %s: re-run ./vcheck C09 with the same seed)' % (
        data['lib'], data['caller'], data['inlined'], data['placement'])
