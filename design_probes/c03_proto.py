import random, sys
sys.path.insert(0, '/repo/src')
from chameleon import PageTemplate
from chameleon.exc import TemplateError
rng = random.Random(int(sys.argv[1]))
NAMES = ['p', 'div', 'B', 'x-y', 'ns:el', 'é', 'a1', 'br', 'li', 'input', '_u', 'a.b']
ANAMES = ['a', 'Class', 'data-x', 'é', 'on_click', 'a.b', '@click', 'xml:lang', 'b', 'c', 'D']
WS = [' ', '  ', '\n', '\t', ' \n ', '\r\n', '\r']
def ws(): return rng.choice(WS)
def ows(): return rng.choice(['', '', '', ' ', '\n', '\r\n'])
def aval():
    chars = ['v', ' ', '&amp;', '&#38;', '&bogus;', '&', '<', '>', 'é', '$', '{', '}', '=', '/', '\n', '\r\n', '\t', '`', '#']
    return ''.join(rng.choice(chars) for _ in range(rng.randint(0, 5)))
def attr():
    n = rng.choice(ANAMES); k = rng.random()
    if k < 0.45: v = aval().replace('"', ''); return ws() + n + ows() + '=' + ows() + '"' + v + "'" * (rng.random() < .2) + '"'
    if k < 0.7: v = aval().replace("'", ''); return ws() + n + ows() + '=' + ows() + "'" + v + '"' * (rng.random() < .2) + "'"
    if k < 0.85: return ws() + n + '=' + ''.join(rng.choice('abc123-_.:%#') for _ in range(rng.randint(1, 4)))
    return ws() + n
def text():
    chars = ['t', ' ', '\n', '\r\n', '\r', '&amp;', '&nbsp;', '&#160;', '&', 'é', '$', '{', '}', '"', "'", '>', '=', '/', ']', '-', '?', '!', '\t', '日本']
    return ''.join(rng.choice(chars) for _ in range(rng.randint(1, 8)))
def comment():
    body = ''.join(rng.choice(['c', ' ', '-', '<', '>', '&', '\n', 'é', '$', '{', '[']) for _ in range(rng.randint(0, 6)))
    if '--' in body or body.endswith('-') or body.startswith(('!', '?', '>')) or body.startswith('->'): body = ' c '
    return '<!--' + body + '-->'
def cdata():
    body = ''.join(rng.choice(['c', ' ', '<', '>', '&', ']', '\n', 'é', '{']) for _ in range(rng.randint(0, 6)))
    if ']]' in body or body.endswith(']'): body = ' c<d '
    return '<![CDATA[' + body + ']]>'
def pi(): return '<?' + rng.choice(['php', 'foo', 'p', 'x']) + rng.choice(['', ' a="b" ', ' echo 1; ', '\n x ']) + '?>'
def element(depth):
    n = rng.choice(NAMES)
    attrs = ''.join(attr() for _ in range(rng.randint(0, 3)))
    # avoid duplicate attribute names
    k = rng.random()
    if k < 0.2: return '<' + n + attrs + ows() + '/>'
    if k < 0.3 and depth < 3: return '<' + n + attrs + ows() + '>' + content(depth + 1)   # unclosed
    return '<' + n + attrs + ows() + '>' + content(depth + 1) + '</' + n + ows() + '>'
def content(depth):
    out = ''
    for _ in range(rng.randint(0, 3 if depth < 3 else 1)):
        k = rng.random()
        if k < 0.4: out += text()
        elif k < 0.75 and depth < 4: out += element(depth)
        elif k < 0.85: out += comment()
        elif k < 0.92: out += cdata()
        else: out += pi()
    return out
def doc():
    d = ''
    k = rng.random()
    xml = False
    if k < 0.25: d += '<?xml version="1.0"?>' + rng.choice(['', '\n', '\r\n']); xml = True
    if rng.random() < 0.3: d += rng.choice(['<!DOCTYPE html>', '<!DOCTYPE html PUBLIC "-//W3C//DTD XHTML 1.0 Strict//EN" "http://www.w3.org/TR/xhtml1/DTD/xhtml1-strict.dtd">', '<!doctype html>']) + '\n'
    d += content(0)
    return d, xml
def active(d):
    return '${' in d or '$$' in d or '<!--!' in d or '<!--?' in d or '<?python' in d
from collections import Counter
stats = Counter(); shown = 0
seen = set()
for i in range(int(sys.argv[2])):
    d, xml = doc()
    if active(d): stats['skipped-active'] += 1; continue
    # duplicate attrs check is skipped (tag soup)
    exp = d if xml else d.replace('\r\n', '\n').replace('\r', '\n')
    try:
        got = PageTemplate(d)()
    except TemplateError as e:
        stats['reject-' + type(e).__name__] += 1; continue
    except Exception as e:
        stats['reject-OTHER-' + type(e).__name__] += 1
        key = type(e).__name__ + str(e)[:30]
        if key not in seen and shown < 30:
            seen.add(key); shown += 1; print('OTHER', type(e).__name__, str(e)[:80], repr(d)[:200])
        continue
    if got == exp: stats['ok'] += 1
    else:
        stats['MISMATCH'] += 1
        # locate first diff
        j = next((k for k in range(min(len(got), len(exp))) if got[k] != exp[k]), min(len(got), len(exp)))
        key = (exp[max(0, j-6):j+6], got[max(0, j-6):j+6])
        cls = 'endtag-ws' if exp[:j].rstrip().endswith(tuple('</' + n for n in NAMES)) else 'other'
        stats['MISMATCH-' + cls] += 1
        if cls == 'other' and shown < 30:
            shown += 1; print('MISMATCH', repr(d), '\n  exp', repr(exp[max(0,j-25):j+25]), '\n  got', repr(got[max(0,j-25):j+25]))
print(dict(stats))
