import sys, threading, time, os
sys.path.insert(0, '/repo/src')
from chameleon import PageTemplateFile
from chameleon.template import BaseTemplate, BaseTemplateFile
from chameleon.loader import TemplateLoader

mon = sys.monitoring
TOOL = mon.DEBUGGER_ID
mon.use_tool_id(TOOL, 'vsched')
codes = [BaseTemplate.cook.__code__, BaseTemplateFile.cook_check.__code__, BaseTemplate._cook.__code__]
gate = {}          # thread name -> Event
trace = []
lock = threading.Lock()
arrived = threading.Condition()
waiting = {}
def on_line(code, line):
    t = threading.current_thread().name
    if t not in gate: return
    ev = gate[t]
    with arrived:
        waiting[t] = (code.co_name, line)
        arrived.notify_all()
    ev.wait(); ev.clear()
    with lock: trace.append((t, code.co_name, line))
mon.register_callback(TOOL, mon.events.LINE, on_line)
for c in codes: mon.set_local_events(TOOL, c, mon.events.LINE)

p = '/tmp/exp/ft/a.pt'
open(p, 'w').write('<p>${x}</p>')
t = PageTemplateFile(p)
res = {}
def work(n):
    res[n] = t(x=n)
    with arrived:
        waiting[n] = 'DONE'; arrived.notify_all()
ths = []
for n in ('A', 'B'):
    gate[n] = threading.Event()
    ths.append(threading.Thread(target=work, args=(n,), name=n))
for th in ths: th.start()
# controller: alternate strictly A,B,A,B...
import itertools
order = itertools.cycle(['A', 'B'])
steps = 0
while True:
    with arrived:
        arrived.wait_for(lambda: len(waiting) == 2 or all(v == 'DONE' for v in waiting.values()) and len(waiting) == 2, timeout=2)
        if len(waiting) == 2 and all(v == 'DONE' for v in waiting.values()): break
        cand = [n for n in ('A', 'B') if waiting.get(n) not in (None, 'DONE')]
    if not cand:
        time.sleep(0.01); continue
    n = next(order)
    while n not in cand: n = next(order)
    with arrived: del waiting[n]
    gate[n].set(); steps += 1
    # wait for n to arrive again or finish
    with arrived:
        arrived.wait_for(lambda: n in waiting, timeout=1)
for th in ths: th.join()
print('steps', steps, 'results', res)
print(trace[:12])
