#!/bin/sh
# Offline setup: install runtime-contract libraries beside the repo's interpreter
# (into /verif/.deps, git-ignored) and create output directories. Idempotent.
set -e
cd "$(dirname "$0")"
mkdir -p evidence replays
if [ ! -d .deps/icontract ]; then
  PIP_NO_INDEX=1 /venv/bin/pip install -q --no-index --find-links /opt/veriftools/wheels \
      --target .deps icontract deal >/dev/null 2>&1 || \
  echo "setup: icontract/deal not installable; checks fall back to hand-written wrappers" >&2
fi
exit 0
