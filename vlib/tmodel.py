"""Template programs as data + the executable reference model (DESIGN §2.1, §2.3).

The AST is mine (not Chameleon's): the oracle knows by construction what every
part of a template is.  The model never calls into Chameleon.

Expressions at statement sites are `Rec(id)`: serialised as `f(<id>)`, where `f` is
a recording callable bound in the template; the binding table says what each id
returns (a value built from a *recipe*) or raises, and every call is logged.
"""
import itertools

from vlib import exprs

# --------------------------------------------------------------------------
# values (recipes): the table maps id -> recipe name; real objects are rebuilt per render


class Boom(Exception):
    """Planted failure of an expression."""


class CustomError(Exception):
    """A user-defined exception class with two constructor arguments and an attribute."""

    def __init__(self, a=None, b=None):
        Exception.__init__(self, a, b)
        self.extra = 'x'


import builtins as _b   # noqa: E402
EXC = {'Boom': Boom, 'CustomError': CustomError}
for _n in ('AttributeError', 'NameError', 'KeyError', 'IndexError', 'LookupError', 'TypeError', 'ValueError',
           'UnboundLocalError', 'ZeroDivisionError', 'RuntimeError', 'OSError', 'AssertionError', 'StopIteration',
           'ImportError', 'ArithmeticError', 'NotImplementedError', 'RecursionError', 'MemoryError', 'BufferError', 'EOFError',
           'StopAsyncIteration', 'ReferenceError'):
    EXC[_n] = getattr(_b, _n)
FALLTHROUGH = (AttributeError, NameError, LookupError, TypeError, ValueError)
EXISTS_CATCH = (AttributeError, LookupError, TypeError, NameError)


def make_exc(name, rid):
    if name == 'UnicodeDecodeError':
        return UnicodeDecodeError('utf-8', b'\xff', 0, 1, 'planted %s' % rid)
    return EXC[name](rid)


RECIPES = {
    'none': lambda: None,
    'zero': lambda: 0,
    'empty': lambda: '',
    'emptylist': lambda: [],
    'false': lambda: False,
    'one': lambda: 1,
    'true': lambda: True,
    'float': lambda: 2.5,
    'str': lambda: 'txt',
    'hostile': lambda: 'a<b&"c\'>',
    'nonascii': lambda: 'é日',
    'bytes': lambda: b'by<',
    'list': lambda: [1, 2],
    'tuple': lambda: (3,),
    'dict': lambda: {'k': 'v'},
    'obj': lambda: exprs.Obj(),
    'markup': lambda: exprs.Markup(),
    'strsub': lambda: StrSub('s<ub'),
    # iterables for repeat
    'it0': lambda: [],
    'it1': lambda: ['p'],
    'it2': lambda: ['p', 'q<'],
    'it3t': lambda: (1, 2, 3),
    'itstr': lambda: 'ab',
    'itgen': lambda: (c for c in 'xy'),
    'ititer': lambda: iter([7, 8]),
    'itrange': lambda: range(2),
    'itdict': lambda: {'k1': 1, 'k2': 2}.keys(),
    'itnone': lambda: None,
    'itpairs': lambda: [('a', 1), ('b', 2)],
}
FALSY = {'none', 'zero', 'empty', 'emptylist', 'false'}
ITERABLES = ['it0', 'it1', 'it2', 'it3t', 'itstr', 'itgen', 'ititer', 'itrange', 'itdict', 'itnone']


class StrSub(str):
    pass


class DefaultMarker:
    """Model-side stand-in for the `default` marker."""

    def __repr__(self):
        return '<DEFAULT>'


DEFAULT = DefaultMarker()


def build_value(recipe, real=False):
    if recipe == 'default':
        if real:
            from chameleon.tales import DEFAULT_MARKER
            return DEFAULT_MARKER
        return DEFAULT
    return RECIPES[recipe]()


# --------------------------------------------------------------------------
# AST
class Text:
    def __init__(self, s):
        self.s = s          # literal text, may contain probe interpolations written by the generator


class Probe:
    """${name|'U'} probes of variable names (scoping observable)."""

    def __init__(self, names):
        self.names = names


class El:
    def __init__(self, tag, statics=None, stmts=None, kids=None, indent=None):
        self.tag = tag
        self.statics = statics or []     # [(name, value)]
        self.stmts = stmts or {}
        self.kids = kids or []
        self.indent = indent             # own-line layout: number of spaces, or None


# stmts keys and values:
#   'define': [(scope, (names...), rid)]      'condition': rid      'repeat': ((names...), rid)
#   'switch': rid    'case': rid      'content': (mode, rid)    'replace': (mode, rid)
#   'omit': None | rid      'attributes': [(name, rid)]     'on-error': (mode, rid)


def E(x):
    """Serialise an expression slot: an int is the recording callable f(<id>)."""
    return 'f(%d)' % x if isinstance(x, int) else x.ser()


STMT_ORDER = ['define', 'switch', 'case', 'condition', 'repeat', 'content', 'replace', 'omit', 'attributes', 'on-error']


def ser_stmt(kind, v):
    if kind == 'define':
        parts = []
        for scope, names, rid in v:
            nm = names[0] if len(names) == 1 else '(%s)' % ', '.join(names)
            parts.append(('' if scope == 'local' else 'global ') + '%s %s' % (nm, E(rid)))
        return 'tal:define="%s"' % '; '.join(parts)
    if kind == 'repeat':
        names, rid = v
        nm = names[0] if len(names) == 1 else '(%s)' % ', '.join(names)
        return 'tal:repeat="%s %s"' % (nm, E(rid))
    if kind == 'attributes':
        return 'tal:attributes="%s"' % '; '.join('%s %s' % (a[0], E(a[1])) for a in v)
    if kind == 'omit':
        return 'tal:omit-tag="%s"' % ('' if v is None else E(v))
    if kind in ('content', 'replace', 'on-error'):
        mode, rid = v
        return 'tal:%s="%s%s"' % (kind, '' if mode == 'text' else 'structure ', E(rid))
    return 'tal:%s="%s"' % (kind, E(v))


def serialise(node, perm_rng=None):
    if isinstance(node, Text):
        return node.s
    if isinstance(node, Probe):
        return '[' + ''.join("${%s|'U'}" % n for n in node.names) + ']'
    if isinstance(node, IText):
        return ''.join(p[1] if p[0] == 'lit' else '${%s}' % E(p[1]) for p in node.parts)
    sparts = ['%s="%s"' % (k, v if isinstance(v, str) else serialise(v)) for k, v in node.statics]
    parts = [ser_stmt(k, node.stmts[k]) for k in STMT_ORDER if k in node.stmts]
    if perm_rng is not None:
        perm_rng.shuffle(parts)
        # interleave the static attributes (keeping their relative order) at random positions
        slots = sorted(perm_rng.randint(0, len(parts)) for _ in sparts)
        for off, (pos, sp) in enumerate(zip(slots, sparts)):
            parts.insert(pos + off, sp)
    else:
        parts = sparts + parts
    lead = ''
    if node.indent is not None:
        lead = '\n' + ' ' * node.indent
    return lead + '<%s%s>%s</%s>' % (node.tag, ''.join(' ' + p for p in parts),
                                    ''.join(serialise(k, perm_rng) for k in node.kids), node.tag)


# --------------------------------------------------------------------------
# the model
MISSING = object()


class Skip(Exception):
    pass


class Model:
    """quirks: set of known-mechanism names switched on in the *alternate* models."""

    def __init__(self, table, quirks=(), extra=None):
        self.extra = extra or {}    # caller-supplied variables (besides f)
        self.table = table          # rid -> recipe | ('raise', excname)
        self.quirks = set(quirks)
        self.log = []
        self.out = []
        self.env = {}
        self.handler_calls = []

    # -- expression evaluation
    def f(self, rid):
        if not isinstance(rid, int):
            return rid.ev(self)
        self.log.append(rid)
        r = self.table[rid]
        if isinstance(r, tuple) and r[0] == 'raise':
            raise make_exc(r[1], rid)
        return build_value(r)

    @staticmethod
    def truth(v):
        if v is DEFAULT:
            return True
        return bool(v)

    @staticmethod
    def to_text(v, escape, quote=None):
        if v is None:
            return None
        raw = exprs.to_text(v)
        if hasattr(v, '__html__') or not escape:
            return raw
        if quote:
            return exprs.escape_attr(raw, quote)
        return exprs.escape_text(raw)

    # -- rendering
    def emit(self, s):
        self.out.append(s)

    def render(self, node, switch=None):
        if isinstance(node, Text):
            return self.emit(node.s)
        if isinstance(node, Probe):
            s = '['
            for n in node.names:
                v = self.env.get(n, MISSING)
                s += 'U' if v is MISSING else (self.to_text(v, True) or '')
            return self.emit(s + ']')
        if isinstance(node, IText):
            for kind, x in node.parts:
                if kind == 'lit':
                    self.emit(exprs.undouble(x))
                else:
                    t = self.to_text(self.f(x), True)
                    self.emit(t or '')
            return
        if node.indent is not None:
            self.emit('\n' + ' ' * node.indent)
        st = node.stmts
        if 'on-error' in st:
            mark = len(self.out)
            saved_env = dict(self.env)
            try:
                self.element(node, switch)
            except Exception as e:
                del self.out[mark:]
                if 'onerror-keeps-locals' not in self.quirks:
                    keep = {k: v for k, v in self.env.items() if k in self.globals_defined}
                    self.env = saved_env
                    self.env.update(keep)
                self.handler_calls.append(e.args[0] if isinstance(e, Boom) and e.args else type(e).__name__)
                mode, rid = st['on-error']
                omitted = 'omit' in st or getattr(node, 'model_omit', False)
                if 'onerror-omit-reevaluated' in self.quirks and st.get('omit') is not None \
                        and not getattr(node, 'model_omit', False):
                    # reading B of the statement: tal:omit-tag still decides about the fallback's tags
                    omitted = self.truth(self.f(st['omit']))
                if not omitted:
                    self.emit('<%s%s>' % (node.tag, ''.join(' %s="%s"' % kv for kv in node.statics)))
                v = self.f(rid)
                t = self.to_text(v, mode == 'text')
                if t is not None:
                    self.emit(t)
                if not omitted:
                    self.emit('</%s>' % node.tag)
            return
        self.element(node, switch)

    globals_defined = frozenset()

    def element(self, node, switch):
        saved = {}

        def bind(name, val):
            if name not in saved:
                saved[name] = self.env.get(name, MISSING)
            self.env[name] = val

        def restore():
            for k, v in saved.items():
                if v is MISSING:
                    self.env.pop(k, None)
                else:
                    self.env[k] = v
        try:
            self.guards(node, switch, bind, saved)
        except Exception:
            # reference semantics: local bindings end with their element on every exit.  The known
            # mechanism 'onerror-keeps-locals' (restore code is straight-line, not finally) skips this.
            if 'onerror-keeps-locals' not in self.quirks:
                restore()
            raise
        restore()

    def guards(self, node, switch, bind, saved):
        st = node.stmts
        for scope, names, rid in st.get('define', ()):
            v = self.f(rid)
            vals = [v] if len(names) == 1 else list(v)
            if len(names) > 1 and len(vals) != len(names):
                raise Boom('unpack')
            for n, x in zip(names, vals):
                if scope == 'local':
                    bind(n, x)
                else:
                    self.env[n] = x
                    self.globals_defined = self.globals_defined | {n}
                    saved.pop(n, None)
        if 'case' in st:
            sw = switch
            if sw['done']:
                return
            cv = self.f(st['case'])
            match_eq = (cv == sw['val']) if cv is not DEFAULT else False
            if not match_eq:
                if 'case-double-eval' in self.quirks:
                    self.log.append(st['case'])      # the case expression is evaluated a second time
                    r = self.table[st['case']]
                if cv is not DEFAULT:
                    return
            sw['done'] = True
        if 'condition' in st:
            if not self.truth(self.f(st['condition'])):
                return
        if 'repeat' in st:
            names, rid = st['repeat']
            seq = self.f(rid)
            items = list(seq) if seq is not None else []
            sep = '\n' + ' ' * node.indent if node.indent is not None else ''
            for n in names:
                bind(n, None)
            for k, it in enumerate(items):
                if len(names) == 1:
                    self.env[names[0]] = it
                else:
                    vals = list(it)
                    if len(vals) != len(names):
                        raise Boom('unpack')
                    for n, x in zip(names, vals):
                        self.env[n] = x
                self.body(node, switch)
                if k < len(items) - 1:
                    self.emit(sep)
        else:
            self.body(node, switch)

    def static_value(self, v):
        if isinstance(v, str):
            return v
        out = []
        for kind, x in v.parts:
            if kind == 'lit':
                out.append(exprs.undouble(x))
            else:
                t = self.to_text(self.f(x), True, '"')
                out.append(t or '')
        return ''.join(out)

    raised_in_attribute_group = False

    def start_tag_attributes(self, node, st):
        attrs = [[k, self.static_value(v)] for k, v in node.statics]
        for name, rid in st.get('attributes', ()):
            val = self.f(rid)
            hit = [a for a in attrs if a[0].lower() == name.lower()]
            if val is DEFAULT:
                if hit:
                    hit[0][0] = name
                continue
            text = self.to_text(val, True, '"')
            if hit:
                hit[0][0] = name
                hit[0][1] = text
            else:
                attrs.append([name, text])
        return attrs

    def body(self, node, switch):
        st = node.stmts
        if 'switch' in st:
            switch = {'val': self.f(st['switch']), 'done': False}
        if 'replace' in st:
            mode, rid = st['replace']
            v = self.f(rid)
            if v is not DEFAULT:
                t = self.to_text(v, mode == 'text')
                if t is not None:
                    self.emit(t)
                return
        omit = False
        if 'omit' in st:
            omit = True if st['omit'] is None else self.truth(self.f(st['omit']))
        if not omit:
            n_exprs = len(st.get('attributes', ())) + sum(1 for k, v in node.statics if not isinstance(v, str))
            try:
                attrs = self.start_tag_attributes(node, st)
            except Exception:
                if n_exprs >= 2:
                    # which members of the group ran before the failing one is unspecified
                    self.raised_in_attribute_group = True
                raise
            self.emit('<' + node.tag + ''.join(' %s="%s"' % (k, v) for k, v in attrs if v is not None) + '>')
        if 'content' in st:
            mode, rid = st['content']
            v = self.f(rid)
            if v is DEFAULT:
                for k in node.kids:
                    self.render(k, switch)
            else:
                t = self.to_text(v, mode == 'text')
                if t is not None:
                    self.emit(t)
        else:
            for k in node.kids:
                self.render(k, switch)
        if not omit:
            self.emit('</' + node.tag + '>')


def run_model(root, table, quirks=(), extra=None):
    m = Model(table, quirks, extra)
    try:
        m.render(root)
        return {'out': ''.join(m.out), 'log': m.log, 'exc': None, 'handled': m.handler_calls,
                'loose_log': m.raised_in_attribute_group}
    except Exception as e:
        return {'out': None, 'log': m.log, 'exc': type(e).__name__, 'handled': m.handler_calls,
                'loose_log': m.raised_in_attribute_group}


def run_real(src, table, cfg=None, extra=None, may_raise=False):
    """Render with the real engine; same result shape as run_model."""
    from chameleon import PageTemplate
    log = []
    handled = []

    def f(rid):
        log.append(rid)
        r = table[rid]
        if isinstance(r, tuple) and r[0] == 'raise':
            raise make_exc(r[1], rid)
        return build_value(r, real=True)
    cfg = dict(cfg or {})

    def record(exc):
        handled.append(exc.args[0] if isinstance(exc, Boom) and exc.args else type(exc).__name__)

    class CollectingHandler(list):
        # a callable that is falsy while empty (an error collector): "is it configured" must be an identity test
        def __call__(self, exc):
            record(exc)
    handler = record if len(src) % 2 else CollectingHandler()
    try:
        # one text in 8 reaches the engine through a module cache that has just stored a sibling configuration
        from vlib import routes, state
        t = routes.make(PageTemplate, src, 8, getattr(state, 'CTX', None), on_error_handler=handler, **cfg)
    except Exception as e:
        return {'out': None, 'log': log, 'exc': 'COMPILE %s: %s' % (type(e).__name__, str(e).split('\n')[0][:120]),
                'handled': handled}
    try:
        out = t(f=f, **(extra or {}))
        return {'out': out, 'log': log, 'exc': None, 'handled': handled}
    except Exception as e:
        planted = may_raise or any(isinstance(v, tuple) for v in table.values())
        name = type(e).__name__
        if planted and name in EXC or name == 'UnicodeDecodeError':
            return {'out': None, 'log': log, 'exc': name, 'handled': handled}
        return {'out': None, 'log': log, 'exc': '%s: %s' % (name, str(e).split('\n')[0][:120]), 'handled': handled}


def rids_of(x):
    """All recording-callable ids inside an expression slot."""
    if isinstance(x, int):
        return [x]
    if getattr(x, 'NO_SLOTS', False):
        return []           # a node without expression slots of its own (its int attributes are not recording-callable ids)
    out = []
    for v in vars(x).values():
        if isinstance(v, (int, Expr)) and not isinstance(v, bool):
            out += rids_of(v)
        elif isinstance(v, (list, tuple)):
            for y in v:
                if isinstance(y, (int, Expr)) and not isinstance(y, bool):
                    out += rids_of(y)
    return out


def attribute_groups(node, groups=None):
    """rid -> group key for the expressions that belong to one start tag (compared as a multiset,
    DESIGN §2.3: 'document order' does not order two attributes of one tag)."""
    if groups is None:
        groups = {}
    if isinstance(node, El):
        for name, rid in node.stmts.get('attributes', ()):
            for r in rids_of(rid):
                groups[r] = id(node)
        for k, v in node.statics:
            if not isinstance(v, str):
                for kind, x in v.parts:
                    if kind == 'expr':
                        for r in rids_of(x):
                            groups[r] = id(node)
        for k in node.kids:
            attribute_groups(k, groups)
    return groups


def normalise_log(log, groups):
    if not groups:
        return list(log)
    out = []
    i = 0
    while i < len(log):
        g = groups.get(log[i])
        if g is None:
            out.append(log[i])
            i += 1
            continue
        j = i
        while j < len(log) and groups.get(log[j]) == g:
            j += 1
        out.extend(sorted(log[i:j]))
        i = j
    return out


def same(a, b, with_handled=False, groups=None):
    loose = a.get('loose_log') or b.get('loose_log')
    if loose and a['exc'] and b['exc'] and a['out'] is None and b['out'] is None \
            and ':' not in a['exc'] and ':' not in b['exc']:
        # two members of one start tag fail: which one is met first is unspecified
        return True
    if a['out'] != b['out'] or a['exc'] != b['exc']:
        return False
    if a.get('loose_log') or b.get('loose_log'):
        pass        # the failure happened inside a multi-expression start tag: evaluation set not comparable
    elif normalise_log(a['log'], groups) != normalise_log(b['log'], groups):
        return False
    return not with_handled or a['handled'] == b['handled']


# --------------------------------------------------------------------------
# TALES expression AST (C04).  ser() gives template text, ev(model) the reference value.
class Expr:
    pass


class Var(Expr):
    def __init__(self, name):
        self.name = name

    def ser(self):
        return self.name

    def ev(self, m):
        if self.name in m.env:
            return m.env[self.name]
        if self.name in m.extra:
            return m.extra[self.name]
        if hasattr(_b, self.name):
            return getattr(_b, self.name)
        raise NameError(self.name)


class Lit(Expr):
    def __init__(self, src):
        self.src = src

    def ser(self):
        return self.src

    def ev(self, m):
        return eval(self.src, {})


class Attr(Expr):
    """base.name with the documented fallback from attribute to item lookup."""

    def __init__(self, base, name):
        self.base, self.name = base, name

    def ser(self):
        return '%s.%s' % (self.base.ser(), self.name)

    def ev(self, m):
        obj = self.base.ev(m)
        try:
            return getattr(obj, self.name)
        except AttributeError as exc:
            get = getattr(obj, '__getitem__', None)
            if get is None:
                raise
            try:
                return get(self.name)
            except KeyError:
                raise exc


class Call(Expr):
    def __init__(self, fn, args):
        self.fn, self.args = fn, args

    def ser(self):
        return '%s(%s)' % (self.fn.ser(), ', '.join(E(a) for a in self.args))

    def ev(self, m):
        fn = self.fn.ev(m)
        return fn(*[m.f(a) for a in self.args])


class Pipe(Expr):
    def __init__(self, alts):
        self.alts = alts

    def ser(self):
        return ' | '.join(E(a) for a in self.alts)

    def ev(self, m):
        for i, a in enumerate(self.alts):
            try:
                return m.f(a)
            except FALLTHROUGH:
                if i == len(self.alts) - 1:
                    raise


class Not(Expr):
    def __init__(self, e):
        self.e = e

    def ser(self):
        return 'not: ' + E(self.e)

    def ev(self, m):
        return not m.f(self.e)


class Exists(Expr):
    def __init__(self, e):
        self.e = e

    def ser(self):
        return 'exists: ' + E(self.e)

    def ev(self, m):
        try:
            m.f(self.e)
        except EXISTS_CATCH:
            return 0
        return 1


class PyPref(Expr):
    def __init__(self, e):
        self.e = e

    def ser(self):
        return 'python: ' + E(self.e)

    def ev(self, m):
        return m.f(self.e)


class Struct(Expr):
    """structure: prefix — the value is markup (inserted unescaped)."""

    def __init__(self, e):
        self.e = e

    def ser(self):
        return 'structure: ' + E(self.e)

    def ev(self, m):
        v = m.f(self.e)
        return exprs.Markup(exprs.to_text(v)) if v is not None else exprs.Markup('None')


class Str(Expr):
    """string: expression; parts are literal text or expression slots."""

    def __init__(self, parts):
        self.parts = parts

    def ser(self):
        return 'string:' + ''.join(p if isinstance(p, str) else '${%s}' % E(p) for p in self.parts)

    def ev(self, m):
        out = []
        for p in self.parts:
            if isinstance(p, str):
                out.append(p.replace('$$', '$'))
            else:
                v = m.f(p)
                out.append('' if v is None else exprs.to_text(v))
        return ''.join(out)


class Import(Expr):
    def __init__(self, dotted):
        self.dotted = dotted

    def ser(self):
        return 'import: ' + self.dotted

    def ev(self, m):
        import importlib
        parts = self.dotted.split('.')
        mod = importlib.import_module(parts[0])
        for p in parts[1:]:
            mod = getattr(mod, p)
        return mod


class IText:
    """Text node with ${...} parts: ('lit', s) | ('expr', slot)."""

    def __init__(self, parts):
        self.parts = parts
