"""C07 — attribute rendering: static, dynamic, default, None, boolean, dict.

Model: the *merged list* (DESIGN §2.3).  An element <p STATICS tal:attributes="ENTRIES">
is generated with 0..5 static attributes (double / single quoted, unquoted, valueless,
mixed case, some with ${...}), 0..4 statement entries (named, in different case than
the static they target, new names, dictionary entries), values from {None, default, '',
0, False, True, str, hostile str, number} and dictionaries with overlapping / new /
boolean names, under four boolean-attribute configurations (HTML default set, XML
declaration, explicit set, empty set).  The rendered start tag is read back by the
independent strict tag scanner and compared with the model's ordered list:
  - a static attribute nobody targets appears exactly as written, in place;
  - a targeted name appears at most once, with the escaped dynamic value, nothing for
    None, the static text (or nothing) for default, name="name"/nothing for booleans;
  - new names are appended in statement order.
"""
import itertools
import re

from vlib import exprs, monitors, reader

PROP = 'C07'
TITLE = 'attribute rendering'
DEBUG_SHARDS = True      # two of sixteen shards run the library in its debug mode (vlib/runner.py)
LEVEL = 'exploration'
SHARDS = {'quick': 16, 'thorough': 16}
FLOOR = {'quick': 1500, 'thorough': 15000}
REQUIRED_MONITORS = {'start-tags-compared': 6000, 'i18n-attributes-twins-compared': 500, 'translation-block-twins-compared': 500}
RULE = ('a case = (static attributes with quoting kinds, statement entries, value vector, boolean configuration); exhaustive '
        'layer: <=2 statics x <=2 entries over 3 names x all quoting kinds x all 9 value classes; random layer: up to 5 '
        'statics and 4 entries incl. up to 2 dictionary entries; non-trivial iff a name is targeted by >=1 dynamic source or is '
        'boolean; distinct by (static quoting vector, overlap pattern, value classes, configuration). Not generated (statement '
        'silent or ambiguous): default for an attribute whose static text contains ${...}; a dictionary key equal to a name '
        'that differs only in case from the spelling of a named entry (see below); dictionary keys differing only in case from another name; quote style of a dynamic value replacing an '
        'unquoted or valueless static (compared quote-agnostically).')
ASSUMPTIONS = ['a dictionary-supplied value for a static name may appear at the static or at the dictionary position '
               '(position of dictionary-overridden names is compared as unordered)']

NAMES = ['a', 'b', 'class', 'checked', 'title', 'declare', 'noshade', 'selected', 'defer']
CASEVAR = {'a': 'A', 'b': 'B', 'class': 'Class', 'checked': 'CHECKED', 'title': 'Title', 'declare': 'Declare', 'noshade': 'NOSHADE',
           'selected': 'Selected', 'defer': 'DEFER'}
VALS = ['none', 'default', 'empty', 'zero', 'false', 'true', 'str', 'hostile', 'seven']
VALUE = {'none': None, 'empty': '', 'zero': 0, 'false': False, 'true': True, 'str': 'str', 'hostile': 'h<&>"\'x',
         'seven': 7}
DICTS = {
    'd_new': {'new9': 'N'},
    'd_class': {'class': 'dc<'},
    'd_mixed': {'title': 'dt', 'new9': 'x"y', 'zz': None},
    'd_bool': {'checked': True, 'new9': 0},
    'd_boolf': {'checked': '', 'a': 'da'},
    'd_empty': {},
}
BOOLSETS = {'html': {'checked'}, 'xml': set(), 'explicit': {'title'}, 'none': set()}
HTML_BOOLS = {"compact", "nowrap", "ismap", "declare", "noshade", "checked", "disabled", "readonly", "multiple", "selected",
              "noresize", "defer"}


def ser_static(name, kind):
    return {'dq': ' %s="S%s"' % (name, name), 'sq': " %s='S%s'" % (name, name), 'unq': ' %s=S%s' % (name, name), 'unqpath': ' %s=/S/%s.x' % (name, name),
            'dqent': ' %s="T&amp;J &lt;%s&gt; &#39;"' % (name, name), 'sqent': " %s='&quot;%s&quot; &amp; co'" % (name, name),
            'valueless': ' %s' % name, 'interp': ' %s="I${iv}"' % name, 'interp2': ' %s="${iv}${iv}"' % name, 'sqinterp': " %s='${iv}J'" % name, 'unqinterp': ' %s=${iv}' % name}[kind]


def static_text(name, kind):
    return {'dq': 'S' + name, 'sq': 'S' + name, 'unq': 'S' + name, 'valueless': '', 'unqpath': '/S/%s.x' % name,
            'dqent': 'T&amp;J &lt;%s&gt; &#39;' % name, 'sqent': '&quot;%s&quot; &amp; co' % name, 'interp': None, 'interp2': None, 'sqinterp': None, 'unqinterp': None}[kind]


def static_quote(kind):
    return {'dq': '"', 'sq': "'", 'unq': '', 'unqpath': '', 'valueless': '', 'dqent': '"', 'sqent': "'", 'interp': '"', 'interp2': '"', 'sqinterp': "'", 'unqinterp': ''}[kind]


def esc(v, q):
    return exprs.escape_attr(exprs.to_text(v), q) if q in ('"', "'") else exprs.escape_text(exprs.to_text(v))


def model(statics, entries, cfg, B, dictionary_always_after_statics=False):
    """Returns a list of items: (name, kind, payload) where kind in
    'static' (payload = raw source text of the attribute), 'value' (payload = (expected escaped text, quote)),
    'loose' (payload = unescaped value; quote style unspecified), 'bare' (valueless)."""
    BOOL = BOOLSETS[cfg] if cfg != 'html' else HTML_BOOLS
    merged = []
    for n, kind in statics:
        merged.append({'name': n, 'kind': kind, 'text': static_text(n, kind), 'dyn': None, 'static': True})
    for ei, (n, var) in enumerate(entries):
        if n is None:
            merged.append({'dict': var, 'ei': ei})
            continue
        hit = [m for m in merged if 'name' in m and m['name'].lower() == n.lower()]
        if hit:
            hit[0]['name'] = n
            hit[0]['dyn'] = var
            hit[0]['ei'] = ei
        else:
            merged.append({'name': n, 'kind': 'dq', 'text': None, 'dyn': var, 'static': False, 'ei': ei})
    out = []
    for i, m in enumerate(merged):
        later_dicts = [B[x['dict']] for x in merged[i + 1:] if 'dict' in x]
        later_names = {x['name'] for x in merged[i + 1:] if 'name' in x}
        if not dictionary_always_after_statics:
            # 'later sources override earlier ones' goes by the order in which the sources are WRITTEN: a named entry written
            # after a dictionary overrides the dictionary's key also when it targets a static attribute (whose place in
            # the start tag comes first).  (dictionary_always_after_statics=True is the alternate model of the known
            # mechanism: every dictionary counts as later than anything that sits at a static attribute's place.)
            if 'dict' in m:
                later_names |= {x['name'] for x in merged[:i] if 'name' in x and x.get('dyn') is not None and x.get('ei', -1) > m['ei']}
            elif m.get('dyn') is not None and m.get('static'):
                later_dicts = [B[x['dict']] for x in merged[i + 1:] if 'dict' in x and x['ei'] > m['ei']]
        if 'dict' in m:
            for k, v in B[m['dict']].items():
                if k in later_names or any(k in d for d in later_dicts) or v is None:
                    continue
                if k in BOOL:
                    if not v:
                        continue
                    v = k
                out.append((k, 'value', (esc(v, '"'), '"'), 'dict'))
            continue
        n, kind = m['name'], m['kind']
        if any(n in d for d in later_dicts):
            continue
        q = static_quote(kind)
        if m['dyn'] is None:
            if kind == 'unqinterp':
                iv = B['iv']
                if iv is None:
                    continue                      # the whole value is one expression yielding None
                if n in BOOL:
                    if exprs.to_text(iv):
                        out.append((n, 'loose', n, 'static'))
                    continue
                out.append((n, 'loose', exprs.to_text(iv), 'static'))
                continue
            if kind == 'interp2':
                # two interpolations and nothing else: a boolean attribute is there iff the joined text is non-empty
                iv = B['iv']
                txt = ('' if iv is None else esc(iv, q)) * 2
                if n in BOOL:
                    if txt:
                        out.append((n, 'value', (n, q), 'static'))
                else:
                    out.append((n, 'value', (txt, q), 'static'))
                continue
            if kind in ('interp', 'sqinterp'):
                iv = B['iv']
                txt = ('I%s' if kind == 'interp' else '%sJ') % ('' if iv is None else esc(iv, q))
                if n in BOOL:
                    out.append((n, 'value', (n, q), 'static'))
                else:
                    out.append((n, 'value', (txt, q), 'static'))
            else:
                out.append((n, 'static', ser_static(n, kind).strip() if m['static'] else None, 'static'))
            continue
        v = B[m['dyn']]
        isdef = v == 'DEFAULT-MARKER'
        default = m['text']
        if n in BOOL:
            val = default if isdef else (n if v else None)
        else:
            val = default if isdef else (None if v is None else exprs.to_text(v))
        if val is None:
            continue
        if kind == 'valueless':
            if val == '':
                out.append((n, 'bare', None, 'named'))
            else:
                out.append((n, 'loose', val, 'named'))
        elif kind in ('unq', 'unqinterp', 'unqpath'):
            out.append((n, 'loose', val, 'named'))
        else:
            out.append((n, 'value', (esc(val, q) if not isdef else val, q), 'named'))
    return out


def read_tag(out):
    tags = reader.start_tags(out)
    tags = [t for t in tags if t[0] == 'p']
    if len(tags) != 1:
        return None
    return tags[0][1], tags[0][2]


def matches(expected, attrs):
    """Ordered comparison; dictionary-supplied names are position-free."""
    exp_fixed = [e for e in expected if e[3] != 'dict']
    exp_dict = [e for e in expected if e[3] == 'dict']
    dict_names = {e[0] for e in exp_dict}
    got_fixed = [a for a in attrs if a[0] not in dict_names]
    got_dict = [a for a in attrs if a[0] in dict_names]
    if len(got_fixed) != len(exp_fixed) or len(got_dict) != len(exp_dict):
        return False

    def one(e, a):
        name, kind, payload, _ = e
        gname, gq, gval = a
        if gname != name:
            return False
        if kind == 'static':
            raw = ' %s' % gname + ('' if gq is None else '=%s%s%s' % (gq, gval, gq))
            return raw.strip() == payload
        if kind == 'bare':
            return gval is None or gval == ''
        if kind == 'loose':
            return gval is not None and reader.unescape_literal(gval) == payload
        text, q = payload
        return gq == q and gval == text
    if not all(one(e, a) for e, a in zip(exp_fixed, got_fixed)):
        return False
    rest = list(got_dict)
    for e in exp_dict:
        hit = [a for a in rest if one(e, a)]
        if not hit:
            return False
        rest.remove(hit[0])
    return True


def build_source(statics, entries, cfg):
    src = ('<?xml version="1.0"?>' if cfg == 'xml' else '') + '<p' + ''.join(ser_static(*s_) for s_ in statics)
    if entries:
        # a variable named lit<k> stands for the literal entry 'string:S<k>;;' - a value that ends in an escaped semicolon,
        # directly followed by the separator (or the end of the list)
        spell = lambda var: ('string:S%s;;' % var[3:]) if var.startswith('lit') else var
        src += ' tal:attributes="%s"' % '; '.join(('%s %s' % (e[0], spell(e[1]))) if e[0] is not None else e[1] for e in entries)
    if len(src) % 5 == 0:
        # the element also has an error handler (never needed here): its start tag is the same
        src += ' tal:on-error="string:E"'
    return src + '>x</p>'


def real_bindings(B):
    from chameleon.tales import DEFAULT_MARKER
    return {k: (DEFAULT_MARKER if v == 'DEFAULT-MARKER' else v) for k, v in B.items()}


def one_case(ctx, statics, entries, cfg, Bs, sample=False):
    from chameleon import PageTemplate
    src = build_source(statics, entries, cfg)
    kw = {}
    if cfg == 'explicit':
        kw['boolean_attributes'] = {'title'}
    if cfg == 'none':
        kw['boolean_attributes'] = set()
    ndicts = sum(1 for n, v in entries if n is None)
    try:
        from vlib import routes
        t = routes.make(PageTemplate, src, 6, ctx, **kw)
    except Exception as e:
        msg = str(e).split('\n')[0]
        key = 'compile-%s' % type(e).__name__
        if ndicts >= 2 and 'Duplicate attribute name' in msg:
            key = 'second-dictionary-entry-rejected'
        ctx.case(key=('compile-error', key), nontrivial=True)
        ctx.violation(key, 'template %r does not compile: %s: %s' % (src, type(e).__name__, msg),
                      {'kind': 'compile', 'src': src, 'cfg': cfg})
        return
    BOOL = BOOLSETS[cfg] if cfg != 'html' else HTML_BOOLS
    targeted = {n.lower() for n, v in entries if n}
    overlap = tuple(sorted((n, k, n.lower() in targeted) for n, k in statics))
    # metamorphic twin: the attributes set by named entries are also listed in i18n:attributes; with the library's
    # own translation function (nothing to translate to) the start tag is the same - in particular an attribute
    # whose value is None stays away
    twin = None
    named = [n for n, v in entries if n]
    if named and not any(k in ('interp', 'interp2', 'sqinterp', 'unqinterp', 'dqent', 'sqent') for n, k in statics if n.lower() in targeted) \
            and len({n.lower() for n in named}) == len(named) and hash(src) % 3 == 0:
        try:
            twin = PageTemplate(src.replace('>x</p>', ' i18n:attributes="%s">x</p>' % '; '.join(named), 1), **kw)
        except Exception as e:
            ctx.violation('i18n-attributes-twin-does-not-compile', 'template %r with i18n:attributes=%r: %s: %s' % (
                src, named, type(e).__name__, str(e).split('\n')[0]), {'kind': 'compile', 'src': src, 'cfg': cfg})
    # metamorphic twin 2: the element stands inside a translation block (under the library's own translation function,
    # which hands the block's text back): its start tag is the same - whichever stream the engine writes it to
    twin_block = None
    if hash(src) % 4 == 1:
        pre = '<?xml version="1.0"?>' if src.startswith('<?xml') else ''
        body = src[len(pre):]
        wrap = ['<div i18n:translate="">%s</div>', '<div i18n:translate="">see <b i18n:name="n">%s</b></div>'][hash(src) % 8 == 1]
        try:
            twin_block = (PageTemplate(pre + wrap % body, **kw), wrap.replace(' i18n:translate=""', '').replace(' i18n:name="n"', ''), pre)
        except Exception as e:
            ctx.violation('translation-block-twin-does-not-compile', 'template %r inside %r: %s: %s' % (
                src, wrap, type(e).__name__, str(e).split('\n')[0]), {'kind': 'compile', 'src': src, 'cfg': cfg})
    for B in Bs:
        exp = model(statics, entries, cfg, B)
        rb = real_bindings(B)
        before = {k: dict(v) for k, v in rb.items() if isinstance(v, dict)}
        try:
            o = t(**rb)
            rt = read_tag(o)
        except Exception as e:
            o = 'RAISED %s: %s' % (type(e).__name__, str(e).split('\n')[0][:100])
            rt = None
        # the attribute dictionaries are the caller's objects: they may serve other elements, loops and renderings
        changed = [k for k in before if rb[k] != before[k]]
        if before:
            ctx.mon('attribute-dictionaries-checked-after-use')
        if changed:
            ctx.violation('attribute-dictionary-of-the-caller-modified', 'template %r: after rendering, the dictionary %s is %r, was %r'
                          % (src, changed[0], rb[changed[0]], before[changed[0]]), {'kind': 'attrs', 'src': src, 'cfg': cfg, 'B': repr(B)})
            return
        ctx.mon('start-tags-compared')
        vals = tuple(sorted((k, v if isinstance(v, str) else type(v).__name__) for k, v in B.items() if k != 'iv'))
        nontrivial = bool(entries) or any(n in BOOL for n, k in statics)
        ctx.case(key=(overlap, tuple((n.lower() if n else None) for n, v in entries), vals, cfg), nontrivial=nontrivial,
                 sample={'source': src, 'bindings': repr(B), 'rendered': o, 'model': repr(exp)} if sample else None)
        ok = rt is not None and matches(exp, rt[0])
        if not ok and rt is not None and ndicts and matches(model(statics, entries, cfg, B, dictionary_always_after_statics=True), rt[0]):
            ctx.violation('dictionary-wins-over-a-later-named-entry-for-a-static-attribute',
                          'template %r (booleans: %s) bindings %r\n  rendered %r\n  model    %r' % (src, cfg, B, o, exp),
                          {'kind': 'attrs', 'src': src, 'cfg': cfg, 'B': repr(B)})
            continue
        if not ok:
            ctx.violation(classify(statics, entries, cfg, B, o, exp),
                          'template %r (booleans: %s) bindings %r\n  rendered %r\n  model    %r' % (src, cfg, B, o, exp),
                          {'kind': 'attrs', 'src': src, 'cfg': cfg, 'B': repr(B)})
            return
        if twin_block is not None:
            tb, wrapper, pre = twin_block
            try:
                o3 = tb(**real_bindings(B))
            except Exception as e:
                o3 = 'RAISED %s: %s' % (type(e).__name__, str(e).split('\n')[0][:100])
            ctx.mon('translation-block-twins-compared')
            want3 = pre + wrapper % o[len(pre):]
            if o3 != want3:
                ctx.violation('start-tag-differs-inside-a-translation-block',
                              'template %r bindings %r rendered %r; inside a translation block %r, expected %r' % (src, B, o, o3, want3),
                              {'kind': 'attrs', 'src': src, 'cfg': cfg, 'B': repr(B)})
                return
        if twin is not None and not any(B.get(v) == 'DEFAULT-MARKER' for n, v in entries if n):
            try:
                o2 = twin(**real_bindings(B))
            except Exception as e:
                o2 = 'RAISED %s: %s' % (type(e).__name__, str(e).split('\n')[0][:100])
            ctx.mon('i18n-attributes-twins-compared')
            if o2 != o:
                ctx.violation('listing-attributes-in-i18n-attributes-changes-the-start-tag',
                              'template %r bindings %r rendered %r; with i18n:attributes=%r (default translation function) %r' % (
                                  src, B, o, named, o2), {'kind': 'attrs', 'src': src, 'cfg': cfg, 'B': repr(B)})
                return


def classify(statics, entries, cfg, B, out, exp):
    tk = {n.lower(): k for n, k in statics}
    hit = [tk[n.lower()] for n, var in entries if n and n.lower() in tk]
    if any(k in ('unq', 'valueless', 'unqinterp', 'unqpath') for k in hit):
        return 'dynamic-override-of-unquoted-or-valueless-static'
    if any(k in ('unq', 'unqinterp') for n, k in statics) and out.count('&#0;') >= 2:
        return 'unquoted-value-escaped-with-nul-entities'
    names_l = [n.lower() for n, v in entries if n]
    if len(statics) >= 1 and len(names_l) >= 2:
        return 'attribute-lost-or-misplaced-with-several-named-entries'
    if out.startswith('RAISED'):
        return 'raised-' + out.split()[1].rstrip(':')
    return 'start-tag-differs'


def value_of(name):
    return 'DEFAULT-MARKER' if name == 'default' else VALUE[name]


def layer_exhaustive(ctx):
    kinds = ['dq', 'sq', 'unq', 'valueless', 'unqpath']
    names = ['a', 'checked', 'title']
    work = []
    for ns in range(0, 3):
        for snames in itertools.permutations(names, ns):
            for skinds in itertools.product(kinds, repeat=ns):
                for ne in range(0, 3):
                    for enames in itertools.permutations(names + ['new1'], ne):
                        work.append((list(zip(snames, skinds)), list(enames)))
    rng = ctx.rng
    step = 1 if not ctx.quick else 2
    for wi, (statics, enames) in enumerate(work):
        if wi % ctx.nshards != ctx.shard or (wi // ctx.nshards) % step:
            continue
        entries = [(CASEVAR.get(n, n) if rng.random() < .3 else n, 'v%d' % i) for i, n in enumerate(enames)]
        cfg = rng.choice(['html', 'xml', 'explicit', 'none'])
        Bs = []
        if len(entries) <= 1:
            for v in VALS:
                Bs.append(dict({var: value_of(v) for n, var in entries}, iv='x'))
        else:
            for _ in range(6):
                Bs.append(dict({var: value_of(rng.choice(VALS)) for n, var in entries}, iv='x'))
        one_case(ctx, statics, entries, cfg, Bs, sample=(wi % 997 == 0))


def layer_random(ctx, n):
    rng = ctx.rng
    for case in range(n):
        statics = [(nm if rng.random() < .8 else CASEVAR[nm], rng.choice(['dq', 'dq', 'sq', 'unq', 'valueless', 'interp', 'interp2', 'sqinterp', 'unqinterp', 'dqent', 'sqent', 'unqpath']))
                   for nm in rng.sample(NAMES, rng.randint(0, 4))]
        static_l = {n.lower(): k for n, k in statics}
        entries = []
        used = set()
        ndict = 0
        named_static = set()
        for _ in range(rng.randint(0, 4)):
            if rng.random() < .25 and ndict < (2 if rng.random() < .1 else 1):
                entries.append((None, rng.choice(sorted(DICTS))))
                ndict += 1
                continue
            nm = rng.choice(NAMES + ['new1', 'new2', '(click)', 'on(load)', '[prop]', '@event'])
            spelled = CASEVAR.get(nm, nm) if rng.random() < .3 else nm
            if nm.lower() in used:
                # the same name again is only legal in a different spelling (later entry overrides earlier)
                if spelled in [e[0] for e in entries] or nm not in CASEVAR or rng.random() < .5:
                    continue
                other = [e[0] for e in entries if e[0] and e[0].lower() == nm.lower()]
                if len(other) != 1:
                    continue
                spelled = CASEVAR[nm] if other[0] == nm else nm
            used.add(nm.lower())
            entries.append((spelled, ('lit%d' if rng.random() < .15 else 'v%d') % len(entries)))
            if nm.lower() in static_l:
                named_static.add(nm.lower())
        # exclusions (see RULE)
        all_names = {n for n, k in statics} | {n for n, v in entries if n}
        bad = False
        for pos, (n, var) in enumerate(entries):
            if n is None:
                for key in DICTS[var]:
                    # (a dictionary key that is also a static name targeted by a named entry is judged in both orders: written
                    # after the dictionary the named entry wins - the engine lets the dictionary win: known finding)
                    if any(key.lower() == x.lower() and key != x for x in all_names):
                        bad = True
        if bad:
            continue
        cfg = rng.choice(['html', 'xml', 'explicit', 'none'])
        Bs = []
        for _ in range(3):
            B = {'iv': rng.choice(['x', '', None, 'h<"\''])}
            if B['iv'] == '' and any(k == 'unqinterp' for n, k in statics):
                B['iv'] = 'y'        # name= followed by nothing is not readable markup
            for nme, var in entries:
                if nme is None:
                    B[var] = dict(DICTS[var])
                else:
                    v = value_of(rng.choice(VALS))
                    if v == 'DEFAULT-MARKER' and static_l.get(nme.lower()) in ('interp', 'interp2', 'sqinterp', 'unqinterp'):
                        v = 'str'
                    if var.startswith('lit'):
                        v = 'S%s;' % var[3:]
                    B[var] = v
            Bs.append(B)
        one_case(ctx, statics, entries, cfg, Bs, sample=(case < 2))


def run(ctx):
    monitors.install(ctx, tokalg=False)
    layer_exhaustive(ctx)
    layer_random(ctx, 1000 if ctx.quick else 5000)


def replay(data):
    from chameleon import PageTemplate
    kw = {}
    if data.get('cfg') == 'explicit':
        kw['boolean_attributes'] = {'title'}
    if data.get('cfg') == 'none':
        kw['boolean_attributes'] = set()
    try:
        t = PageTemplate(data['src'], **kw)
    except Exception as e:
        return True, 'template %r does not compile: %s' % (data['src'], e)
    return True, 'template %r compiled; bindings %s (re-run ./vcheck C07 with the same seed for the comparison)' % (
        data['src'], data.get('B'))
