"""Process history: every shard begins by compiling and rendering a fixed set of *hostile predecessors* - templates
chosen to leave a trace in any state that wrongly outlives one compilation or rendering (class-level sets and lists,
module-level tables keyed by text or id(), memoised helpers): templates with extra builtins named like the variables
the generators use, compilations abandoned by a language error below an interpolation switch / inside a translation
block / inside a macro / below a switch, renderings abandoned by an exception inside loops, macros, translation blocks
and error handlers, lambdas whose parameters are named like template variables, text-mode templates.

The property of every check has to hold for templates compiled *after* such predecessors ("nothing from one render is
visible in the next" is C14's statement; here it is a route into each property's own oracle).  On a correct tree the
predecessors have no lasting effect at all.  VERIF_HISTORY=0 switches them off for triage.
"""
import os

NAMES = ['v', 'x', 'f', 'n', 'd', 's', 't', 'a', 'b', 'c', 'g', 'i', 'q', 'w', 'r', 'lst', 'o', 'h', 'e', 'z', 'fl', 'by', 'nn', 'uni',
         'dd', 'xs', 'items', 'row', 'rec', 'dct', 'outer', 'ins', 'inner', 'depth', 'reach', 'k', 'm', 'y', 'p', 'sx', 'iv', 'lang',
         'ident', 'str_of', 'lib', 'W', 'macroname', 'probe', 'error', 'title', 'flag', 'name', 'user', 'rows', 'zz', 'ab', 'bc']

REJECTED = [
    '<div meta:interpolation="false"><p tal:content="a" tal:replace="b">x</p></div>',
    '<div meta:interpolation="off">${x}<!-- ${x} --><p tal:nosuch="1">x</p></div>',
    '<div meta:interpolation="maybe">${x}</div>',
    '<p i18n:translate="">a <b i18n:name="n">1</b> b <b i18n:name="n">2</b></p>',
    '<p i18n:translate="" i18n:domain="dd" i18n:context="cc">a <b i18n:name="n" tal:foo="1">1</b></p>',
    '<div metal:define-macro="m"><i metal:define-slot="s"><p tal:define="1x 2">x</p></i></div>',
    '<div metal:use-macro="m"><i metal:fill-slot="s"><p tal:case="1">x</p></i></div>',
    '<div tal:switch="1"><p tal:case="1" tal:repeat="a b; c d">x</p></div>',
    '<div tal:repeat="x xs" tal:on-error="string:e"><p tal:attributes="a 1; a 2">x</p></div>',
    '<div tal:define="v 1" tal:omit-tag="">${v +}</div>',
    '<div><p>unclosed</div>',
    '<div tal:define="global g 1; econtext 2">x</div>',
]

ABANDONED = [
    ('<ul><li tal:repeat="x xs"><i tal:repeat="y xs">${1/0 if y else y}</i></li></ul>', {'xs': [0, 1]}),
    ('<div metal:define-macro="m"><b metal:define-slot="s">${1/0}</b></div>', {}),
    ('<p i18n:translate="" i18n:domain="left-open">a <b i18n:name="n">${1/0}</b></p>', {}),
    ('<div tal:on-error="string:E${1/0}">${1/0}</div>', {}),
    ('<div tal:switch="1"><p tal:case="1">${1/0}</p></div>', {}),
    ('<div tal:define="global g 7; v 2">${1/0}</div>', {}),
    ('<div meta:interpolation="false"><p tal:content="1/0">x</p></div>', {}),
    ('<div tal:define="fn lambda v, x=1, f=2, n=3, s=4, a=5, b=6, d=7, t=8, i=9: (v, x)" tal:content="sorted([2, 1], key=lambda x: x)">c</div>', {}),
]


def hostile_predecessors(ctx=None):
    if os.environ.get('VERIF_HISTORY') == '0':
        return 0
    from chameleon import PageTemplate, PageTextTemplate
    n = 0
    marker = lambda *a, **k: 'HOSTILE-PREDECESSOR-BUILTIN'
    try:
        PageTemplate('<p>${v} ${x} ${%s}</p>' % NAMES[5], extra_builtins={k: marker for k in NAMES})()
        PageTextTemplate('${v} <p tal:content="x"> $$', extra_builtins={k: 'HOSTILE-PREDECESSOR-BUILTIN' for k in NAMES})()
        n += 2
    except Exception:
        pass
    for src in REJECTED:
        for cfg in ({}, {'strict': False}, {'enable_data_attributes': True, 'implicit_i18n_translate': True}):
            try:
                PageTemplate(src, **cfg)()
            except Exception:
                pass
            n += 1
    for src, kw in ABANDONED:
        try:
            PageTemplate(src)(**kw)
        except BaseException:
            pass
        n += 1
    if ctx is not None:
        ctx.mon('hostile-predecessor-compilations', n)
    return n
