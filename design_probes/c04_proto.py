"""Throw-away: python sub-grammar differential: plain eval vs chameleon ${...}."""
import random, sys, builtins
sys.path.insert(0, '/repo/src')
from chameleon import PageTemplate
rng = random.Random(int(sys.argv[1]))
class O:
    def __init__(s): s.attr = 'A'; s.n = 3
    def meth(s, x=1): return 'm%s' % x
    def __repr__(s): return 'O()'
ENV = dict(a=1, b=2, s='str', xs=[1, 2, 3], d={'k': 'v', 'n': 5}, o=O(), len=lambda x: 'mylen', id='myid', f=lambda *a, **k: (a, tuple(sorted(k.items()))))
NAMES = ['a', 'b', 's', 'xs', 'd', 'o', 'len', 'id', 'str', 'int', 'max', 'sorted', 'None', 'True']
def atom(d):
    k = rng.random()
    if k < .3: return rng.choice(['a', 'b', '1', '2', "'q'", 'None', 'True', 's', 'id'])
    if k < .4: return rng.choice(['xs', 'd', 'o.attr', 'o.n', "d['k']", 'xs[0]', 'xs[1:]', 'o.meth()', 'o.meth(a)', 's.upper()', "d.get('n')", 'sorted(xs)', 'max(xs)', 'str(a)', 'int(b)', 'len(xs)'])
    if d > 2: return 'a'
    if k < .5: return '(%s + %s)' % (num(d + 1), num(d + 1))
    if k < .55: return '[%s for c1 in xs if %s]' % (expr(d + 1, ['c1']), cond(d + 1, ['c1']))
    if k < .6: return 'sum(%s for c2 in xs)' % num(d + 1, ['c2'])
    if k < .65: return '{c3: %s for c3 in xs}' % expr(d + 1, ['c3'])
    if k < .7: return '(lambda p, q=%s: %s)(%s)' % (expr(d + 1), expr(d + 1, ['p', 'q']), expr(d + 1))
    if k < .75: return "f'{%s}-{%s!r}-{a:03d}'" % (expr(d + 1), expr(d + 1))
    if k < .8: return '(%s if %s else %s)' % (expr(d + 1), cond(d + 1), expr(d + 1))
    if k < .85: return 'f(%s, k=%s)' % (expr(d + 1), expr(d + 1))
    if k < .9: return '[%s, %s]' % (expr(d + 1), expr(d + 1))
    if k < .95: return '{%s: %s}' % (rng.choice(["'x'", '1', 'a']), expr(d + 1))
    return '(%s, %s)' % (expr(d + 1), expr(d + 1))
def num(d, extra=()):
    return rng.choice(['a', 'b', '1', '3', 'o.n', 'xs[0]', "d['n']"] + list(extra))
def cond(d, extra=()):
    return rng.choice(['a', 'a == b', 'a < b', 'not a', 'xs', 'a and b', 'a or b', "'k' in d"] + ['%s > 1' % e for e in extra])
def expr(d=0, extra=()):
    if extra and rng.random() < .4: return rng.choice(list(extra))
    return atom(d)
bad = n = shown = 0
for case in range(int(sys.argv[2])):
    e = expr(0)
    if '|' in e or '}' in e and False: continue
    n += 1
    try: g = dict(builtins.__dict__); g.update(ENV); want = str(eval(e, g))
    except Exception as x: want = 'EXC ' + type(x).__name__
    if want == 'None': want = ''
    try: got = PageTemplate('<![CDATA[${%s}]]>' % e)(**ENV)[9:-3]
    except Exception as x: got = 'EXC ' + type(x).__name__ + ' ' + str(x).split('\n')[0][:60]
    if got != want and not (want.startswith('EXC') and got.startswith(want)):
        bad += 1
        if shown < 15: shown += 1; print('MISMATCH', e, '\n  want', want, '\n  got ', got)
print('cases', n, 'bad', bad)
