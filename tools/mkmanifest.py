#!/usr/bin/env python3
"""Regenerate /verif/MANIFEST.json from the table below and validate it."""
import json, os, subprocess, sys
HERE = os.path.dirname(os.path.dirname(os.path.abspath(__file__)))
BASE = json.load(open('/root/.vp/BASELINE.json'))

# id -> (engine, technique, level category, level text, level note, design ref)
CHECKS = {
 'C03': ('invariant-hooks+by-construction',
         'runtime monitor M-tok on the real tokenizer over an exhaustively enumerated bounded string space + identity-rendering oracle on generated documents',
         'exploration',
         'Every string over a 16-character markup alphabet up to length 5 (quick) / 6 (thorough) is tokenised by the real iter_xml under the concatenation/contiguity monitor (exhaustive within the bound); ~11k (quick) / ~190k (thorough) generated statement-free documents are compiled and rendered by the real engine and compared with themselves. Held = no observed execution violated the invariant; nothing is claimed beyond the explored strings and documents.',
         'Trusted: CPython, the document generator (it excludes template-active constructs by construction), the rule that ParseError / undefined-prefix rejections are not judged.',
         'DESIGN.md §3 C03'),
 'C06': ('by-construction+event-log',
         'runtime oracle: generated part lists rendered by the real engine, output compared with the by-construction expectation and the recorded evaluation log (unique-id recording callable) with the expected log',
         'exploration',
         '8 000 (quick) / 128 000 (thorough) generated documents of nested elements with interpolation switches, each with several regions (text, both attribute quotings, comments of all three flavours, CDATA) built from hostile literal runs and ${expr} parts whose expressions are rich in braces, quotes and $; expected value of every expression from plain Python eval; evaluation order and non-evaluation in switched-off regions observed through the event log. Held = every observed rendering and log matched.',
         'Trusted: Python eval as the reference for Python expressions; the soundness argument for by-construction delimiting (generated expressions are complete and bracket-balanced, DESIGN §3 C06); escaping rules of C02; generator exclusions listed in the evidence rule.',
         'DESIGN.md §3 C06'),
 'C20': ('by-construction',
         'runtime oracle: generated text-mode sources rendered by the real PageTextTemplate / PageTextTemplateFile and compared with the by-construction expectation; monitor on the real text tokenizer',
         'exploration',
         '19 200 (quick) / 320 000 (thorough) generated text templates over a markup-hostile alphabet (including sources beginning with "<", tag-like, tal:-like, comment/CDATA/PI-like runs) with ${expr} parts from the brace/quote-rich grammar and values containing markup, bytes, None, objects; one in eight also through the file-based class in utf-8 and latin-1 (bytes result compared). Held = all observed outputs equal the expectation.',
         'Trusted: Python eval; newline normalisation expected as for C03 (outside XML mode); ambiguous inputs (literal "${", odd "$" run directly before "${") are not generated.',
         'DESIGN.md §3 C20'),
 'C08': ('invariant-hooks+closed-form+model',
         'runtime monitor: closed-form oracle over every (length, position) printed by a probe template on the real engine, icontract postconditions on the real RepeatItem attribute functions (M-repeat), loop-nest reference interpreter, separator expectation',
         'exploration',
         'All positions of all lengths 0..60 (quick) / 0..150 (thorough) plus boundary lengths around 26^2, 26^3 and 3999/4000, over seven iterable kinds, are rendered and compared with independently computed index/number/even/odd/parity/start/end/length/letter/Letter/roman/Roman (exhaustive within the bound); ~1.5 M contract evaluations on the real RepeatItem per quick run; 2 400 / 48 000 generated loop nests (reused names, tuple unpacking, one-shot iterators, None) against a reference interpreter; 960 / 24 000 separator placements.',
         'Trusted: the closed forms (letter = positional base 26 as in ZPT), the small loop-nest interpreter; not generated: tab indentation, repeated elements not on their own line, global repeat.',
         'DESIGN.md §3 C08'),
 'C17': ('decision-table+differential',
         'runtime oracle: independent sniffing function (BOM, declaration, meta, default) and differential render(bytes) vs render(decoded str) on the real engine over a generated decision table',
         'exploration',
         '4 000 (quick) / 64 000 (thorough) generated cells (encoding x BOM x XML-declaration spelling x meta spelling x default_encoding x bytes/file class) with generated bodies encodable in the cell\'s encoding; for every judged cell the rendering must equal that of the decoded string, report the decided encoding and content type, contain no U+FEFF and show the XML/HTML mode effects (implicit booleans, newline rewriting) observed on the rendering itself.',
         'Trusted: Python codecs; the 25-line sniffer written from the statement; cells whose bytes do not determine the encoding are counted, not judged.',
         'DESIGN.md §3 C17'),
 'C11': ('invariant-hooks+planted-faults',
         'runtime monitors M-err (every TemplateError: source[offset:offset+len(token)] == token, line/column) and M-tokalg (wrappers on the real Token methods and parser.groups/groupdict) under a planted-fault workload whose serialiser knows the exact offending substring',
         'exploration',
         '12 800 (quick) / 192 000 (thorough) planted faults: an invalid expression at 31 kinds of site (every statement argument, first/middle/last part of define and attributes lists incl. after ;; and entities, ${} in text, attributes, comments, CDATA, string:, after pipes and prefixes, multi-line tags, data attributes) and 23 kinds of language error, in randomised surroundings (newlines, tabs, non-ASCII, comments, elements before). Required: a TemplateError subclass, token text and offset exactly the planted substring (inside the offending construct for language errors), line/column derived from the offset; the un-planted variant of every case must compile. ~700 000 Token-algebra evaluations per quick run.',
         'Trusted: the site catalogue and its serialiser offsets; for language errors "offending substring" is read as "an aligned token inside the offending attribute or tag".',
         'DESIGN.md §3 C11'),
 'C18': ('invariant-hooks+metamorphic',
         'runtime monitor M-out (independent reader scans every rendering for template-namespace attributes, elements, declarations and data-<lang>- attributes) + metamorphic equality of real renderings across per-statement re-spellings + foreign-attribute preservation read back from the output',
         'exploration',
         '4 000 (quick) / 64 000 (thorough) generated programs, each rendered in the default spelling, with enable_data_attributes switched on, and in 4 re-spellings (per-statement choice of default prefix / renamed prefix / data attribute; declarations on the element, an ancestor or the root; unprefixed statements on tal:-namespace elements, also with a renamed element prefix); all renderings must be equal, leak-free, and every rendered start tag must carry exactly the foreign attributes written on its source element, in order.',
         'Trusted: html.parser and the 20-line strict tag scanner; the generator keeps programs valid (no content+replace etc.).',
         'DESIGN.md §3 C18'),
 'C15': ('fault-injector+differential',
         'runtime fault injection on the real ModuleLoader: os._exit at every file-system audit event and every LINE event (sys.monitoring) of build/_load, in-process KeyboardInterrupt/MemoryError at LINE events, strace SIGKILL at every syscall on the entry paths, parked second writer; differential cache vs no-cache renders for one-option configuration pairs sharing a cache directory',
         'fault_enumeration',
         'Crash points are enumerated from a complete run of the current tree (12 audit steps + 33 line steps per stored module today; 3 templates incl. a 700 kB module; plus every write/rename/close/openat syscall on the temporary file and the entry): after each crash a fresh process on the same directory must render the reference and every *.py entry must equal the complete module. 18 one-option pairs x 2 orders x same/two processes compared against no-cache renders. 24 two-writer schedules (A parked at each step while B stores the same entry).',
         'Trusted: POSIX rename atomicity and program-order application of file-system operations (crash model = process death, not power loss); strace injection on syscall entry; id()-derived numbers in generated identifiers are normalised before comparing module sources.',
         'DESIGN.md §3 C15'),
 'C16': ('history-model',
         'runtime history checking: random file/loader operation histories executed on the real PageTemplateFile / PageTemplateLoader and compared step by step with a small executable model; M-cook (wrapper on the real BaseTemplate.cook) counts compilations',
         'exploration',
         '1 280 (quick) / 24 000 (thorough) histories of write / touch / render / macro listing / macro lookup / content_type / including render over main.pt and lib.pt in 1..3 search directories (auto_reload on/off, direct or through a loader), each step compared with the model, compilation counts per file compared with the model; 3 600 / 72 000 loader resolutions over random directory layouts (default extension, dotted and dot-less names, sub-directories, absolute paths, padded names, missing files, instance identity, load: next to the including file).',
         'Trusted: the 40-line file/loader model; mtimes set explicitly (no clock dependence); rewriting a file without changing its mtime is not generated (undetectable by design).',
         'DESIGN.md §3 C16'),
 'C14': ('schedule-explorer+stress+differential',
         'controlled line-level scheduler on sys.monitoring LINE events (two threads stepped through cook/_cook/cook_check/read/TemplateLoader.load/registry wrapper/MemoryLoader.build under explicit schedules), yield-injection stress with 8 threads, render-history and cross-process differential, M-args snapshot monitor',
         'exploration',
         'Per quick run ~750 executed schedules (every "A runs k line-steps, B to completion" for both roles and all k until the first thread finishes, sampled two-preemption and random schedules) over 4 scenarios (racing first render of a lazy file template, auto-reload after a file change, shared loader, load: chain), each result compared with the same call run alone; distinct interleaving signatures and context switches inside monitored code are counted; 7 680 stress renders under a 1 microsecond switch interval with yield injection; 4 384 history renders with argument snapshots; 6 templates x 6 bindings re-rendered in fresh interpreters under 4 hash seeds.',
         'Trusted: line granularity of the scheduler (switches inside one line or inside generated render code are reached only by the stress layer); a thread that does not reach its next event within 0.25 s is treated as blocked on one of the program\'s own locks.',
         'DESIGN.md §3 C14'),
 'C01': ('model-diff+metamorphic',
         'runtime history checking: generated TAL programs rendered by the real engine with a recording callable at every statement argument; (output | exception, evaluation log) compared with an executable reference model; metamorphic equality across permutations of the statement attributes',
         'exploration',
         '~26 000 (quick) / ~450 000 (thorough) executed (program, binding table, attribute permutation) triples: an exhaustive layer over every admissible subset of {define, condition, repeat, switch, case, content|replace, omit-tag, attributes} on one element with all permutations of up to 4 statement attributes and several value vectors, and a random layer of nested programs (switch/case across levels, tuple defines and repeats, global defines, tal: namespace elements, one planted failure in 15% of the tables) with visibility probes between the elements.',
         'Trusted: the reference model vlib/tmodel.py (about 200 lines, never calls Chameleon); the order of attribute expressions inside one start tag is compared as a multiset (DESIGN §2.3); generator exclusions in the evidence rule.',
         'DESIGN.md §3 C01'),
 'C13': ('model-diff',
         'runtime history checking: generated programs with tal:on-error on random subsets of elements and planted failure sets, rendered by the real engine; output, evaluation log, escaping exception and the calls received by on_error_handler compared with the reference model',
         'exploration',
         '16 000 (quick) / 256 000 (thorough) executed (program, binding table, failure set) triples; on-error nested to depth 3 (quick) / 4 (thorough) with define / repeat / switch / case / content / replace / attributes / tal: namespace elements in between; failure sets of 1..2 expression occurrences (70% aimed inside handlers, incl. fallback expressions themselves); ~4 000 handled failures per quick run, each checked for exactly one handler call; visibility probes after every element.',
         'Trusted: reference model vlib/tmodel.py; constructs on which the statement is silent are not generated (listed in the evidence rule).',
         'DESIGN.md §3 C13'),
 'C05': ('model-diff+invariant-hooks',
         'runtime probe oracle (every element surrounded by visibility probes, predicted by a reference interpreter), M-scope (recording subclass substituted for the real Scope, inspected when render() returns), reserved-name table at every binding site, random operation sequences on the real utils.Scope against a two-dictionary model',
         'exploration',
         '2 400 (quick) / 40 000 (thorough) generated nestings of define / global define / multi-part define / tuple define / repeat / tuple repeat / macro-use to depth 4 with three colliding names from a pool containing builtins and generated-code helper names, each pre-bound or not; the scope object of every one of these renders inspected at exit; 102 (site, name) pairs of the reserved-name table; 640 / 12 800 Scope operation sequences (length <= 30, up to 6 linked scopes).',
         'Trusted: the 80-line reference interpreter; a global definition of a name inside an element that holds a local binding of the same name is not generated (the two clauses of the statement conflict there).',
         'DESIGN.md §3 C05'),
 'C07': ('model-diff',
         'runtime oracle: generated start tags rendered by the real engine, read back by an independent strict tag scanner and compared with the merged-list reference model (ordered (name, quote, raw value) lists)',
         'exploration',
         '15 600 (quick) / 230 000 (thorough) rendered start tags: an exhaustive layer over <=2 static attributes (double / single quoted, unquoted, valueless) x <=2 statement entries over three names (one boolean) x all nine value classes, and a random layer with up to 5 statics (also interpolated, also unquoted-interpolated, mixed case), up to 4 entries (named in either case, repeated in another case, new names, up to two dictionary entries with overlapping / new / boolean / None-valued keys) under four boolean configurations (HTML default set, XML declaration, explicit set, empty set).',
         'Trusted: the 70-line merged-list model; the position of a name supplied by a dictionary and the quote style of a dynamic value that replaces an unquoted / valueless static are compared loosely (the statement does not fix them); exclusions in the evidence rule.',
         'DESIGN.md §3 C07'),
 'C04': ('model-diff+event-log',
         'runtime history checking: TALES expression trees over unique-id recording callables at every statement and ${} site, rendered by the real engine; (output | exception class, evaluation log) compared with the reference model; differential against Python eval for the Python sub-grammar',
         'exploration',
         '5 760 (quick) / 120 000 (thorough) executed (program, binding table) pairs with pipes of length 1..4 (alternatives raising each of nine fall-through and seven propagating exception classes, attribute/item fallback objects, undefined names), prefix nestings (not:, exists:, string:, python:, structure:, import:) at define / condition / repeat / switch / case / content / replace / omit-tag / attributes / ${} sites; ~6 500 observed fall-throughs, ~1 200 propagations and ~16 000 watched dead expressions per quick run; 2 400 / 48 000 generated Python expressions (comprehensions, lambdas, f-strings, shadowed builtins) compared with eval.',
         'Trusted: reference model vlib/tmodel.py (TALES part: 150 lines); the order of the expressions of one start tag is compared as a multiset, and when one of them fails the evaluation log is not compared (DESIGN §2.3).',
         'DESIGN.md §3 C04'),
 'C19': ('differential+model-reach',
         'runtime differential: strict vs non-strict renderings (output and evaluation log) of valid generated programs; planted invalid expressions: strict construction must raise at the planted location, non-strict rendering must raise the same error iff the reference model reaches the planted slot',
         'exploration',
         '4 800 (quick) / 86 000 (thorough) valid (program, table) pairs rendered in both modes; 1 550 / 28 000 programs with one invalid expression planted at a random slot in one of five forms (alone, first or later pipe alternative, under not:, string: part, ${} part); each planted program rendered non-strict under three tables: ~2 000 renderings where the model reaches the slot (error text, token and offset compared with the strict error) and ~2 500 where it is dead (false condition, empty repeat, cancelled case, replace, omitted tag, earlier failure, earlier alternative won) whose output and log must equal the model\'s.',
         'Trusted: reference model for reachability; when both sides raise at the planted slot the real log need only be a prefix of the model\'s (parts of the same argument written before the invalid text).',
         'DESIGN.md §3 C19'),
 'C12': ('planted-failures+invariant-hooks',
         'runtime monitor M-exc at the except clause of the harness over planted render failures: exception class / RenderError / args / attributes preserved, message records (expression, file, line, column) parsed and compared with the serialiser\'s knowledge of the failing occurrence and its call-site chain',
         'exploration',
         '~4 000 (quick) / ~65 000 (thorough) planted failures: expression occurrences the reference model reaches in generated string templates (every statement site, multi-line and non-ASCII lead text) and the five occurrence positions of a randomised three-file load: / use-macro / fill-slot chain, each raising one of ten classes (builtin, two-argument custom with attribute, __str__ override, UnicodeDecodeError, RecursionError, KeyboardInterrupt, SystemExit, GeneratorExit).',
         'Trusted: the regex that parses message records; the C01 generator and model for reachability; file names compared on their last 40 characters.',
         'DESIGN.md §3 C12'),
 'C02': ('invariant-over-outputs',
         'runtime oracle on real renderings: independent reader (html.parser + strict scanner) compares the event structure of the hostile rendering with the harmless one, locates the inserted region by sentinels, un-escapes it literally and compares with the value\'s string form; raw-character scan of the region; converse check for the opt-outs',
         'exploration',
         '1 600 (quick) / 3 600 (thorough, the full product) (site, wrapper, value) triples over 20 site kinds (text, both attribute quotings, two interpolations in one attribute, tal:attributes onto new / double / single quoted statics, dictionary value, comment, content, replace, string: in content and attribute, inside i18n:translate, i18n:name blocks, pipe) x 6 wrappers (plain, repeat, define, condition, macro slot filler, on-error) x 30 hostile values (each markup character, both quotes, attribute break-outs, ]]>, -->, entity look-alikes, NUL, non-ASCII, bytes, str subclass, numbers, hostile __str__, message object with hostile translation); 7 opt-out sites x 30 values checked for raw insertion.',
         'Trusted: html.parser and the strict scanner; out of the statement and not checked: attribute names from dictionary keys, return values of the translation function for i18n:translate / i18n:attributes, unquoted attribute values.',
         'DESIGN.md §3 C02'),
 'C10': ('history-model',
         'runtime history checking: a recording translation function passed to the real engine logs every call (msgid, default, mapping, domain, context, target_language); call list and output compared with a reference model of the i18n semantics',
         'exploration',
         '3 200 (quick) / 64 000 (thorough) generated i18n element trees (translate with / without id, nested translate, named children under condition / omit-tag, domain / context / target on any ancestor, i18n:attributes with and without ids, tal:content + i18n:translate=\"\") under rewriting and identity translators, ~5 000 translate calls compared per quick run; 320 / 4 800 METAL cases (macro body starts from the caller\'s settings, slot filler keeps those of the place where it is written, slot default), 320 / 4 800 implicit-translation configurations, 320 / 4 800 message-object insertions (offered exactly once with the current domain / context / target; numbers, strings and __html__ objects are not).',
         'Trusted: the 90-line i18n model; a missing keyword argument is read as None.',
         'DESIGN.md §3 C10'),
 'C09': ('metamorphic',
         'runtime metamorphic oracle, both sides on the real engine: rendering of a caller that uses METAL compared (output and evaluation log of recording callables) with the rendering of its source-level inlining produced by an independent 80-line inliner',
         'exploration',
         '2 400 (quick) / 40 000 (thorough) (library, caller) pairs: 1..3 macros with up to 3 define-slot regions (repeated names), nested uses in bodies, extend-macro chains, callers filling random subsets of slots plus unknown names, uses inside repeat / define, two consecutive uses in one scope, local / global definitions and recording callables in bodies, slot defaults and fillers, probes of a / b / g / macroname before and after every use; libraries in the same template, in another string template, in a file reached through load:; ~6 800 fillers and ~390 extend chains per quick run.',
         'Trusted: the inliner\'s reading of the statement (macroname is rebound to the base\'s name inside an extend chain); both renderings come from the real engine so everything but METAL cancels out.',
         'DESIGN.md §3 C09'),
}

# additions of the later sessions (DESIGN.md §10.6); appended to the level text of each check.  The case counts quoted
# in the texts above are those of the first build; the numbers measured by a run are in its evidence file.
HISTORY = ' Every shard starts after a fixed set of hostile predecessor compilations / renderings (vlib/history.py; counted in the evidence).'
ROUTES = (' One template text in 4..8 reaches the engine through a module cache that has just stored a sibling configuration or a '
          'sibling text (vlib/routes.py; counted in the evidence).')
USES_ROUTES = {'C01', 'C02', 'C03', 'C04', 'C05', 'C06', 'C07', 'C08', 'C09', 'C10', 'C12', 'C13', 'C18', 'C19', 'C20'}
ADDENDA = {
 'C01': ' Added: escaped semicolons anywhere in define / attributes lists.',
 'C02': ' Added: the library\'s own translation function and the implicit-translation options as routes to the sinks; values with $$, ${name}; templates that come out of a loader after the same file was loaded as text.',
 'C03': ' Added: identity under every option not documented to touch unmarked markup; data-* names whose second word is a known prefix; prefixed elements whose prefix (also tal/metal/i18n/meta) is bound on the element itself to a foreign namespace; documents written over an earlier document of the other kind.',
 'C04': ' Added: access paths (.name on subscripts, calls, parenthesised / conditional / comprehension / lambda results over records offering the name as attribute, item, both or neither; callables stored as items; dict-method names as keys) against an independent evaluator; variables named like the exception classes a pipe catches.',
 'C05': ' Added: variables named like the exception classes the generated code catches.',
 'C06': ' Added: the interpolation switch written as a data attribute.',
 'C07': ' Added: unquoted static values with slashes; literal entries ending in an escaped semicolon; metamorphic twin listing the dynamic attributes in i18n:attributes under the default translation function.',
 'C08': ' Added: value-preserving spellings of the iterable expression (lambda parameters named like the loop variable); overlapping renders; iterable expressions reading the variable the loop is about to bind.',
 'C09': ' Added: whole templates given to use-macro with regions outside any define-macro; macros reached through load: across directories holding same-named files.',
 'C10': ' Added: an output encoding in effect; the same instance rendered before with another per-rendering translation function.',
 'C11': ' Added: language faults in the data-attribute spelling; i18n:name outside a translation block; leads whose compilation opens and closes internal compiler state; CRLF / CR variants; auto-reload file templates whose versions alternate between valid and erroneous texts (every use of an erroneous version is rejected).',
 'C12': ' Added: failing expressions written with character entities (alternate-model classifier for the open finding); failures raised by the attribute access itself; macro expressions in several spellings; nested renderings through a helper that formats the error on its way out; characters splitlines() takes for line boundaries.',
 'C13': ' Added: fallback start tag equals the regular start tag under trim_attribute_space / boolean_attributes / enable_data_attributes (metamorphic); every Exception subclass is handled, non-Exceptions are not.',
 'C14': ' Added: the format asked of a loader in the shared-loader histories; auto-reload file templates in use while the file is replaced with arbitrary (also older) modification times.',
 'C15': ' Added: the same document as str and as bytes; file templates with very long names; a file-size limit (disk full / quota stand-in) reached while a module is stored.',
 'C16': ' Added: the format asked of a loader is part of the loads; templates reached through symbolic links (re-pointed directory link, file link with load:).',
 'C17': ' Added: the value-encoding option must not decide template decoding; documents written over an earlier document of the other kind (write(), auto-reload).',
 'C18': ' Added: elements of the METAL and I18N namespaces; default-namespace declarations on namespace elements and as the way an element enters a template namespace; meta:interpolation values that switch something off; ordinary data-<known prefix>-x attributes.',
 'C19': ' Added: strict setting handed down through load:; strict / non-strict auto-reload twins following one file; invalid expressions inside macro bodies, slot defaults, fillers and as the on-error expression.',
 'C20': '',
}

# rounds 7 and 8 of the seeded-change evaluation (DESIGN 10.6)
ADDENDA2 = {
 'C01': ' Values that end in white space before the separator.',
 'C02': ' Processing-instruction sites; full-width and small-form look-alikes of the markup characters; a bytes result is decoded and judged.',
 'C03': ' Processing-instruction bodies with quotes and question marks; look-alike namespace URIs.',
 'C04': ' Comprehension shapes in python: expressions; import: of modules with side effects, of attributes that shadow a submodule; attribute-context insertion judged with attribute escaping.',
 'C05': '',
 'C06': ' Expressions written over several lines; plain names with padding; implicit attribute translation in effect (alternate-model classifier for the open finding).',
 'C07': ' Unquoted paths and two interpolations in one static value; a translation-block twin.',
 'C08': ' Re-entrant renders of one template from inside its own loop; loop variables named like generated-code names; dict views and string keys as iterables.',
 'C09': ' Uses inside macros; whole templates used as macros; fallbacks and names with characters outside identifiers (alternate-model classifier for the open finding); duplicate names in translation blocks.',
 'C10': ' Settings made inside an element that tal:on-error then replaces; settings across a macro boundary (both repaired in /repo, see known_findings.json); exotic white space; doubled dollars.',
 'C11': ' A case separated from its switch by a macro (structural classifier for the open finding).',
 'C12': ' Failures while a literal is put to use; exception classes that cannot be combined with RenderError (alternate-model classifier); the OSError family with its own constructor conventions.',
 'C13': ' The same handler failing repeatedly; globals defined in an abandoned element; start-tag options of the fallback.',
 'C14': ' Instances of one class differing only in configuration; mutable literals; file histories.',
 'C15': ' A debug-mode file name carrying a coding cookie; long-lived loader objects.',
 'C16': ' Search paths mixing package, zip and directory entries.',
 'C17': ' Charset labels in several spellings; texts on which the candidate codecs disagree.',
 'C18': ' The same tag text under two bindings of its prefix; options handed down a load: chain; look-alike namespace declaration pairs.',
 'C19': ' The non-strict error is compared with the strict one in message, token, offset and file name; unknown expression types; METAL and error-handler sites.',
 'C20': ' Long flat templates of several hundred parts; files starting with a byte-order mark; expressions over several lines.',
}
DEBUG_SHARDS = {'C01', 'C02', 'C04', 'C06', 'C07', 'C08', 'C09', 'C10', 'C13', 'C18'}
DEBUG = ' One shard in eight runs the engine in debug mode (CHAMELEON_DEBUG; counted in the evidence).'

# round 9 (DESIGN 10.6)
ADDENDA3 = {
 'C02': ' One value at several places of different kinds in one rendering (long values); script and style text.',
 'C03': ' U+FEFF as the first character of a str document; instruction targets that merely begin with the code-block target.',
 'C04': ' The long-lived ExpressionEvaluator under histories of (type, string) requests, against the same expression in a template.',
 'C06': ' string: expressions with braces and interpolations of their own; macro definitions inside switched-off subtrees; the same non-idempotent expression text several times.',
 'C07': ' A dictionary written after a named entry for a static attribute; the caller\'s dictionaries compared with their state before the rendering.',
 'C08': ' One-shot items under unpacking; repeat entries read from macros of other templates and from fillers.',
 'C09': ' Slots handed on by a macro whose use runs several times per call.',
 'C10': ' White space after an i18n:attributes message id; the on-error fallback object after descendant settings.',
 'C11': ' Expressions inside processing instructions; multi-line expressions an added pair of brackets would repair.',
 'C12': ' Failing expressions inside processing instructions; an application class derived from RenderError.',
 'C13': ' Exceptions carrying a line / offset of their own.',
 'C14': ' Byte values and per-call encoding arguments in render histories, compared with a fresh instance.',
 'C15': ' One cache directory shared by processes started differently (python -O, ASCII locale, other hash seed). In-process exceptions at every LINE step of build/_load on both tiers, each followed by a second use of the template in the surviving process; the same while an entry stored earlier is loaded (get/_load).',
 'C16': ' Search directories whose names hold colons, blanks or a package-like prefix.',
 'C17': ' Elements that merely mention a charset beside or instead of the content-type element.',
 'C18': ' Names differing from template names only in case; the attrs builtin rendered whole; re-binding elements that close children left open.',
 'C19': ' Blank interpolations; superseded fillers and fillers of unknown slots.',
 'C20': ' The encoding option changed between renderings of one file text template; U+FEFF as an ordinary character.',
}

NOT_YET = {}

def main():
    props = [json.loads(l) for l in open(os.path.join(HERE, 'properties.jsonl'))]
    na_file = os.path.join(HERE, 'tools', 'not_applicable.json')
    na = json.load(open(na_file)) if os.path.exists(na_file) else {}
    checks = []
    for pid in sorted(CHECKS):
        engine, tech, cat, text, note, ref = CHECKS[pid]
        checks.append({
            'property_id': pid,
            'quick_cmd': './vcheck %s quick' % pid,
            'thorough_cmd': './vcheck %s thorough' % pid,
            'evidence_file': '/verif/evidence/%s.json' % pid,
            'replay_cmd_template': './vcheck %s --replay {path}' % pid,
            'engine': engine,
            'technique': tech,
            'level_claimed': {'category': cat, 'text': text + ADDENDA.get(pid, '') + ADDENDA2.get(pid, '') + ADDENDA3.get(pid, '') + HISTORY + (ROUTES if pid in USES_ROUTES else '') + (DEBUG if pid in DEBUG_SHARDS else ''), 'design_ref': ref},
            'level_note': note,
        })
    not_app = []
    for p in props:
        if p['id'] not in CHECKS:
            not_app.append({'property_id': p['id'],
                            'reason': na.get(p['id'], 'check not built yet in this session (planned, see DESIGN.md §8); not claimed until its monitor exists and is silent on the unchanged tree')})
    src_commits = subprocess.run(['git', '-C', '/repo', 'log', '--format=%H %s', '99a06ce..HEAD'],
                                 capture_output=True, text=True).stdout.splitlines()
    hook_commits = [l.split()[0] for l in src_commits if not l.split(' ', 1)[1].startswith('fix:')]
    man = {
        'version': 1,
        'setup_cmd': './setup.sh',
        'hooks': {
            'guard': 'MALTHE_CHAMELEON_VERIF',
            'enable': 'no build step: checks import chameleon from /repo/src (current working tree) in fresh interpreters and install their source-free monitors (wrappers/contracts on the real functions, sys.monitoring LINE events, audit hooks) at start-up; vcheck exports MALTHE_CHAMELEON_VERIF=1',
            'baseline_off_cmd': 'cd /repo && env -u MALTHE_CHAMELEON_VERIF /venv/bin/python -m pytest -ra -q -p no:cacheprovider --timeout=900 --continue-on-collection-errors',
            'source_commits': hook_commits,
            'add_only': True,
        },
        'engines': [
            {'name': 'vcheck', 'path': '/verif/vlib/runner.py', 'serves_properties': sorted(CHECKS),
             'kind_free_text': 'sharded workload runner: generated workloads executed on the real engine under runtime monitors; merges shard event summaries, classifies against known_findings.json, three-valued verdict'},
        ],
        'checks': checks,
        'not_applicable': not_app,
        'notes': 'Runtime monitoring only. Genuine defects repaired in /repo as fix: commits are listed with status "fixed" in /verif/known_findings.json; open findings are keyed by mechanism there.',
    }
    out = os.path.join(HERE, 'MANIFEST.json')
    json.dump(man, open(out, 'w'), indent=1)
    try:
        sys.path.insert(0, '/opt/veriftools/pyvenv/lib/python3.11/site-packages')
        import jsonschema
        jsonschema.validate(man, json.load(open('/root/.vp/MANIFEST.schema.json')))
        print('MANIFEST.json valid;', len(checks), 'checks,', len(not_app), 'not claimed')
    except ImportError:
        print('jsonschema unavailable; not validated')

if __name__ == '__main__':
    main()
