"""Throw-away: file-template history model."""
import random, sys, os, shutil, tempfile
sys.path.insert(0, '/repo/src')
from chameleon import PageTemplateFile, PageTemplateLoader
rng = random.Random(int(sys.argv[1]))
def body(v, macros, xml):
    s = ('<?xml version="1.0"?>' if xml else '') + '<r>V%d' % v
    for m in macros: s += '<i metal:define-macro="%s">M-%s-V%d</i>' % (m, m, v)
    return s + '</r>'
def expected_render(v, macros, xml):
    s = ('<?xml version="1.0"?>' if xml else '') + '<r>V%d' % v
    for m in macros: s += '<i>M-%s-V%d</i>' % (m, v)
    return s + '</r>'
from collections import Counter
stats = Counter(); shown = 0
for case in range(int(sys.argv[2])):
    d = tempfile.mkdtemp(dir='/tmp/exp/h')
    fn = os.path.join(d, 'a.pt')
    auto = rng.random() < .7
    ver = 0; mtime = 1000
    def write(newmtime):
        global ver, cur
        ver += 1
        cur = (ver, sorted(rng.sample(['m1', 'm2', 'm3'], rng.randint(0, 2))), rng.random() < .3)
        with open(fn, 'w') as f: f.write(body(*cur))
        os.utime(fn, (newmtime, newmtime))
    write(mtime)
    t = PageTemplateFile(fn, auto_reload=auto)
    compiled = None; compiled_mtime = None   # model
    hist = []
    ok = True
    for step in range(rng.randint(3, 10)):
        op = rng.choice(['write_fwd', 'write_same', 'write_back', 'render', 'render', 'names', 'macro', 'ctype'])
        if op.startswith('write'):
            if op == 'write_fwd': mtime += rng.choice([1, 1000])
            elif op == 'write_back': mtime -= 1
            write(mtime); hist.append((op, cur, mtime)); continue
        # model: before any use, cook_check: first use compiles; auto_reload recompiles iff mtime != last read
        if compiled is None or (auto and mtime != compiled_mtime):
            compiled, compiled_mtime = cur, mtime
        v, macros, xml = compiled
        try:
            if op == 'render': got = t(); want = expected_render(v, macros, xml)
            elif op == 'names': got = sorted(t.macros.names); want = macros
            elif op == 'ctype': t.cook_check(); got = t.content_type; want = 'text/xml' if xml else 'text/html'
            else:
                m = rng.choice(['m1', 'm2', 'm3'])
                try:
                    t.macros[m]; got = 'present'
                except KeyError: got = 'absent'
                want = 'present' if m in macros else 'absent'
        except Exception as e:
            got = 'EXC %s %s' % (type(e).__name__, e)
        hist.append((op, got))
        if got != want:
            stats['BAD ' + op] += 1; ok = False
            if shown < 8: shown += 1; print('MISMATCH auto=%s' % auto, op, 'want', want, 'got', got, '\n   hist', hist)
            break
    if ok: stats['ok'] += 1
    shutil.rmtree(d)
print(dict(stats))
