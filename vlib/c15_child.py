"""Child process for C15: builds and renders templates with the module cache
configured through CHAMELEON_CACHE (read by chameleon.config at import).

argv[1] = JSON list of jobs {cls, body, cfg, render}; prints a JSON list of results.
Environment (all optional):
  C15_CRASH_AUDIT=k   os._exit(97) just before the k-th file-system audit event raised inside
                      ModuleLoader.build/_load/get
  C15_CRASH_LINE=k    os._exit(97) at the k-th LINE event inside ModuleLoader.build/_load/get
  C15_RAISE_LINE=k:Exc  raise Exc (KeyboardInterrupt/MemoryError) at that LINE event instead
  C15_PARK_AUDIT=k    at the k-th audit event: create <C15_SYNC>.parked and wait for <C15_SYNC>.go
  C15_TMPNAMES=1      make tempfile names deterministic (so syscall injection can be aimed)
"""
import json
import os
import sys
import time

steps = {'audit': 0, 'line': 0}
trace = []
K_AUDIT = int(os.environ.get('C15_CRASH_AUDIT', '-1'))
K_LINE = int(os.environ.get('C15_CRASH_LINE', '-1'))
RAISE_LINE = os.environ.get('C15_RAISE_LINE', '')
K_PARK = int(os.environ.get('C15_PARK_AUDIT', '-1'))
SYNC = os.environ.get('C15_SYNC', '')
FS_EVENTS = ('open', 'os.rename', 'os.remove', 'tempfile.mkstemp', 'os.mkdir', 'os.replace', 'compile', 'exec',
             'os.truncate', 'os.link', 'os.symlink', 'shutil.move', 'shutil.copyfile')


def inside_loader():
    f = sys._getframe(2)
    while f is not None:
        co = f.f_code
        if co.co_name in ('build', '_load', 'get') and co.co_filename.endswith(os.path.join('chameleon', 'loader.py')):
            return co.co_name
        f = f.f_back
    return None


def hook(ev, args):
    if ev in FS_EVENTS:
        where = inside_loader()
        if where:
            steps['audit'] += 1
            a = args[0] if args else None
            trace.append('%s@%s(%s)' % (ev, where, os.path.basename(str(a))[-24:] if isinstance(a, (str, bytes)) else type(a).__name__))
            if steps['audit'] == K_AUDIT:
                os._exit(97)
            if steps['audit'] == K_PARK and SYNC:
                open(SYNC + '.parked', 'w').close()
                t0 = time.time()
                while not os.path.exists(SYNC + '.go') and time.time() - t0 < 60:
                    time.sleep(0.005)


sys.addaudithook(hook)

if os.environ.get('C15_TMPNAMES'):
    import tempfile

    class _Seq:
        def __init__(self):
            self.i = 0

        def __iter__(self):
            return self

        def __next__(self):
            self.i += 1
            return 'fixed%04d' % self.i
    tempfile._name_sequence = _Seq()

from chameleon import PageTemplate, PageTextTemplate, PageTemplateFile  # noqa: E402
import chameleon.loader as L  # noqa: E402

if K_LINE > 0 or RAISE_LINE:
    mon = sys.monitoring
    TOOL = 3
    mon.use_tool_id(TOOL, 'c15')
    codes = {L.ModuleLoader.build.__code__, L.ModuleLoader._load.__code__, L.ModuleLoader.get.__code__}
    rk, rexc = (RAISE_LINE.split(':') + [''])[:2] if RAISE_LINE else ('-1', '')
    rk = int(rk)

    def on_line(code, line):
        if code not in codes:
            return mon.DISABLE
        steps['line'] += 1
        if steps['line'] == K_LINE:
            os._exit(97)
        if steps['line'] == rk:
            raise {'KeyboardInterrupt': KeyboardInterrupt, 'MemoryError': MemoryError}[rexc]('injected')
    mon.register_callback(TOOL, mon.events.LINE, on_line)
    for c in codes:
        mon.set_local_events(TOOL, c, mon.events.LINE)
else:
    # count line steps all the same (cheaply) when asked to report them
    if os.environ.get('C15_COUNT_LINES'):
        mon = sys.monitoring
        TOOL = 3
        mon.use_tool_id(TOOL, 'c15')
        codes = {L.ModuleLoader.build.__code__, L.ModuleLoader._load.__code__, L.ModuleLoader.get.__code__}

        def on_line(code, line):
            steps['line'] += 1
        mon.register_callback(TOOL, mon.events.LINE, on_line)
        for c in codes:
            mon.set_local_events(TOOL, c, mon.events.LINE)


class MyPT(PageTemplate):
    pass


class OtherPT(PageTemplate):
    pass


CLASSES = {'PageTemplate': PageTemplate, 'MyPT': MyPT, 'OtherPT': OtherPT, 'PageTextTemplate': PageTextTemplate,
           'PageTemplateFile': PageTemplateFile}


FSIZE = int(os.environ.get('C15_FSIZE', '0'))
if FSIZE:
    # a file-size limit (the portable stand-in for a full disk / quota): write(2) on regular files comes back short
    # and then fails with EFBIG once the limit is reached (CPython ignores SIGXFSZ)
    import resource
    resource.setrlimit(resource.RLIMIT_FSIZE, (FSIZE, FSIZE))


def build(job):
    kw = dict(job.get('cfg', {}))
    cls = CLASSES[job.get('cls', 'PageTemplate')]
    if job.get('file_name'):
        # a file template: the body is written to <file_dir>/<file_name> first (the same path in every process)
        os.makedirs(job['file_dir'], exist_ok=True)
        path = os.path.join(job['file_dir'], job['file_name'])
        with open(path, 'w', encoding='utf-8') as f:
            f.write(job['body'])
        job = dict(job, body=path)
        cls = PageTemplateFile
    for k in ('boolean_attributes', 'implicit_i18n_attributes'):
        if k in kw:
            kw[k] = set(kw[k])
    body = job['body']
    if job.get('as_bytes'):
        body = body.encode(job['as_bytes'])       # the same document handed over as bytes
    try:
        t = cls(body, **kw)
        if job.get('then'):
            # a long-lived object: rendered once, then re-configured and given a new document
            t(v=1, lst=[1, 2], title='Hello')
            for k, v in job['then'].get('set', {}).items():
                setattr(t, k, v)
            t.write(job['then']['write'])
        out = t(v=1, lst=[1, 2], title='Hello', translate=lambda m, **k: '[%s]' % m + ''.join('{%s=%s}' % kv for kv in sorted((k.get('mapping') or {}).items())))
        if isinstance(out, bytes):
            out = out.decode('utf-8')
        return out
    except KeyboardInterrupt:
        return 'RAISED KeyboardInterrupt'
    except MemoryError:
        return 'RAISED MemoryError'
    except Exception as e:
        import re as _re
        return 'RAISED %s: %s | files=%s' % (type(e).__name__, str(e).split('\n')[0][:100],
                                            ','.join(_re.findall(r'Filename:\s+(\S+)', str(e))))


jobs = json.loads(sys.argv[1])
results = [build(j) for j in jobs]
sys.stdout.write(json.dumps({'results': results, 'steps': steps, 'trace': trace}))
sys.stdout.flush()
