"""Construction routes: the same template text can reach the engine in several ways, and every property has to
hold whichever way was taken.

route 'cached-after-sibling': the template is compiled through a module cache directory (a ModuleLoader handed over
as the `loader` option - the object CHAMELEON_CACHE installs for every template) that has just stored a *sibling*:
the same text and class compiled under a configuration differing in one option that influences compilation.  A
cache that forgets such an option hands the sibling's code to the template under test, which then breaks the
property the calling check is watching (escaping, verbatim copy, attribute rendering, translation ...).

The route is chosen from a hash of the source text, so that every rendering of one text inside a check takes the same
route, and `VERIF_ROUTES=0` switches it off (used when a disagreement is triaged).
"""
import atexit
import hashlib
import os
import shutil
import tempfile

_state = {'loader': None, 'dir': None, 'routed': 0, 'decoys': 0}

# one entry per constructor option that influences compilation (DESIGN C15); the value is one that differs from
# the default in a way that changes generated code
SIBLINGS = [
    {'trim_attribute_space': True},
    {'enable_data_attributes': True},
    {'default_expression': 'string'},
    {'boolean_attributes': {'checked', 'title', 'class', 'a', 'selected'}},
    {'implicit_i18n_attributes': {'title', 'alt', 'a', 'class'}},
    {'implicit_i18n_translate': True},
    {'enable_comment_interpolation': False},
    {'strict': False},
    {'restricted_namespace': False},
    {'extra_builtins': {'v': 'SIBLING', 'x': 'SIBLING', 'f': None}},
]


def cache_loader():
    if _state['loader'] is None:
        from chameleon.loader import ModuleLoader
        d = tempfile.mkdtemp(prefix='verif_route_cache_')
        atexit.register(shutil.rmtree, d, True)
        _state['dir'] = d
        _state['loader'] = ModuleLoader(d)
    return _state['loader']


def routed(src, every):
    if os.environ.get('VERIF_ROUTES') == '0' or every <= 0:
        return False
    if isinstance(src, bytes):
        data = src
    else:
        data = src.encode('utf-8', 'surrogatepass')
    return int.from_bytes(hashlib.blake2b(data, digest_size=4).digest(), 'big') % every == 0


def sibling_for(src, cfg):
    """A sibling configuration: cfg with one compile-time option changed (chosen from the text's hash)."""
    data = src if isinstance(src, bytes) else src.encode('utf-8', 'surrogatepass')
    h = int.from_bytes(hashlib.blake2b(data, digest_size=4, person=b'sibling').digest(), 'big')
    (name, value), = SIBLINGS[h % len(SIBLINGS)].items()
    if name in cfg and (cfg[name] == value or h & 1024):
        # the option is set for the template under test: the sibling leaves it at its default
        sib = dict(cfg)
        del sib[name]
        return sib
    if name == 'strict' and cfg.get('strict', True) is False:
        return None
    return dict(cfg, **{name: value})


def body_sibling(src):
    if isinstance(src, bytes):
        return None
    h = int.from_bytes(hashlib.blake2b(src.encode('utf-8', 'surrogatepass'), digest_size=4, person=b'body').digest(), 'big') % 4
    if h == 0 and '\r' in src:
        return src.replace('\r\n', '\n').replace('\r', '\n')
    if h == 0 and '\n' in src:
        return src.replace('\n', '\r\n')
    if h == 1 and '\n' in src and '\r' not in src:
        return src.replace('\n', '\r')
    if h == 2 and src != src.strip():
        return src.strip()
    if h == 2:
        return src + '\n'
    return None


def make(cls, src, every=8, ctx=None, **cfg):
    """cls(src, **cfg), on one text in `every` through the module cache after a sibling configuration."""
    if 'loader' in cfg or not routed(src, every):
        return cls(src, **cfg)
    loader = cache_loader()
    sib = sibling_for(src, cfg)
    body = body_sibling(src)
    if body is not None:
        # a sibling TEXT: same configuration, the text differing only in its line-ending convention or in white
        # space at its ends (a cache key computed from a normalised text would hand its code over)
        try:
            cls(body, loader=loader, **cfg).cook_check()
            _state['decoys'] += 1
        except Exception:
            pass
    if sib is not None:
        try:
            t = cls(src, loader=loader, **sib)
            t.cook_check()
            _state['decoys'] += 1
        except Exception:
            pass            # the sibling configuration may not accept this text; nothing is stored then
    _state['routed'] += 1
    if ctx is not None:
        ctx.mon('compiled-through-module-cache-after-sibling-configuration')
    return cls(src, loader=loader, **cfg)


def page_template(src, every=8, ctx=None, **cfg):
    from chameleon import PageTemplate
    return make(PageTemplate, src, every, ctx, **cfg)
