"""Throw-away prototype: tiny TAL reference model vs real engine, to find semantic surprises."""
import random, sys, itertools
sys.path.insert(0, '/repo/src')
from chameleon import PageTemplate
from chameleon.tales import DEFAULT_MARKER as DEFAULT

class Boom(Exception): pass

# ---- values
def mkvals(rng):
    return rng.choice([None, 'DEFAULT', 0, '', [], False, 1, 'txt', 'a<b', 2.5, True, b'by', [1, 2], (3,), {'k': 'v'}, 'OBJ'])
class Obj:
    def __str__(self): return 'obj&'
def realval(v):
    if v == 'DEFAULT' and isinstance(v, str): return DEFAULT
    if v == 'OBJ' and isinstance(v, str): return Obj()
    return v

# ---- AST
class El:
    def __init__(s, tag, st, kids, statics): s.tag, s.st, s.kids, s.statics = tag, st, kids, statics
class Tx:
    def __init__(s, t): s.t = t

def gen_el(rng, depth, ids, in_switch):
    st = {}
    stmts = ['define', 'condition', 'repeat', 'content', 'replace', 'omit', 'attrs', 'switch'] + (['case'] if in_switch else [])
    k = rng.choice([0, 1, 2, 2, 3, 3, 4])
    chosen = rng.sample(stmts, min(k, len(stmts)))
    if 'case' in chosen and 'switch' in chosen: chosen.remove('switch')
    if 'content' in chosen and 'replace' in chosen: chosen.remove(rng.choice(['content', 'replace']))
    for c in chosen:
        i = next(ids)
        if c == 'define': st[c] = ('v%d' % (i % 3), i)
        elif c == 'repeat': st[c] = ('r%d' % (i % 2), i)
        elif c == 'attrs': st[c] = [(rng.choice(['a', 'b', 'new']), i)]
        elif c == 'omit': st[c] = i if rng.random() < .7 else None
        else: st[c] = i
    statics = [(n, 'S' + n) for n in ['a', 'b'] if rng.random() < .5]
    kids = []
    for _ in range(rng.randint(0, 2)):
        if depth < 2 and rng.random() < .6: kids.append(gen_el(rng, depth + 1, ids, in_switch or 'switch' in st))
        else: kids.append(Tx(rng.choice(['t', ' u ', 'x&amp;y'])))
    if rng.random() < .5:
        kids.append(Tx('[${v0|"U"}${r0|"U"}]'))
    return El(rng.choice(['p', 'div', 'b']), st, kids, statics)

def ser(n, perm_rng=None):
    if isinstance(n, Tx): return n.t
    sparts = [' %s="%s"' % (k, v) for k, v in n.statics]
    parts = []
    for c, v in n.st.items():
        if c == 'define': parts.append(' tal:define="%s f(%d)"' % v)
        elif c == 'repeat': parts.append(' tal:repeat="%s f(%d)"' % v)
        elif c == 'attrs': parts.append(' tal:attributes="%s"' % '; '.join('%s f(%d)' % a for a in v))
        elif c == 'omit': parts.append(' tal:omit-tag="%s"' % ('' if v is None else 'f(%d)' % v))
        else: parts.append(' tal:%s="f(%d)"' % (c, v))
    if perm_rng:
        perm_rng.shuffle(parts)
        # interleave statics (in order) at random positions
        for sp in sparts:
            pos = perm_rng.randint(0, len(parts))
            parts.insert(pos, sp)
        # restore relative order of statics
        idx = [i for i, p in enumerate(parts) if p in sparts]
        for i, sp in zip(idx, sparts): parts[i] = sp
    else:
        parts = sparts + parts
    lead = ('\n' + '  ') if 'repeat' in n.st else ''
    return lead + '<%s%s>%s</%s>' % (n.tag, ''.join(parts), ''.join(ser(k, perm_rng) for k in n.kids), n.tag)

# ---- model
MISSING = object()
class Model:
    def __init__(s, B): s.B, s.log, s.out, s.env = B, [], [], {}
    def f(s, i):
        s.log.append(i)
        v = s.B[i]
        if v == 'RAISE' and isinstance(v, str): raise Boom(i)
        return v
    def totext(s, v, quote=None):
        if isinstance(v, bytes): v = v.decode()
        elif v == 'OBJ' and isinstance(v, str): v = 'obj&'
        elif not isinstance(v, str): v = str(v)
        v = v.replace('&', '&amp;').replace('<', '&lt;').replace('>', '&gt;')
        if quote: v = v.replace('"', '&quot;')
        return v
    def text(s, t):
        def look(name): return s.env.get(name, MISSING)
        t2 = t
        if '${' in t:
            for name in ('v0', 'r0'):
                v = look(name)
                rep = 'U' if v is MISSING else ('' if v is None else s.totext(v if not (isinstance(v, str) and v == 'DEFAULT') else '<DEFAULT>'))
                t2 = t2.replace('${%s|"U"}' % name, rep)
        s.out.append(t2)
    def render(s, n, switch=None):
        if isinstance(n, Tx): return s.text(n.t)
        st = n.st
        if 'repeat' in st: s.out.append('\n  ')
        saved = {}
        def bind(name, val):
            if name not in saved: saved[name] = s.env.get(name, MISSING)
            s.env[name] = val
        def restore():
            for k, v in saved.items():
                if v is MISSING: s.env.pop(k, None)
                else: s.env[k] = v
        try:
            if 'define' in st: bind(st['define'][0], s.f(st['define'][1]))
            if 'case' in st:
                sw = switch
                if sw['done']: return
                cv = s.f(st['case'])
                if not (cv == sw['val'] or (isinstance(cv, str) and cv == 'DEFAULT')):
                    s.log.append(st['case']); return
                sw['done'] = True
            if 'condition' in st:
                if not s.truth(s.f(st['condition'])): return
            if 'repeat' in st:
                name, i = st['repeat']
                seq = s.f(i)
                items = list(seq) if seq is not None else []
                saved_r = s.env.get(name, MISSING)
                for k, it in enumerate(items):
                    s.env[name] = it
                    s.body(n, switch)
                    if k < len(items) - 1: s.out.append('\n  ')
                if saved_r is MISSING: s.env.pop(name, None)
                else: s.env[name] = saved_r
            else:
                s.body(n, switch)
        finally:
            restore()
    def truth(s, v):
        if isinstance(v, str) and v in ('DEFAULT', 'OBJ'): return True
        return bool(v)
    def body(s, n, switch):
        st = n.st
        if 'switch' in st: switch = {'val': s.f(st['switch']), 'done': False}
        if 'replace' in st:
            v = s.f(st['replace'])
            if not (isinstance(v, str) and v == 'DEFAULT'):
                if v is not None: s.out.append(s.totext(v))
                return
        omit = False
        if 'omit' in st:
            omit = True if st['omit'] is None else s.truth(s.f(st['omit']))
        # attributes
        attrs = [[k, v, False] for k, v in n.statics]
        if not omit:
            for name, i in st.get('attrs', []):
                val = s.f(i)
                hit = [a for a in attrs if a[0] == name]
                if isinstance(val, str) and val == 'DEFAULT':
                    continue
                if hit:
                    hit[0][1] = None if val is None else s.totext(val, '"'); hit[0][2] = True
                else:
                    attrs.append([name, None if val is None else s.totext(val, '"'), True])
        if not omit:
            s.out.append('<' + n.tag + ''.join(' %s="%s"' % (k, v) for k, v, _ in attrs if v is not None) + '>')
        if 'content' in st:
            v = s.f(st['content'])
            if isinstance(v, str) and v == 'DEFAULT':
                for k in n.kids: s.render(k, switch)
            elif v is not None: s.out.append(s.totext(v))
        else:
            for k in n.kids: s.render(k, switch)
        if not omit: s.out.append('</' + n.tag + '>')

def run_model(root, B):
    m = Model(B)
    try:
        m.out.append('<root>'); m.render(root); m.out.append('</root>')
        return ''.join(m.out), m.log
    except Boom:
        return 'EXC', m.log

def run_real(src, B):
    log = []
    def f(i):
        log.append(i); v = B[i]
        if isinstance(v, str) and v == 'RAISE': raise Boom(i)
        return realval(v)
    try:
        return PageTemplate(src)(f=f), log
    except Boom: return 'EXC', log
    except Exception as e: return 'ERR %s %s' % (type(e).__name__, str(e).split('\n')[0][:60]), log

seed = int(sys.argv[1]); N = int(sys.argv[2])
rng = random.Random(seed)
bad = 0; shown = 0; n = 0
for case in range(N):
    ids = itertools.count(1)
    root = gen_el(rng, 0, ids, False)
    nid = next(ids)
    src = '<root>' + ser(root, rng) + '</root>'
    for b in range(3):
        B = {i: mkvals(rng) for i in range(1, nid)}
        # repeats need iterables
        def fix(n):
            if isinstance(n, Tx): return
            if 'repeat' in n.st: B[n.st['repeat'][1]] = rng.choice([[], None, [1], [1, 2], 'ab', (0, None)])
            if 'define' in n.st and isinstance(B[n.st['define'][1]], dict): B[n.st['define'][1]] = 5
            for k in n.kids: fix(k)
        fix(root)
        n += 1
        mo = run_model(root, B); ro = run_real(src, B)
        if mo != ro:
            bad += 1
            if shown < 8:
                shown += 1
                print('--- MISMATCH\n', src, '\n B', B, '\n model', mo, '\n real ', ro)
print('cases', n, 'bad', bad)
